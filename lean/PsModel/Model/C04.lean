import PsModel.Gen.C04Shape
/-!
# C04 model – state-trigger hub, per-trigger FIFO queues and the state branch of both trigger loops

Mirrors (pyscript, `/repo/custom_components/pyscript`):
* `__init__.py state_changed`            → `Hub.apply` (builds `new_vars = {e: new, e.old: old}` and `func_args`)
* `state.py State.update`               → `Hub.apply` (`notify_var_last` written only for subscribed entities) +
                                           `enqueue` (one message per subscribed queue, `func_args.copy()`)
* `state.py State.notify_var_get`       → `nvgOne` / `notifyVarGet` (the five fall-backs, in the code's order)
* `state.py State.notify_add`, `exist`  → `Name.subscribable`, `STCfg.subscribed`, `exist`
* `eval.py ast_attribute/ast_name`      → `resolve` (symbol table first, then the LIVE state, then `getattr` of the prefix)
* `trigger.py ident_any_values_changed` → `identAny`,  `ident_values_changed` → `identChanged` (string-only `!=`)
* `trigger.py TrigInfo.trigger_watch`   → `Legacy.stStep` (state branch, hold parameters absent)
* `decorators/state.py _cycle/_check_new_state` → `New.stStep` (same regime)

Names are modelled on their split form: `pyscript.x.a` is `⟨"pyscript.x", ["a"]⟩` (entity, remaining parts); one-part
names (`int`, python variables) never reach any of the modelled functions and are left out.
The trigger expression is an ARBITRARY function `Env → Bool` (truthiness, an exception counting as false) of the
list of bindings of the names it mentions; everything around it is concrete.

Listener-enqueue (`Step.op`) and loop-dequeue (`Step.deq i`) are separate atomic steps; a schedule is any list of them.
-/
namespace PsModel.C04

/-- a `StateVal` snapshot: the state string and the (user) attributes -/
structure SVal where
  state : String
  attrs : List (String × String)
deriving DecidableEq, Repr, Inhabited

/-- a dotted name split at the dots: entity `d.e` and the remaining parts -/
structure Name where
  e : String
  rest : List String
deriving DecidableEq, Repr, Inhabited

/-- what a name can be bound to: Python `None`, a `StateVal`, an attribute value, or "evaluating it raises" -/
inductive Val where
  | none
  | sv (s : SVal)
  | av (a : String)
  | undef
deriving DecidableEq, Repr, Inhabited

abbrev Env := List (Name × Val)

/-- one `state_changed` event = the `func_args` of `__init__.state_changed` -/
structure Ev where
  e : String
  new : Option SVal
  old : Option SVal
  ctx : Nat
deriving DecidableEq, Repr, Inhabited

/-- an operation on Home Assistant's state machine (`async_set` / `async_remove`) -/
structure Op where
  e : String
  new : Option SVal
  ctx : Nat
deriving DecidableEq, Repr, Inhabited

/-- shadowing association list; used for `hass.states` and for `State.notify_var_last` -/
abbrev Store := List (String × Option SVal)

def Store.get (s : Store) (e : String) : Option SVal :=
  match s.lookup e with
  | some v => v
  | none => none

def Store.put (s : Store) (e : String) (v : Option SVal) : Store := (e, v) :: s

/-- one `@state_trigger` decorator (or `task.wait_until(state_trigger=…)`) -/
structure STCfg where
  expr : Option (Env → Bool)        -- `state_trig_eval`; `none` when only any-change names were given
  exprNames : List Name             -- `get_names()` of the expression (dotted names only)
  anyNames : List Name              -- `state_trig_ident_any` (arguments matching `STATE_RE`)
  watch : Option (List Name)        -- `watch=`
  kwargs : List (String × String)   -- `kwargs=`
  func : Nat                        -- the function this decorator sits on

/-- `state_trig_ident`: `watch` overrides, otherwise expression names ∪ any-change names -/
def STCfg.ident (c : STCfg) : List Name :=
  match c.watch with
  | some w => w
  | none => c.exprNames ++ c.anyNames

/-- `notify_add` only registers names of two or three parts -/
def Name.subscribable (n : Name) : Bool := n.rest.length ≤ 1

/-- the trigger's queue is in `State.notify[e]` -/
def STCfg.subscribed (c : STCfg) (e : String) : Bool := c.ident.any (fun n => n.subscribable && n.e == e)

/-- `e in State.notify` -/
def isKey (cfgs : List STCfg) (e : String) : Bool := cfgs.any (fun c => c.subscribed e)

/-- `getattr(v, a, None)` on `StateVal | None` -/
def getattr (v : Option SVal) (a : String) : Option String :=
  match v with
  | some s => s.attrs.lookup a
  | none => none

def Val.ofOpt : Option SVal → Val
  | Option.some s => .sv s
  | Option.none => .none

def Val.ofAttr : Option String → Val
  | Option.some a => .av a
  | Option.none => .none

/-! ## which names changed (`trigger.py`) -/

/-- Python `value != old_value` on `StateVal | None`: `StateVal` is a `str`, so only the state string counts -/
def pyNe : Option SVal → Option SVal → Bool
  | some x, some y => x.state != y.state
  | none, none => false
  | _, _ => true

def keys (v : Option SVal) : List String :=
  match v with
  | some s => s.attrs.map (·.1)
  | none => []

/-- one `check_var` of `ident_any_values_changed` -/
def anyOne (ev : Ev) (n : Name) : Bool :=
  (n.rest.isEmpty && n.e == ev.e && pyNe ev.old ev.new) ||
  (match n.rest with
   | [a] =>
     n.e == ev.e &&
       (if a == "*" then (keys ev.new ++ keys ev.old).any (fun k => getattr ev.new k != getattr ev.old k)
        else getattr ev.new a != getattr ev.old a)
   | _ => false)

def identAny (ev : Ev) (names : List Name) : Bool := names.any (anyOne ev)

/-- one `check_var` of `ident_values_changed` -/
def chgOne (ev : Ev) (n : Name) : Bool :=
  match n.rest with
  | [] => n.e == ev.e && pyNe ev.new ev.old
  | [a] =>
    n.e == ev.e && (if a == "old" then pyNe ev.new ev.old else getattr ev.new a != getattr ev.old a)
  | _ => false

def identChanged (ev : Ev) (names : List Name) : Bool := names.any (chgOne ev)

/-! ## the hub: `state_changed` + `State.update` + `notify_var_get` -/

structure Hub where
  live : Store      -- hass.states
  last : Store      -- State.notify_var_last
deriving Repr, Inhabited

/-- `State.exist` (attribute names colliding with service / virtual / callable names are outside the model) -/
def exist (live : Store) (n : Name) : Bool :=
  match n.rest with
  | [] => (live.get n.e).isSome
  | [a] => (getattr (live.get n.e) a).isSome
  | _ => false

/-- `new_vars = {var_name: new_val, f"{var_name}.old": old_val}` -/
def baseVars (ev : Ev) : Env := [(⟨ev.e, []⟩, .ofOpt ev.new), (⟨ev.e, ["old"]⟩, .ofOpt ev.old)]

def isBaseKey (ev : Ev) (n : Name) : Bool := n.e == ev.e && (n.rest == [] || n.rest == ["old"])

/-- one iteration of the loop of `notify_var_get` for a name not yet in `notify_vars`; `none` = left unbound -/
def nvgOne (live last : Store) (ev : Ev) (n : Name) : Option Val :=
  match n.rest with
  | [] =>
    match last.lookup n.e with
    | some v => some (.ofOpt v)                                  -- last notified value
    | none => if exist live n then none else some .none          -- unbound (read live later) / None
  | [a] =>
    match last.lookup n.e with
    | some v => some (.ofAttr (getattr v a))                     -- attribute of the last notified value
    | none => if exist live n then none else some .none
  | [x, a] =>
    if x == "old" && n.e == ev.e then some (.ofAttr (getattr ev.old a))   -- `.old.attr` of the changed entity
    else some .none                                              -- `exist` is false for four parts
  | _ => none                                                    -- five or more parts: never bound

/-- `State.notify_var_get(var_names, new_vars)` for a *set* `var_names` -/
def notifyVarGet (live last : Store) (ev : Ev) (names : List Name) : Env :=
  baseVars ev ++ names.filterMap (fun n =>
    if isBaseKey ev n then none else (nvgOne live last ev n).map (fun v => (n, v)))

structure Msg where
  vars : Env
  ev : Ev
deriving Repr, Inhabited

/-- a started run: the event and the keyword arguments after `func_args.update(kwargs)` -/
structure Run where
  ctx : Nat
  args : List (String × String)
deriving DecidableEq, Repr, Inhabited

def showSVal : Option SVal → String
  | none => "None"
  | some s => s.state ++ "{" ++ ",".intercalate (s.attrs.map (fun p => p.1 ++ "=" ++ p.2)) ++ "}"

/-- `func_args` of `state_changed` (the `context` entry is carried as `Run.ctx`) -/
def baseArgs (ev : Ev) : List (String × String) :=
  [("trigger_type", "state"), ("var_name", ev.e), ("value", showSVal ev.new), ("old_value", showSVal ev.old)]

/-- `d[k] = v` on an insertion-ordered dict -/
def dictSet (d : List (String × String)) (k v : String) : List (String × String) :=
  if d.any (fun p => p.1 == k) then d.map (fun p => if p.1 == k then (k, v) else p) else d ++ [(k, v)]

/-- `func_args.update(kwargs)` -/
def dictUpdate (d kw : List (String × String)) : List (String × String) :=
  kw.foldl (fun acc p => dictSet acc p.1 p.2) d

def mkRun (c : STCfg) (ev : Ev) : Run := ⟨ev.ctx, dictUpdate (baseArgs ev) c.kwargs⟩

/-! ## name resolution when the expression is evaluated (`eval.py`) -/

/-- `getattr(val, a)` without default: raises (→ `undef`) unless `val` is a `StateVal` with that attribute -/
def getattrVal : Val → String → Val
  | .sv s, a =>
    match s.attrs.lookup a with
    | some x => .av x
    | none => .undef
  | _, _ => .undef

/-- `ast_attribute` on the collapsed name `e.rest` (rest given reversed): the symbol table first, then – for `d.e`
and existing `d.e.attr` – the LIVE state at evaluation time, then `getattr` of the resolved prefix. -/
def resolveR (vars : Env) (live : Store) (e : String) : List String → Val
  | [] =>
    match vars.lookup ⟨e, []⟩ with
    | some v => v
    | none =>
      match live.get e with
      | some s => .sv s
      | none => .undef                                            -- NameError
  | a :: r =>
    match vars.lookup ⟨e, (a :: r).reverse⟩ with
    | some v => v
    | none =>
      if r.isEmpty && (getattr (live.get e) a).isSome then Val.ofAttr (getattr (live.get e) a)
      else getattrVal (resolveR vars live e r) a

def resolve (vars : Env) (live : Store) (n : Name) : Val := resolveR vars live n.e n.rest.reverse

/-- the bindings the expression sees for the names it mentions -/
def envFor (c : STCfg) (vars : Env) (live : Store) : Env := c.exprNames.map (fun n => (n, resolve vars live n))

/-! ## the trigger loops (state branch, no hold parameters) -/

structure TState where
  q : List Msg          -- notify_q
  evals : List Env      -- ghost: environments on which the expression was evaluated
deriving Repr, Inhabited

/-- result of handling one dequeued message -/
structure Outcome where
  run : Option Run
  eval : Option Env
deriving Repr, Inhabited

namespace Legacy

/-- `trigger_watch`, `notify_type == "state"`, `state_hold is None`, `state_hold_false is None`, no guards:
```
if not ident_any_values_changed(func_args, self.state_trig_ident_any):
    if "var_name" in func_args and not ident_values_changed(func_args, self.state_trig_ident): continue
    if self.state_trig_eval: trig_ok = await self._call_expression(self.state_trig_eval, new_vars)
    else: trig_ok = False
...
if not trig_ok: continue
func_args.update(user_kwargs); self.call_action(notify_type, func_args)
``` -/
def handle (c : STCfg) (live : Store) (m : Msg) : Outcome :=
  if !identAny m.ev c.anyNames then
    if !identChanged m.ev c.ident then ⟨none, none⟩
    else
      match c.expr with
      | some f =>
        let env := envFor c m.vars live
        if f env then ⟨some (mkRun c m.ev), some env⟩ else ⟨none, some env⟩
      | none => ⟨none, none⟩
  else ⟨some (mkRun c m.ev), none⟩

end Legacy

namespace New

/-- `_is_trig_ok`: `True` when the decorator has no expression -/
def isTrigOk (c : STCfg) (live : Store) (m : Msg) : Bool × Option Env :=
  match c.expr with
  | some f =>
    let env := envFor c m.vars live
    (f env, some env)
  | none => (true, none)

/-- `_cycle` body + `_check_new_state` with `state_hold is None`, `state_hold_false is None`:
```
if ident_any_values_changed(func_args, self.state_trig_ident_any): trig_ok = True
elif ident_values_changed(func_args, self.state_trig_ident):
    trig_ok = self.has_expression() and await self._is_trig_ok(new_vars)    # since fix 5a43b84
else: continue
await self._check_new_state(trig_ok)      # no holds: dispatch iff trig_ok
```
Deviation flag `noExprRuns` (DESIGN §4): `true` = the code BEFORE `5a43b84` (`trig_ok = await self._is_trig_ok()`,
which is `True` for a decorator without expression). -/
def handleF (noExprRuns : Bool) (c : STCfg) (live : Store) (m : Msg) : Outcome :=
  let r : Bool × Option Env :=
    if identAny m.ev c.anyNames then (true, none)
    else if identChanged m.ev c.ident then
      (if noExprRuns then isTrigOk c live m else ((c.expr.isSome && (isTrigOk c live m).1), (isTrigOk c live m).2))
    else (false, none)
  ⟨if r.1 then some (mkRun c m.ev) else none, r.2⟩

/-- the code as it is now -/
def noExprRunsCurrent : Bool := false

def handle : STCfg → Store → Msg → Outcome := handleF noExprRunsCurrent

/-- the code before fix `5a43b84` (kept for the `_regress_` theorem) -/
def handlePreFix : STCfg → Store → Msg → Outcome := handleF true

end New

/-! ## keyword arguments of a run delayed by `state_hold`

(the timing of the delay is C05's subject; here: WHICH dict the delayed run receives) -/

namespace Legacy

/-- `trigger_watch` with `state_hold`: two cooperating sites.  When a true evaluation starts a hold the loop stores
`state_trig_notify_info = notify_info` and then executes `func_args.update(user_kwargs)` – on the SAME dict object that
sits inside the stored `notify_info` – before it `continue`s.  When the hold expires (`state_trig_timeout`) it takes
`new_vars, func_args = state_trig_notify_info`; `user_kwargs` is still the empty dict of the loop head, so the final
`func_args.update(user_kwargs)` in front of `call_action` adds nothing.
Deviation flag `mergeAtHoldStart` (DESIGN §4): current value `true`. -/
def heldRunF (mergeAtHoldStart : Bool) (c : STCfg) (ev : Ev) : Run :=
  let stored := if mergeAtHoldStart then dictUpdate (baseArgs ev) c.kwargs else baseArgs ev
  ⟨ev.ctx, dictUpdate stored []⟩

def heldRun : STCfg → Ev → Run := heldRunF true

end Legacy

namespace New

/-- `_check_state_hold` → `TriggerDecorator.dispatch`: `data.func_args.update(self.kwargs.get("kwargs", {}))` is
applied at dispatch time to `last_func_args` (the arguments remembered when the hold started) -/
def heldRun (c : STCfg) (ev : Ev) : Run := ⟨ev.ctx, dictUpdate (baseArgs ev) c.kwargs⟩

end New

/-! ## `kwargs=None` spelled out (the documented default value)

`qs` = for the delivered watched changes of one decorator, in order: does the change qualify (expression true)?
`ctxs` = the ids of those changes.  Deviation flag `noneIsEmpty` (DESIGN §4): `true` = the code since the fix of C04-F5
(`… .get("kwargs") or {}`), `false` = the code before it (`… .get("kwargs", {})`).  Its current value is read off the source
on every run (`Gen.KWARGS_NONE_IS_EMPTY_LEGACY` / `_NEW`). -/

/-- `self.state_trigger_kwargs.get("kwargs") or {}` / `self.kwargs.get("kwargs") or {}`: `None` counts as no extra keywords -/
def kwOr (k : Option (List (String × String))) : List (String × String) := k.getD []

/-- the loop over the delivered changes once `user_kwargs` is a dict: every qualifying change starts a run -/
def kwRuns : List Bool → List Nat → List Nat
  | true :: qs, c :: cs => c :: kwRuns qs cs
  | false :: qs, _ :: cs => kwRuns qs cs
  | _, _ => []

namespace Legacy

/-- pre-fix: `self.state_trigger_kwargs.get("kwargs", {})` yields `None` (the key exists), and for the first qualifying
change `func_args.update(user_kwargs)` raises `TypeError` inside `trigger_watch`; its `except Exception` handler
unsubscribes the queue and the trigger task ends – before `call_action`.  So: no run ever starts, and the expression
is evaluated up to and including the first qualifying change only. -/
def kwNoneEvalsPreFix : List Bool → Nat
  | [] => 0
  | true :: _ => 1
  | false :: qs => 1 + kwNoneEvalsPreFix qs

def kwNoneRunsF (noneIsEmpty : Bool) (qs : List Bool) (ctxs : List Nat) : List Nat :=
  if noneIsEmpty then kwRuns qs ctxs else []

def kwNoneEvalsF (noneIsEmpty : Bool) (qs : List Bool) : Nat :=
  if noneIsEmpty then qs.length else kwNoneEvalsPreFix qs

/-- the code as it is (extracted) -/
def kwNoneRuns := kwNoneRunsF Gen.KWARGS_NONE_IS_EMPTY_LEGACY
def kwNoneEvals := kwNoneEvalsF Gen.KWARGS_NONE_IS_EMPTY_LEGACY

end Legacy

namespace New

/-- pre-fix: the kwargs schema `vol.Coerce(dict[str, Any])` rejects `None` when the decorator is validated
(`TypeError: … keyword 'kwargs' should be type dict`): the function gets no trigger at all.  Since the fix the schema is
`vol.Any(None, vol.Coerce(dict…))` and `dispatch` merges `self.kwargs.get("kwargs") or {}`. -/
def kwNoneRunsF (noneIsEmpty : Bool) (qs : List Bool) (ctxs : List Nat) : List Nat :=
  if noneIsEmpty then kwRuns qs ctxs else []

def kwNoneEvalsF (noneIsEmpty : Bool) (qs : List Bool) : Nat :=
  if noneIsEmpty then qs.length else 0

def kwNoneRuns := kwNoneRunsF Gen.KWARGS_NONE_IS_EMPTY_NEW
def kwNoneEvals := kwNoneEvalsF Gen.KWARGS_NONE_IS_EMPTY_NEW

end New

/-- shapes of `State.update` / `State.notify_del` the hub model relies on (extracted on every run): one copy of
`func_args` per subscriber queue, `notify_var_last` recorded for every key of `State.notify`, and `notify_del` removing
only the queue – never the entity's entry or its last value -/
def hubShapeOK : Bool :=
  Gen.UPDATE_COPIES_FUNC_ARGS && Gen.UPDATE_RECORDS_LAST_FOR_KEYS && Gen.NOTIFY_DEL_KEEPS_ENTRY

/-! ## the transition system -/

inductive Step where
  | op (o : Op)          -- HA applies the operation; the listener runs to completion (it never suspends)
  | deq (i : Nat)        -- trigger i's loop takes the head of its queue and handles it
deriving Repr, Inhabited

structure Sys where
  hub : Hub
  ts : Nat → TState
  log : List (Nat × Run)     -- runs in the order they were started, tagged with the decorator index

/-- `hass.states.async_set/async_remove` + `state_changed` + the `notify_var_last` part of `State.update`.
A set to the identical state and attributes (or removing a missing entity) produces no event. -/
def Hub.apply (cfgs : List STCfg) (h : Hub) (o : Op) : Hub × Option Ev :=
  let old := h.live.get o.e
  if old = o.new then (h, none)
  else
    (⟨h.live.put o.e o.new, if isKey cfgs o.e then h.last.put o.e o.new else h.last⟩,
     some ⟨o.e, o.new, old, o.ctx⟩)

def mkMsg (c : STCfg) (h : Hub) (ev : Ev) : Msg := ⟨notifyVarGet h.live h.last ev c.ident, ev⟩

/-- the fan-out loop of `State.update` -/
def enqueue (cfgs : List STCfg) (h : Hub) (ev : Ev) (ts : Nat → TState) : Nat → TState :=
  fun i =>
    match cfgs[i]? with
    | some c => if c.subscribed ev.e then { ts i with q := (ts i).q ++ [mkMsg c h ev] } else ts i
    | none => ts i

abbrev Handler := STCfg → Store → Msg → Outcome

def logRun (i : Nat) (o : Outcome) (log : List (Nat × Run)) : List (Nat × Run) :=
  match o.run with
  | some r => log ++ [(i, r)]
  | none => log

def addEval (o : Outcome) (evals : List Env) : List Env :=
  match o.eval with
  | some e => evals ++ [e]
  | none => evals

def step (h : Handler) (cfgs : List STCfg) (s : Sys) : Step → Sys
  | .op o =>
    match Hub.apply cfgs s.hub o with
    | (hub', some ev) => { s with hub := hub', ts := enqueue cfgs hub' ev s.ts }
    | (hub', none) => { s with hub := hub' }
  | .deq i =>
    match cfgs[i]?, (s.ts i).q with
    | some c, m :: q =>
      let o := h c s.hub.live m
      { s with
        ts := fun j => if j = i then ⟨q, addEval o (s.ts i).evals⟩ else s.ts j,
        log := logRun i o s.log }
    | _, _ => s

def exec (h : Handler) (cfgs : List STCfg) (s : Sys) (steps : List Step) : Sys := steps.foldl (step h cfgs) s

def init (live : Store) : Sys := ⟨⟨live, []⟩, fun _ => ⟨[], []⟩, []⟩

/-- **Every subscriber goes away and comes back** (script removed / reloaded, function redefined): the decorators get
fresh, empty queues (whatever was still queued dies with the old ones).  `State.notify_del` only removes the queue from
`State.notify[entity]`; the – possibly empty – entry itself stays, so `State.update` goes on recording the entity's value
in `State.notify_var_last` while nobody is subscribed: the hub (`live`, `last`, and which entities are keys) is unchanged.
Operations issued while nobody is subscribed are ordinary `Step.op`s (they update the hub; what they enqueue is dropped
by the next `relife`). -/
def relife (s : Sys) : Sys := { s with ts := fun i => ⟨[], (s.ts i).evals⟩ }

/-- runs started by decorator `i`, in order -/
def runsOf (i : Nat) (log : List (Nat × Run)) : List Run := (log.filter (fun p => p.1 == i)).map (·.2)

/-- the log entry was produced by a decorator of function `f` -/
def ofFunc (cfgs : List STCfg) (f : Nat) (p : Nat × Run) : Bool :=
  match cfgs[p.1]? with
  | some c => c.func == f
  | none => false

/-- runs of function `f` (all its decorators), in the order they were started -/
def funcRuns (cfgs : List STCfg) (f : Nat) (log : List (Nat × Run)) : List Run := (log.filter (ofFunc cfgs f)).map (·.2)

def opsOf : List Step → List Op
  | [] => []
  | .op o :: r => o :: opsOf r
  | .deq _ :: r => opsOf r

/-- the settled schedule: after every operation every trigger handles what it received before the next operation -/
def settled (n : Nat) (ops : List Op) : List Step :=
  ops.flatMap (fun o => Step.op o :: (List.range n).map Step.deq)

end PsModel.C04
