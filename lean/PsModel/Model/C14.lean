import PsModel.Model.C13
import PsModel.Gen.RunCoroTbl
/-!
# C14 model – `Function.run_coro` with its `finally`, `create_task`, done-callbacks, `task.cancel`

The task registries of `function.py` as a transition system over the await-free segments of the code.  The part that
`task.unique` needs (`our_tasks`, the two name maps, the reaper queue, liveness) is the C13 state `u`; this model adds
`task2cb`, `task2context`, the life cycle of a `run_coro` task and – the point of C14 – the `finally` block *step by
step*, because done-callbacks are awaited inside it:

```
finally:
    try:
        if task in cls.task2cb:
            for callback, info in list(cls.task2cb[task]["cb"].items()):   -- `cbBegin t` … `cbEnd t r`, per iteration
                try:    await ast_ctx.call_func(callback, None, *args, **kwargs)
                except Exception as e: ast_ctx.log_exception(e)             -- r = raises: logged, the loop goes on
                                                                            -- r = cancelled: CancelledError is not an
                                                                            --   Exception: it leaves the loop (`bail`)
    finally:
        (release unique names; task2context.pop; task2cb.pop; our_tasks.discard)   -- `finish`, also after `bail`
```

This is the code after the `fix:` commits e4231d2 / 83f57a2 / f683cd7 (`current`).  The shape before them is kept as
the configuration `preFix` (`Cfg`): `break` after a raising callback, iteration over the live dict (whose iterator
raises `RuntimeError: dictionary changed size during iteration` when a callback resizes it), and no inner
`try … finally`, so that an exception leaving the loop skipped the clean-up (`abort`).

Atomic steps (`Op`): `create` (`Function.create_task`, with the immediate `task_done_callback_ctx` done by
`call_action` / `dispatch` / `task.create`), `start` (first segment of `run_coro`), `storeCtx`
(`store_hass_context`), `addCb` / `removeCb` (`task.add_done_callback` – one entry per callback function, a second
add replaces the arguments and keeps the position – / `task.remove_done_callback`), `cancel` (`task.cancel`),
`unique`, `reap` (C13), `endBody t oc` (the awaited coroutine returns, raises, or a delivered cancel is thrown into it),
`cbBegin` / `cbEnd`, `cleanup`.  Ghost fields (`ran`, `touched`, `leaked`, `cbRaised`, `bailed`, `errs`) record history
only (`atEnd` is the snapshot the repaired loop iterates over).
-/
namespace PsModel.C14
open PsModel.C13 (Task upd)

abbrev Cb := Nat        -- identity of a callback function
abbrev Args := Nat      -- opaque (args, kwargs)

inductive Outcome where
  | ok (v : Nat) | exc | cancelled
deriving DecidableEq, Repr

inductive Phase where
  | none | created | running | finalizing | done
deriving DecidableEq, Repr

inductive CbRes where
  | ok | raises | cancelled
deriving DecidableEq, Repr

/-- what the asyncio task finished with -/
inductive Res where
  | value (v : Nat) | noneVal | cancelled | error
deriving DecidableEq, Repr

structure St (κ : Type) where
  u        : C13.St κ                            -- our_tasks, unique maps, reaper queue, liveness
  cb       : Task → Option (List (Cb × Args))    -- task2cb[t]["cb"] (insertion-ordered dict); none = no entry
  hctx     : Task → Bool                         -- t in task2context
  phase    : Task → Phase
  withCtx  : Task → Bool                         -- run_coro was given an ast_ctx
  outcome  : Task → Option Outcome               -- how the awaited coroutine ended
  idx      : Task → Nat                          -- callbacks consumed by the finally's loop
  iterSize : Task → Nat                          -- dict size when the loop started
  loopDone : Task → Bool                         -- the loop was left by `break`
  inCb     : Task → Bool                         -- a done-callback of the task is executing (possibly suspended)
  result   : Task → Option Res
  ran      : List (Task × Cb × Args)             -- ghost: callback invocations, in order
  atEnd    : Task → List (Cb × Args)             -- ghost: the task's callbacks when its body ended
  touched  : Task → Bool                         -- ghost: add/remove on a task whose finally is running
  leaked   : Task → Bool                         -- ghost: the finally was left without the clean-up
  cbRaised : Task → Bool                         -- ghost: one of its callbacks raised
  stillborn : Task → Bool                        -- ghost: cancelled before its first segment: `run_coro` never ran
  bailed   : Task → Option Res                   -- ghost: an exception (CancelledError inside a callback /
                                                 --   RuntimeError of the dict iterator) left the callback loop
  errs     : Nat                                 -- ghost: number of KeyError/TypeError raised by the API calls

inductive Op (κ : Type) where
  | create (t : Task) (withCtx pre : Bool)
  | start (t : Task)
  | storeCtx (t : Task)
  | addCb (a t : Task) (c : Cb) (args : Args)
  | removeCb (a t : Task) (c : Cb)
  | cancel (a : Task) (target : Option Task)
  | unique (t : Task) (k : κ) (killMe : Bool)
  | reap
  | endBody (t : Task) (oc : Outcome)
  | cbBegin (t : Task)
  | cbEnd (t : Task) (r : CbRes)
  | cleanup (t : Task)

/-- deviation flags (DESIGN §4): every flag is `false` for the code as it was when this model was first written
(`preFix`) and `true` for the repaired code (`current`):

* `cbContinues`   – /repo e4231d2: a done-callback that raises is logged and the loop goes on (was: `break`, #19)
* `snapshotIter`  – /repo 83f57a2: the loop iterates over `list(task2cb[task]["cb"].items())` (was: over the live
                    dict, whose iterator raises `RuntimeError` when a callback resizes it)
* `cleanupAlways` – /repo f683cd7: the callback loop sits in an inner `try`, the registries are released in its
                    `finally` (was: an exception leaving the loop skipped the clean-up)
* `svcCtx`        – /repo 48c341a, a0b69d9: `@service` tasks are created with `ast_ctx=` and therefore get a
                    `task2cb` entry (was: no entry, `task.add_done_callback` inside a service raised KeyError, #24)
* `oursAtCreate`  – /repo e8a0175: `create_task` itself does `our_tasks.add(task)` (and a done-callback discards it),
                    so a task can be handed to the reaper before its first segment (was: only `run_coro` added it, and
                    `task.cancel` of a created but not yet started task raised TypeError)
* `reaperDetached` – /repo 32185a9: the reaper only calls `cmd[1].cancel()` (was: `…; await cmd[1]` – the one shared
                    await: every later cancellation waited for the cancelled task's clean-up)
* `reaperWaitsForStart` – /repo ca978a8: before `cmd[1].cancel()` the reaper does
                    `while cmd[1] in unstarted_tasks and not cmd[1].done(): await asyncio.sleep(0)`, so a task that was
                    only just created reaches its first statement before it is cancelled (was, between e8a0175 and
                    ca978a8: `cancel()` of a task that had not run killed it without `run_coro` ever starting – no
                    clean-up, no done-callbacks, C14-F7) -/
structure Cfg where
  cbContinues : Bool
  snapshotIter : Bool
  cleanupAlways : Bool
  svcCtx : Bool
  oursAtCreate : Bool
  reaperDetached : Bool
  reaperWaitsForStart : Bool

/-- the code as it is now: every flag is READ OFF THE SOURCE on every run (`tools/extractors/C14.py` →
`Gen/RunCoroTbl.lean`, reaper flags from `tools/extractors/C13.py` → `Gen/TaskTbl.lean`); the theorems about `current`
only build while the extracted values are the repaired shapes -/
def current : Cfg :=
  { cbContinues := PsModel.Gen.CB_RAISE_CONTINUES, snapshotIter := PsModel.Gen.CB_LOOP_SNAPSHOT,
    cleanupAlways := PsModel.Gen.CLEANUP_IN_INNER_FINALLY, svcCtx := PsModel.Gen.SERVICE_TASKS_HAVE_CTX,
    oursAtCreate := PsModel.Gen.OURS_AT_CREATE, reaperDetached := PsModel.Gen.REAPER_DETACHED,
    reaperWaitsForStart := PsModel.Gen.REAPER_WAITS_FOR_START }
theorem current_eq : current = ⟨true, true, true, true, true, true, true⟩ := rfl

/-- shape facts of `run_coro` / `create_task` / the callback table / `task.cancel` that are not configuration flags:
the steps of this model are written for exactly these shapes (`C14_shape_tie`) -/
def shapeFacts : List Bool :=
  [PsModel.Gen.CB_LOOP_GUARDED_BY_ENTRY, PsModel.Gen.CB_CALLED_WITH_OWN_ARGS, PsModel.Gen.START_ADDS_OURS,
   PsModel.Gen.START_ENSURES_ENTRY, PsModel.Gen.RESULT_IS_BODY_VALUE, PsModel.Gen.CANCEL_RERAISED,
   PsModel.Gen.EXC_LOGGED_RETURNS_NONE, PsModel.Gen.UNSTARTED_TRACKED == PsModel.Gen.REAPER_WAITS_FOR_START,
   PsModel.Gen.ENSURE_ENTRY_KEEPS_EXISTING, PsModel.Gen.CB_ADD_IS_DICT_STORE, PsModel.Gen.CB_REMOVE_IS_POP,
   PsModel.Gen.CANCEL_DEFAULTS_TO_SELF, PsModel.Gen.CANCEL_CHECKS_OURS, PsModel.Gen.CANCEL_VIA_REAPER,
   PsModel.Gen.CANCEL_SELF_PARKS, PsModel.Gen.RELEASE_IN_FINALLY, PsModel.Gen.RELEASE_ATOMIC,
   PsModel.Gen.REAPER_ONE_FIFO_QUEUE]

/-- the code before the `fix:` commits (kept for the regression theorems) -/
def preFix : Cfg :=
  { cbContinues := false, snapshotIter := false, cleanupAlways := false, svcCtx := false, oursAtCreate := false,
    reaperDetached := false, reaperWaitsForStart := false }

/-- the code between e8a0175 and ca978a8: tasks are ours from `create_task` on, but the reaper does not yet wait for a
new task's first statement (kept for `C14_regress_cancel_before_first_segment`) -/
def preF7 : Cfg := { current with reaperWaitsForStart := false }

variable {κ : Type} [DecidableEq κ]

def init : St κ :=
  { u := C13.init, cb := fun _ => none, hctx := fun _ => false, phase := fun _ => .none, withCtx := fun _ => false,
    outcome := fun _ => none, idx := fun _ => 0, iterSize := fun _ => 0, loopDone := fun _ => false,
    inCb := fun _ => false,
    result := fun _ => none, ran := [], atEnd := fun _ => [], touched := fun _ => false, leaked := fun _ => false,
    cbRaised := fun _ => false, stillborn := fun _ => false, bailed := fun _ => none, errs := 0 }

/-- `task_done_callback_ctx`: create the entry unless there is one -/
def ensureEntry (cb : Task → Option (List (Cb × Args))) (t : Task) : Task → Option (List (Cb × Args)) :=
  match cb t with
  | some _ => cb
  | none => upd cb t (some [])

/-- `Function.create_task(coro, ast_ctx)` (+ `task_done_callback_ctx(task, ctx)` right after it when `pre`) -/
def createStep (cfg : Cfg) (s : St κ) (t : Task) (wc pre : Bool) : St κ :=
  if s.phase t ≠ .none then s else
  { s with phase := upd s.phase t .created, withCtx := upd s.withCtx t wc,
           cb := if pre then ensureEntry s.cb t else s.cb,
           u := if cfg.oursAtCreate then { s.u with ours := upd s.u.ours t true } else s.u }

/-- the task an `@service` call creates (`pyscript_service_handler` / `ServiceDecorator`) -/
def createService (cfg : Cfg) (s : St κ) (t : Task) : St κ := createStep cfg s t cfg.svcCtx false

/-- `Task.cancel()` was called on a task that has not run yet: its first step throws `CancelledError` into the
coroutine before any statement of `run_coro` has executed, so neither its `try` nor its `finally` runs.  The asyncio
done-callback installed by `create_task` discards the task from `our_tasks`; the `task2cb` entry made by
`task_done_callback_ctx` right after `create_task` stays for ever and the callbacks registered in it never run. -/
def killUnstarted (s : St κ) (t : Task) : St κ :=
  { s with phase := upd s.phase t .done, result := upd s.result t (some .cancelled),
           leaked := upd s.leaked t true, stillborn := upd s.stillborn t true,
           bailed := upd s.bailed t (some .cancelled), atEnd := upd s.atEnd t ((s.cb t).getD []),
           idx := upd s.idx t 0, u := { s.u with ours := upd s.u.ours t false } }

/-- first segment of `run_coro`: `our_tasks.add(task)`, `task_done_callback_ctx` when an ast_ctx was given -/
def startStep (s : St κ) (t : Task) : St κ :=
  if s.phase t ≠ .created then s else
  if s.u.cancelReq t then killUnstarted s t else
  { s with phase := upd s.phase t .running, u := C13.spawnStep s.u t false,
           cb := if s.withCtx t then ensureEntry s.cb t else s.cb }

/-- a task can execute a segment of user code: body, or a done-callback inside its finally -/
def active (s : St κ) (t : Task) : Bool :=
  (s.phase t == .running || s.phase t == .finalizing) && C13.canStep s.u t

/-- `Function.store_hass_context` -/
def storeCtxStep (s : St κ) (t : Task) : St κ :=
  if active s t then { s with hctx := upd s.hctx t true } else s

/-- `dict[callback] = [...]`: replace in place or append -/
def setCb : List (Cb × Args) → Cb → Args → List (Cb × Args)
  | [], c, a => [(c, a)]
  | (c', a') :: l, c, a => if c' = c then (c, a) :: l else (c', a') :: setCb l c a

def delCb (l : List (Cb × Args)) (c : Cb) : List (Cb × Args) := l.filter (fun p => p.1 ≠ c)

def noteTouch (s : St κ) (t : Task) : Task → Bool :=
  if s.phase t = .finalizing then upd s.touched t true else s.touched

/-- `task.add_done_callback(t, c, args)` executed by task `a`; `task2cb[t]` missing ⇒ KeyError in `a` -/
def addCbStep (s : St κ) (a t : Task) (c : Cb) (args : Args) : St κ :=
  if !active s a then s else
  match s.cb t with
  | none => { s with errs := s.errs + 1 }
  | some l => { s with cb := upd s.cb t (some (setCb l c args)), touched := noteTouch s t }

/-- `task.remove_done_callback(t, c)` -/
def removeCbStep (s : St κ) (a t : Task) (c : Cb) : St κ :=
  if !active s a then s else
  match s.cb t with
  | none => { s with errs := s.errs + 1 }
  | some l => { s with cb := upd s.cb t (some (delCb l c)), touched := noteTouch s t }

/-- `task.cancel(target)`: TypeError unless the target is in `our_tasks`; cancelling oneself parks the caller -/
def cancelStep (s : St κ) (a : Task) (target : Option Task) : St κ :=
  if !active s a then s else
  let tg := target.getD a
  if !s.u.ours tg then { s with errs := s.errs + 1 } else
  if target.isNone then { s with u := C13.park s.u a } else { s with u := C13.enqueue s.u tg }

def uniqueStep (s : St κ) (t : Task) (k : κ) (km : Bool) : St κ :=
  if active s t then { s with u := C13.uniqueStep s.u t k km } else s

def cbList (s : St κ) (t : Task) : List (Cb × Args) := (s.cb t).getD []

/-- the awaited coroutine ends; the `finally` begins (the dict view iterator is created if there is an entry) -/
def endBodyStep (s : St κ) (t : Task) (oc : Outcome) : St κ :=
  if s.phase t ≠ .running then s else
  { s with phase := upd s.phase t .finalizing, outcome := upd s.outcome t (some oc), idx := upd s.idx t 0,
           iterSize := upd s.iterSize t (cbList s t).length, atEnd := upd s.atEnd t (cbList s t),
           u := { s.u with parked := upd s.u.parked t false } }

/-- an exception (CancelledError / RuntimeError) leaves the `finally`: nothing is cleaned -/
def abort (s : St κ) (t : Task) (r : Res) : St κ :=
  { s with phase := upd s.phase t .done, result := upd s.result t (some r), leaked := upd s.leaked t true,
           u := { s.u with live := upd s.u.live t false } }

def resultOf : Option Outcome → Res
  | some (.ok v) => .value v
  | some .exc => .noneVal          -- run_coro logs the exception and returns None
  | some .cancelled => .cancelled
  | none => .noneVal

/-- the clean-up block: release unique names, pop `task2context`, `task2cb`, `our_tasks`; the task ends with `r` -/
def finish (s : St κ) (t : Task) (r : Res) : St κ :=
  { s with u := C13.exitStep s.u t, hctx := upd s.hctx t false, cb := upd s.cb t none,
           phase := upd s.phase t .done, result := upd s.result t (some r) }

/-- an exception leaves the callback loop: with the inner `try … finally` the clean-up still runs -/
def bail (cfg : Cfg) (s : St κ) (t : Task) (r : Res) : St κ :=
  if cfg.cleanupAlways then finish { s with bailed := upd s.bailed t (some r) } t r
  else abort { s with bailed := upd s.bailed t (some r) } t r

/-- what the loop iterates over: the snapshot taken when the body ended, or the live dict (no entry = nothing) -/
def iterList (cfg : Cfg) (s : St κ) (t : Task) : List (Cb × Args) :=
  if cfg.snapshotIter then s.atEnd t else cbList s t

/-- has the loop got another callback to run? -/
def loopPending (cfg : Cfg) (s : St κ) (t : Task) : Bool :=
  !s.loopDone t && s.idx t < (iterList cfg s t).length

/-- the live-dict iterator finds the dict resized (`RuntimeError: dictionary changed size during iteration`) -/
def resized (cfg : Cfg) (s : St κ) (t : Task) : Bool :=
  !cfg.snapshotIter && (cbList s t).length != s.iterSize t

/-- one `next()` of the iterator and the start of the callback it yields -/
def cbBeginStep (cfg : Cfg) (s : St κ) (t : Task) : St κ :=
  if s.phase t ≠ .finalizing then s else
  if s.inCb t then s else
  if s.loopDone t then s else
  if resized cfg s t then bail cfg s t .error else
  match (iterList cfg s t)[s.idx t]? with
  | none => s
  | some (c, a) =>
    { s with ran := s.ran ++ [(t, c, a)], idx := upd s.idx t (s.idx t + 1), inCb := upd s.inCb t true }

/-- the awaited callback returns, raises an `Exception` (logged; `continue`, formerly `break`), or a `CancelledError`
is thrown into it (not an `Exception`: it leaves the loop) -/
def cbEndStep (cfg : Cfg) (s : St κ) (t : Task) (r : CbRes) : St κ :=
  if s.phase t ≠ .finalizing then s else
  if !s.inCb t then s else
  match r with
  | .ok => { s with inCb := upd s.inCb t false }
  | .raises =>
    if cfg.cbContinues then { s with inCb := upd s.inCb t false, cbRaised := upd s.cbRaised t true }
    else { s with inCb := upd s.inCb t false, loopDone := upd s.loopDone t true, cbRaised := upd s.cbRaised t true }
  | .cancelled => bail cfg { s with inCb := upd s.inCb t false } t .cancelled

/-- the final `next()` of a live-dict iterator finds the dict resized -/
def sizeChanged (cfg : Cfg) (s : St κ) (t : Task) : Bool := !s.loopDone t && resized cfg s t

/-- the rest of the `finally` after the loop -/
def cleanupStep (cfg : Cfg) (s : St κ) (t : Task) : St κ :=
  if s.phase t ≠ .finalizing then s else
  if s.inCb t then s else
  if loopPending cfg s t then s else
  if sizeChanged cfg s t then bail cfg s t .error else
  finish s t (resultOf (s.outcome t))

/-- the head of the reaper queue is a task whose first segment has not run yet -/
def headUnstarted (s : St κ) : Bool :=
  match s.u.reaperQ with
  | h :: _ => s.phase h == .created
  | [] => false

/-- `cancel()` of a task that has not run yet: remembered by the task (`_must_cancel`) -/
def markUnstarted (s : St κ) : St κ :=
  match s.u.reaperQ with
  | h :: q => { s with u := { s.u with reaperQ := q, cancelReq := upd s.u.cancelReq h true, reaping := none } }
  | [] => s

/-- one reaper iteration.  Today's reaper never waits for a task's clean-up or done-callbacks; the one thing it waits
for is the first statement of a task that has not started yet (`while cmd[1] in unstarted_tasks: await sleep(0)` – the
task is already on the event loop's ready queue, so this holds the reaper for one loop iteration): while the head of
the queue is such a task the step does nothing; once that task has run its first segment the step delivers as usual. -/
def reapStep (cfg : Cfg) (s : St κ) : St κ :=
  if headUnstarted s then (if cfg.reaperWaitsForStart then s else markUnstarted s)
  else { s with u := C13.reapStepCfg (!cfg.reaperDetached) s.u }

def step (cfg : Cfg) (s : St κ) : Op κ → St κ
  | .create t wc pre => createStep cfg s t wc pre
  | .start t => startStep s t
  | .storeCtx t => storeCtxStep s t
  | .addCb a t c args => addCbStep s a t c args
  | .removeCb a t c => removeCbStep s a t c
  | .cancel a tg => cancelStep s a tg
  | .unique t k km => uniqueStep s t k km
  | .reap => reapStep cfg s
  | .endBody t oc => endBodyStep s t oc
  | .cbBegin t => cbBeginStep cfg s t
  | .cbEnd t r => cbEndStep cfg s t r
  | .cleanup t => cleanupStep cfg s t

def run (cfg : Cfg) (ops : List (Op κ)) : St κ := ops.foldl (step cfg) init

/-! ### the same machine with `task_unique` and the release block ASSEMBLED FROM THE EXTRACTED SHAPE TABLES

`finishSh` is `finish` with the registries cleared as listed – in that order – by `Shape.releaseOrder` (read off the
inner `finally` of `run_coro`), `uniqueSh` is `task_unique` put together from the guard / order flags.  `stepSh` is
`step` with these two plugged in (all other steps shared); the driver replays observed runs with
`stepSh Shape.extracted current`, and `C14_shape_step` shows that this is `step current`. -/

def finishSh (sh : C13.Shape) (s : St κ) (t : Task) (r : Res) : St κ :=
  { s with u := C13.exitStepSh sh s.u t,
           hctx := if PsModel.Gen.Reg.task2context ∈ sh.releaseOrder then upd s.hctx t false else s.hctx,
           cb := if PsModel.Gen.Reg.task2cb ∈ sh.releaseOrder then upd s.cb t none else s.cb,
           phase := upd s.phase t .done, result := upd s.result t (some r) }

def bailSh (sh : C13.Shape) (cfg : Cfg) (s : St κ) (t : Task) (r : Res) : St κ :=
  if cfg.cleanupAlways then finishSh sh { s with bailed := upd s.bailed t (some r) } t r
  else abort { s with bailed := upd s.bailed t (some r) } t r

def cbBeginStepSh (sh : C13.Shape) (cfg : Cfg) (s : St κ) (t : Task) : St κ :=
  if s.phase t ≠ .finalizing then s else
  if s.inCb t then s else
  if s.loopDone t then s else
  if resized cfg s t then bailSh sh cfg s t .error else
  match (iterList cfg s t)[s.idx t]? with
  | none => s
  | some (c, a) =>
    { s with ran := s.ran ++ [(t, c, a)], idx := upd s.idx t (s.idx t + 1), inCb := upd s.inCb t true }

def cbEndStepSh (sh : C13.Shape) (cfg : Cfg) (s : St κ) (t : Task) (r : CbRes) : St κ :=
  if s.phase t ≠ .finalizing then s else
  if !s.inCb t then s else
  match r with
  | .ok => { s with inCb := upd s.inCb t false }
  | .raises =>
    if cfg.cbContinues then { s with inCb := upd s.inCb t false, cbRaised := upd s.cbRaised t true }
    else { s with inCb := upd s.inCb t false, loopDone := upd s.loopDone t true, cbRaised := upd s.cbRaised t true }
  | .cancelled => bailSh sh cfg { s with inCb := upd s.inCb t false } t .cancelled

def cleanupStepSh (sh : C13.Shape) (cfg : Cfg) (s : St κ) (t : Task) : St κ :=
  if s.phase t ≠ .finalizing then s else
  if s.inCb t then s else
  if loopPending cfg s t then s else
  if sizeChanged cfg s t then bailSh sh cfg s t .error else
  finishSh sh s t (resultOf (s.outcome t))

def uniqueStepSh (sh : C13.Shape) (s : St κ) (t : Task) (k : κ) (km : Bool) : St κ :=
  if active s t then { s with u := C13.uniqueStepSh sh s.u t k km } else s

def stepSh (sh : C13.Shape) (cfg : Cfg) (s : St κ) : Op κ → St κ
  | .unique t k km => uniqueStepSh sh s t k km
  | .cbBegin t => cbBeginStepSh sh cfg s t
  | .cbEnd t r => cbEndStepSh sh cfg s t r
  | .cleanup t => cleanupStepSh sh cfg s t
  | op => step cfg s op

/-- the callbacks that ran for `t`, in order -/
def ranOf (s : St κ) (t : Task) : List (Cb × Args) := (s.ran.filter (fun e => e.1 = t)).map (fun e => e.2)

/-- the task whose life cycle a step belongs to (steps that only concern that one task) -/
def lifecycleOf : Op κ → Option Task
  | .start t => some t
  | .storeCtx t => some t
  | .endBody t _ => some t
  | .cbBegin t => some t
  | .cbEnd t _ => some t
  | .cleanup t => some t
  | _ => none

end PsModel.C14
