import PsModel.Model.C13
/-!
# C14 model – `Function.run_coro` with its `finally`, `create_task`, done-callbacks, `task.cancel`

The task registries of `function.py` as a transition system over the await-free segments of the code.  The part that
`task.unique` needs (`our_tasks`, the two name maps, the reaper queue, liveness) is the C13 state `u`; this model adds
`task2cb`, `task2context`, the life cycle of a `run_coro` task and – the point of C14 – the `finally` block *step by
step*, because done-callbacks are awaited inside it:

```
finally:
    if task in cls.task2cb:
        for callback, info in cls.task2cb[task]["cb"].items():     -- `cbBegin t` … `cbEnd t r`, per iteration
            try:    await ast_ctx.call_func(callback, None, *args, **kwargs)
            except Exception as e: ast_ctx.log_exception(e); break  -- r = raises: the loop stops here
                                                                    -- r = cancelled: CancelledError is not an
                                                                    --   Exception: it leaves the finally at once
    (release unique names; task2context.pop; task2cb.pop; our_tasks.discard)   -- `cleanup t`
```

The dict iterator raises `RuntimeError: dictionary changed size during iteration` when a callback was added to /
removed from the task while the loop runs; that error, like a cancellation delivered inside a callback, leaves the
`finally` without running the clean-up (`abort`).

Atomic steps (`Op`): `create` (`Function.create_task`, with the immediate `task_done_callback_ctx` done by
`call_action` / `dispatch` / `task.create`), `start` (first segment of `run_coro`), `storeCtx`
(`store_hass_context`), `addCb` / `removeCb` (`task.add_done_callback` – one entry per callback function, a second
add replaces the arguments and keeps the position – / `task.remove_done_callback`), `cancel` (`task.cancel`),
`unique`, `reap` (C13), `endBody t oc` (the awaited coroutine returns, raises, or a delivered cancel is thrown into it),
`cbBegin` / `cbEnd`, `cleanup`.  Ghost fields (`ran`, `atEnd`, `touched`, `leaked`, `cbRaised`, `errs`) record history only.
-/
namespace PsModel.C14
open PsModel.C13 (Task upd)

abbrev Cb := Nat        -- identity of a callback function
abbrev Args := Nat      -- opaque (args, kwargs)

inductive Outcome where
  | ok (v : Nat) | exc | cancelled
deriving DecidableEq, Repr

inductive Phase where
  | none | created | running | finalizing | done
deriving DecidableEq, Repr

inductive CbRes where
  | ok | raises | cancelled
deriving DecidableEq, Repr

/-- what the asyncio task finished with -/
inductive Res where
  | value (v : Nat) | noneVal | cancelled | error
deriving DecidableEq, Repr

structure St (κ : Type) where
  u        : C13.St κ                            -- our_tasks, unique maps, reaper queue, liveness
  cb       : Task → Option (List (Cb × Args))    -- task2cb[t]["cb"] (insertion-ordered dict); none = no entry
  hctx     : Task → Bool                         -- t in task2context
  phase    : Task → Phase
  withCtx  : Task → Bool                         -- run_coro was given an ast_ctx
  outcome  : Task → Option Outcome               -- how the awaited coroutine ended
  idx      : Task → Nat                          -- callbacks consumed by the finally's loop
  iterSize : Task → Nat                          -- dict size when the loop started
  loopDone : Task → Bool                         -- the loop was left by `break`
  inCb     : Task → Bool                         -- a done-callback of the task is executing (possibly suspended)
  result   : Task → Option Res
  ran      : List (Task × Cb × Args)             -- ghost: callback invocations, in order
  atEnd    : Task → List (Cb × Args)             -- ghost: the task's callbacks when its body ended
  touched  : Task → Bool                         -- ghost: add/remove on a task whose finally is running
  leaked   : Task → Bool                         -- ghost: the finally was left without the clean-up
  cbRaised : Task → Bool                         -- ghost: one of its callbacks raised
  errs     : Nat                                 -- ghost: number of KeyError/TypeError raised by the API calls

inductive Op (κ : Type) where
  | create (t : Task) (withCtx pre : Bool)
  | start (t : Task)
  | storeCtx (t : Task)
  | addCb (a t : Task) (c : Cb) (args : Args)
  | removeCb (a t : Task) (c : Cb)
  | cancel (a : Task) (target : Option Task)
  | unique (t : Task) (k : κ) (killMe : Bool)
  | reap
  | endBody (t : Task) (oc : Outcome)
  | cbBegin (t : Task)
  | cbEnd (t : Task) (r : CbRes)
  | cleanup (t : Task)

/-- deviation flag (DESIGN §4): `cbContinues = false` is the code as it is today (`break` after a callback that
raised, finding #19); `true` is the repaired loop (`continue`). -/
structure Cfg where
  cbContinues : Bool

/-- the code as it is -/
def current : Cfg := { cbContinues := false }

variable {κ : Type} [DecidableEq κ]

def init : St κ :=
  { u := C13.init, cb := fun _ => none, hctx := fun _ => false, phase := fun _ => .none, withCtx := fun _ => false,
    outcome := fun _ => none, idx := fun _ => 0, iterSize := fun _ => 0, loopDone := fun _ => false,
    inCb := fun _ => false,
    result := fun _ => none, ran := [], atEnd := fun _ => [], touched := fun _ => false, leaked := fun _ => false,
    cbRaised := fun _ => false, errs := 0 }

/-- `task_done_callback_ctx`: create the entry unless there is one -/
def ensureEntry (cb : Task → Option (List (Cb × Args))) (t : Task) : Task → Option (List (Cb × Args)) :=
  match cb t with
  | some _ => cb
  | none => upd cb t (some [])

/-- `Function.create_task(coro, ast_ctx)` (+ `task_done_callback_ctx(task, ctx)` right after it when `pre`) -/
def createStep (s : St κ) (t : Task) (wc pre : Bool) : St κ :=
  if s.phase t ≠ .none then s else
  { s with phase := upd s.phase t .created, withCtx := upd s.withCtx t wc,
           cb := if pre then ensureEntry s.cb t else s.cb }

/-- first segment of `run_coro`: `our_tasks.add(task)`, `task_done_callback_ctx` when an ast_ctx was given -/
def startStep (s : St κ) (t : Task) : St κ :=
  if s.phase t ≠ .created then s else
  { s with phase := upd s.phase t .running, u := C13.spawnStep s.u t false,
           cb := if s.withCtx t then ensureEntry s.cb t else s.cb }

/-- a task can execute a segment of user code: body, or a done-callback inside its finally -/
def active (s : St κ) (t : Task) : Bool :=
  (s.phase t == .running || s.phase t == .finalizing) && C13.canStep s.u t

/-- `Function.store_hass_context` -/
def storeCtxStep (s : St κ) (t : Task) : St κ :=
  if active s t then { s with hctx := upd s.hctx t true } else s

/-- `dict[callback] = [...]`: replace in place or append -/
def setCb : List (Cb × Args) → Cb → Args → List (Cb × Args)
  | [], c, a => [(c, a)]
  | (c', a') :: l, c, a => if c' = c then (c, a) :: l else (c', a') :: setCb l c a

def delCb (l : List (Cb × Args)) (c : Cb) : List (Cb × Args) := l.filter (fun p => p.1 ≠ c)

def noteTouch (s : St κ) (t : Task) : Task → Bool :=
  if s.phase t = .finalizing then upd s.touched t true else s.touched

/-- `task.add_done_callback(t, c, args)` executed by task `a`; `task2cb[t]` missing ⇒ KeyError in `a` -/
def addCbStep (s : St κ) (a t : Task) (c : Cb) (args : Args) : St κ :=
  if !active s a then s else
  match s.cb t with
  | none => { s with errs := s.errs + 1 }
  | some l => { s with cb := upd s.cb t (some (setCb l c args)), touched := noteTouch s t }

/-- `task.remove_done_callback(t, c)` -/
def removeCbStep (s : St κ) (a t : Task) (c : Cb) : St κ :=
  if !active s a then s else
  match s.cb t with
  | none => { s with errs := s.errs + 1 }
  | some l => { s with cb := upd s.cb t (some (delCb l c)), touched := noteTouch s t }

/-- `task.cancel(target)`: TypeError unless the target is in `our_tasks`; cancelling oneself parks the caller -/
def cancelStep (s : St κ) (a : Task) (target : Option Task) : St κ :=
  if !active s a then s else
  let tg := target.getD a
  if !s.u.ours tg then { s with errs := s.errs + 1 } else
  if target.isNone then { s with u := C13.park s.u a } else { s with u := C13.enqueue s.u tg }

def uniqueStep (s : St κ) (t : Task) (k : κ) (km : Bool) : St κ :=
  if active s t then { s with u := C13.uniqueStep s.u t k km } else s

def cbList (s : St κ) (t : Task) : List (Cb × Args) := (s.cb t).getD []

/-- the awaited coroutine ends; the `finally` begins (the dict view iterator is created if there is an entry) -/
def endBodyStep (s : St κ) (t : Task) (oc : Outcome) : St κ :=
  if s.phase t ≠ .running then s else
  { s with phase := upd s.phase t .finalizing, outcome := upd s.outcome t (some oc), idx := upd s.idx t 0,
           iterSize := upd s.iterSize t (cbList s t).length, atEnd := upd s.atEnd t (cbList s t),
           u := { s.u with parked := upd s.u.parked t false } }

/-- an exception (CancelledError / RuntimeError) leaves the `finally`: nothing is cleaned -/
def abort (s : St κ) (t : Task) (r : Res) : St κ :=
  { s with phase := upd s.phase t .done, result := upd s.result t (some r), leaked := upd s.leaked t true,
           u := { s.u with live := upd s.u.live t false } }

def resultOf : Option Outcome → Res
  | some (.ok v) => .value v
  | some .exc => .noneVal          -- run_coro logs the exception and returns None
  | some .cancelled => .cancelled
  | none => .noneVal

/-- has the loop got another callback to run? -/
def loopPending (s : St κ) (t : Task) : Bool :=
  match s.cb t with
  | none => false
  | some l => !s.loopDone t && s.idx t < l.length

/-- one `next()` of the dict iterator (size check) and the start of the callback it yields -/
def cbBeginStep (s : St κ) (t : Task) : St κ :=
  if s.phase t ≠ .finalizing then s else
  if s.inCb t then s else
  match s.cb t with
  | none => s
  | some l =>
    if s.loopDone t then s else
    if l.length ≠ s.iterSize t then abort s t .error else
    match l[s.idx t]? with
    | none => s
    | some (c, a) =>
      { s with ran := s.ran ++ [(t, c, a)], idx := upd s.idx t (s.idx t + 1), inCb := upd s.inCb t true }

/-- the awaited callback returns, raises an `Exception` (`log_exception; break`), or a `CancelledError` is thrown
into it (not an `Exception`: it leaves the `finally`) -/
def cbEndStep (cfg : Cfg) (s : St κ) (t : Task) (r : CbRes) : St κ :=
  if s.phase t ≠ .finalizing then s else
  if !s.inCb t then s else
  match r with
  | .ok => { s with inCb := upd s.inCb t false }
  | .raises =>
    if cfg.cbContinues then { s with inCb := upd s.inCb t false, cbRaised := upd s.cbRaised t true }
    else { s with inCb := upd s.inCb t false, loopDone := upd s.loopDone t true, cbRaised := upd s.cbRaised t true }
  | .cancelled => abort { s with inCb := upd s.inCb t false } t .cancelled

/-- the final `next()` of the dict iterator finds the dict resized -/
def sizeChanged (s : St κ) (t : Task) : Bool :=
  match s.cb t with
  | some l => !s.loopDone t && l.length != s.iterSize t
  | none => false

/-- the rest of the `finally` (after the final `next()` of the iterator, which also checks the size) -/
def cleanupStep (s : St κ) (t : Task) : St κ :=
  if s.phase t ≠ .finalizing then s else
  if s.inCb t then s else
  if loopPending s t then s else
  if sizeChanged s t then abort s t .error else
  { s with u := C13.exitStep s.u t, hctx := upd s.hctx t false, cb := upd s.cb t none,
           phase := upd s.phase t .done, result := upd s.result t (some (resultOf (s.outcome t))) }

def step (cfg : Cfg) (s : St κ) : Op κ → St κ
  | .create t wc pre => createStep s t wc pre
  | .start t => startStep s t
  | .storeCtx t => storeCtxStep s t
  | .addCb a t c args => addCbStep s a t c args
  | .removeCb a t c => removeCbStep s a t c
  | .cancel a tg => cancelStep s a tg
  | .unique t k km => uniqueStep s t k km
  | .reap => { s with u := C13.reapStep s.u }
  | .endBody t oc => endBodyStep s t oc
  | .cbBegin t => cbBeginStep s t
  | .cbEnd t r => cbEndStep cfg s t r
  | .cleanup t => cleanupStep s t

def run (cfg : Cfg) (ops : List (Op κ)) : St κ := ops.foldl (step cfg) init

/-- the callbacks that ran for `t`, in order -/
def ranOf (s : St κ) (t : Task) : List (Cb × Args) := (s.ran.filter (fun e => e.1 = t)).map (fun e => e.2)

/-- the task whose life cycle a step belongs to (steps that only concern that one task) -/
def lifecycleOf : Op κ → Option Task
  | .start t => some t
  | .storeCtx t => some t
  | .endBody t _ => some t
  | .cbBegin t => some t
  | .cbEnd t _ => some t
  | .cleanup t => some t
  | _ => none

end PsModel.C14
