/-!
# C03 model (d) – the RUN-TIME life cycle of closure cells

A small statement language (assignment, augmented assignment, read, `del`, `global` / `nonlocal` declarations, nested `def`,
calls and returns of (inner) functions, `except … as x` binding and unbinding, `try … except NameError`, `if`,
comprehension variables) is executed by a model of what `EvalFunc.resolve_nonlocals`, `EvalFunc.call`, `AstEval.ast_name`,
`recurse_assign`, `ast_delete`, `ast_try`, `loopvar_scope_save/restore` and `EvalLocalVar` do:

* every call builds a fresh symbol table `sym_table : name ↦ EvalLocalVar | plain value` (`PS.enter`): for each entry of the
  function's `local_sym_table` – a parameter becomes a fresh cell holding the argument, a closure name the cell captured at
  DEFINITION time, any other name a fresh unbound cell; parameters that are not in `local_sym_table` stay plain values;
* executing a `def` runs `resolve_nonlocals` (`PS.mkClos`): names declared global are skipped, the function's own locals get
  a placeholder (only when it contains a nested def / class: `check_for_closure`), every other mentioned name – including the
  names handed up by functions nested in it (`get_names_set`) – is looked up in the table of the activation that executes the
  `def`, and is captured when an `EvalLocalVar` is found there;
* `ast_name` / `recurse_assign` / `ast_delete` work on that table (cell → through the cell, plain → in the table, absent →
  globals with the `UnboundLocalError` test), a declared-global name goes to the global table;
* the end of an `except … as x` clause unbinds `x` (cell: `set_undefined`), a comprehension saves / replaces / restores the
  table entry of its loop variable.

An `EvalLocalVar` created by the call with activation number `a` for the name `x` is identified with the pair `(a, x)`;
the cell store maps such pairs to `Option Val`.  The evaluator `Cells.exec` is generic in the *discipline* (the eight
operations above); `PS.disc cfg` is pyscript's, `Py.disc` (Spec/C03Cells.lean) is Python's.
-/
namespace PsModel.C03.Cells

inductive Val where
  | int (n : Int)
  | none
  | fn (k : Nat)             -- a function object: index into the table of closures created so far
  | exc (n : Int)            -- `ValueError(n)`
  | args (n : Int)           -- `e.args` of that exception, the tuple `(n,)`
  | ints (l : List Int)      -- a list of integers (result of a comprehension)
deriving Repr, DecidableEq, Inhabited

/-- exception families (the property compares families: `UnboundLocalError` is a `NameError`) -/
inductive Err where
  | name | type | fuel | unsupported
deriving Repr, DecidableEq

/-- expressions without calls: literal, name, `name + k` -/
inductive SExpr where
  | nil                                  -- `None`
  | lit (n : Int)
  | var (x : String)
  | addv (x : String) (k : Int)
deriving Repr, DecidableEq

inductive Expr where
  | simple (s : SExpr)
  | add (e : Expr) (k : Int)
  | trace (tag : String) (e : Expr)                          -- `T(tag, e)`: the value is logged and returned
  | call (f : Expr) (args : List SExpr)
  | comp (x : String) (its : List SExpr) (elt : SExpr)       -- `[elt for x in (its…)]`
  | argsOf (e : Expr)                                        -- `e.args`
deriving Repr

inductive Stmt where
  | assign (x : String) (e : Expr)
  | aug (x : String) (e : Expr)                              -- `x += e`
  | expr (e : Expr)
  | del (x : String)
  | ret (e : Expr)
  | declG (x : String)
  | declN (x : String)
  | defn (name : String) (params : List String) (body : List Stmt)
  | handler (x : String) (e : Expr) (body : List Stmt)      -- `try: raise ValueError(e)` / `except ValueError as x: body`
  | tryNE (body : List Stmt) (hbody : List Stmt)            -- `try: body` / `except NameError: hbody`
  | ifT (e : Expr) (body : List Stmt)
deriving Repr

structure FnDef where
  name : String
  params : List String
  body : List Stmt
deriving Repr

abbrev Glob := String → Option Val
abbrev Store := Nat → String → Option Val

def upd {β} (f : String → β) (x : String) (v : β) : String → β := fun y => if y = x then v else f y
def Store.set (s : Store) (a : Nat) (x : String) (v : Option Val) : Store :=
  fun b y => if b = a ∧ y = x then v else s b y

/-! ## the declarations of a function body (`global` / `nonlocal` statements, not crossing a nested def) -/
mutual
def declsS (g : Bool) : Stmt → List String
  | .declG x => if g then [x] else []
  | .declN x => if g then [] else [x]
  | .handler _ _ body => declsL g body
  | .tryNE b h => declsL g b ++ declsL g h
  | .ifT _ body => declsL g body
  | _ => []
def declsL (g : Bool) : List Stmt → List String
  | [] => []
  | s :: ss => declsS g s ++ declsL g ss
end

def FnDef.globals (fd : FnDef) : List String := declsL true fd.body
def FnDef.nonlocals (fd : FnDef) : List String := declsL false fd.body

/-! ## state and the generic evaluator -/

structure St (Cl : Type) where
  glob : Glob
  store : Store
  clos : List Cl
  nact : Nat
  trace : List (String × Val)

/-- the name operations of an interpreter -/
structure Disc (Fr Cl : Type) where
  read : Fr → Glob → Store → String → Except Err Val
  write : Fr → Glob → Store → String → Val → Fr × Glob × Store
  del : Fr → Glob → Store → String → Except Err (Fr × Glob × Store)
  unbind : Fr → Glob → Store → String → Fr × Glob × Store
  comp : Fr → Glob → Store → String → List SExpr → SExpr → Fr × Glob × Except Err (List Val)
  mkClos : Option Fr → FnDef → Cl
  enter : Cl → Nat → List Val → Store → Option (Fr × Store)
  body : Cl → List Stmt

structure Res (Fr Cl α : Type) where
  fr : Fr
  st : St Cl
  out : Except Err α

def addInt (v : Val) (k : Int) : Except Err Val :=
  match v with
  | .int m => .ok (.int (m + k))
  | _ => .error .type

/-- expressions without calls, given the `read` of the current scope -/
def evalSWith (rd : String → Except Err Val) : SExpr → Except Err Val
  | .nil => .ok .none
  | .lit n => .ok (.int n)
  | .var x => rd x
  | .addv x k => match rd x with
    | .ok v => addInt v k
    | .error e => .error e

def evalSs (rd : String → Except Err Val) : List SExpr → Except Err (List Val)
  | [] => .ok []
  | s :: ss => match evalSWith rd s with
    | .error e => .error e
    | .ok v => match evalSs rd ss with
      | .error e => .error e
      | .ok vs => .ok (v :: vs)

def toInts : List Val → Option (List Int)
  | [] => some []
  | .int n :: vs => (toInts vs).map (n :: ·)
  | _ :: _ => none

def truthy : Val → Bool
  | .int n => n ≠ 0
  | .none => false
  | .ints l => !l.isEmpty
  | _ => true

variable {Fr Cl : Type}

def St.log (st : St Cl) (tag : String) (v : Val) : St Cl := { st with trace := st.trace ++ [(tag, v)] }
def St.setGS (st : St Cl) (g : Glob) (s : Store) : St Cl := { st with glob := g, store := s }

def writeRes (D : Disc Fr Cl) (fr : Fr) (st : St Cl) (x : String) (v : Val) : Res Fr Cl (Option Val) :=
  match D.write fr st.glob st.store x v with
  | (fr', g, s) => ⟨fr', st.setGS g s, .ok none⟩

mutual
def eval (D : Disc Fr Cl) : Nat → Expr → Fr → St Cl → Res Fr Cl Val
  | 0, _, fr, st => ⟨fr, st, .error .fuel⟩
  | _+1, .simple s, fr, st => ⟨fr, st, evalSWith (D.read fr st.glob st.store) s⟩
  | n+1, .add e k, fr, st =>
    match eval D n e fr st with
    | ⟨fr1, st1, .ok v⟩ => ⟨fr1, st1, addInt v k⟩
    | r => r
  | n+1, .trace tag e, fr, st =>
    match eval D n e fr st with
    | ⟨fr1, st1, .ok v⟩ => ⟨fr1, st1.log tag v, .ok v⟩
    | r => r
  | n+1, .argsOf e, fr, st =>
    match eval D n e fr st with
    | ⟨fr1, st1, .ok (.exc m)⟩ => ⟨fr1, st1, .ok (.args m)⟩
    | ⟨fr1, st1, .ok _⟩ => ⟨fr1, st1, .error .unsupported⟩
    | r => r
  | n+1, .call f as, fr, st =>
    match eval D n f fr st with
    | ⟨fr1, st1, .ok fv⟩ =>
      match evalSs (D.read fr1 st1.glob st1.store) as with
      | .error e => ⟨fr1, st1, .error e⟩
      | .ok vs => match call D n fv vs st1 with
        | (st2, out) => ⟨fr1, st2, out⟩
    | r => r
  | _+1, .comp x its elt, fr, st =>
    match D.comp fr st.glob st.store x its elt with
    | (fr1, g1, .error e) => ⟨fr1, { st with glob := g1 }, .error e⟩
    | (fr1, g1, .ok vs) =>
      match toInts vs with
      | some l => ⟨fr1, { st with glob := g1 }, .ok (.ints l)⟩
      | none => ⟨fr1, { st with glob := g1 }, .error .unsupported⟩

/-- `EvalFunc.call` / a Python call: a fresh activation, the body, the frame is dropped -/
def call (D : Disc Fr Cl) : Nat → Val → List Val → St Cl → St Cl × Except Err Val
  | 0, _, _, st => (st, .error .fuel)
  | n+1, .fn k, vs, st =>
    match st.clos[k]? with
    | none => (st, .error .unsupported)
    | some cl =>
      match D.enter cl st.nact vs st.store with
      | none => (st, .error .type)
      | some (fr, s1) =>
        match execL D n (D.body cl) fr { st with store := s1, nact := st.nact + 1 } with
        | ⟨_, st2, .ok (some v)⟩ => (st2, .ok v)
        | ⟨_, st2, .ok none⟩ => (st2, .ok .none)
        | ⟨_, st2, .error e⟩ => (st2, .error e)
  | _+1, _, _, st => (st, .error .type)

def exec (D : Disc Fr Cl) : Nat → Stmt → Fr → St Cl → Res Fr Cl (Option Val)
  | 0, _, fr, st => ⟨fr, st, .error .fuel⟩
  | n+1, .assign x e, fr, st =>
    match eval D n e fr st with
    | ⟨fr1, st1, .ok v⟩ => writeRes D fr1 st1 x v
    | ⟨fr1, st1, .error e⟩ => ⟨fr1, st1, .error e⟩
  | n+1, .aug x e, fr, st =>
    match D.read fr st.glob st.store x with
    | .error e => ⟨fr, st, .error e⟩
    | .ok old =>
      match eval D n e fr st with
      | ⟨fr1, st1, .ok (.int k)⟩ =>
        (match addInt old k with
         | .ok v => writeRes D fr1 st1 x v
         | .error e => ⟨fr1, st1, .error e⟩)
      | ⟨fr1, st1, .ok _⟩ => ⟨fr1, st1, .error .unsupported⟩
      | ⟨fr1, st1, .error e⟩ => ⟨fr1, st1, .error e⟩
  | n+1, .expr e, fr, st =>
    match eval D n e fr st with
    | ⟨fr1, st1, .ok _⟩ => ⟨fr1, st1, .ok none⟩
    | ⟨fr1, st1, .error e⟩ => ⟨fr1, st1, .error e⟩
  | _+1, .del x, fr, st =>
    match D.del fr st.glob st.store x with
    | .error e => ⟨fr, st, .error e⟩
    | .ok (fr1, g, s) => ⟨fr1, st.setGS g s, .ok none⟩
  | n+1, .ret e, fr, st =>
    match eval D n e fr st with
    | ⟨fr1, st1, .ok v⟩ => ⟨fr1, st1, .ok (some v)⟩
    | ⟨fr1, st1, .error e⟩ => ⟨fr1, st1, .error e⟩
  | _+1, .declG _, fr, st => ⟨fr, st, .ok none⟩
  | _+1, .declN _, fr, st => ⟨fr, st, .ok none⟩
  | _+1, .defn g ps body, fr, st =>
    writeRes D fr { st with clos := st.clos ++ [D.mkClos (some fr) ⟨g, ps, body⟩] } g (.fn st.clos.length)
  | n+1, .handler x e body, fr, st =>
    match eval D n e fr st with
    | ⟨fr1, st1, .ok (.int m)⟩ =>
      (match D.write fr1 st1.glob st1.store x (.exc m) with
       | (fr2, g2, s2) =>
         match execL D n body fr2 (st1.setGS g2 s2) with
         | ⟨fr3, st3, out⟩ =>
           match D.unbind fr3 st3.glob st3.store x with
           | (fr4, g4, s4) => ⟨fr4, st3.setGS g4 s4, out⟩)
    | ⟨fr1, st1, .ok _⟩ => ⟨fr1, st1, .error .unsupported⟩
    | ⟨fr1, st1, .error e⟩ => ⟨fr1, st1, .error e⟩
  | n+1, .tryNE body hbody, fr, st =>
    match execL D n body fr st with
    | ⟨fr1, st1, .error .name⟩ => execL D n hbody fr1 st1
    | r => r
  | n+1, .ifT e body, fr, st =>
    match eval D n e fr st with
    | ⟨fr1, st1, .ok v⟩ => if truthy v then execL D n body fr1 st1 else ⟨fr1, st1, .ok none⟩
    | ⟨fr1, st1, .error e⟩ => ⟨fr1, st1, .error e⟩

def execL (D : Disc Fr Cl) : Nat → List Stmt → Fr → St Cl → Res Fr Cl (Option Val)
  | 0, _, fr, st => ⟨fr, st, .error .fuel⟩
  | _+1, [], fr, st => ⟨fr, st, .ok none⟩
  | n+1, s :: ss, fr, st =>
    match exec D n s fr st with
    | ⟨fr1, st1, .ok none⟩ => execL D n ss fr1 st1
    | r => r
end

/-- a program: module-level integer globals, one top-level function, `R = f(args)`, `R2 = f(args)`; observed: the tracer
log, the exception family or the final values of `R`, `R2` and the watched globals -/
structure Prog where
  ginit : List (String × Int)
  main : FnDef
  args : List Int
  watch : List String
deriving Repr

inductive Outcome where
  | exc (e : Err)
  | vals (l : List (String × Option Val))
deriving Repr, DecidableEq

structure Obs where
  trace : List (String × Val)
  result : Outcome
deriving Repr, DecidableEq

def initGlob : List (String × Int) → Glob
  | [] => fun _ => none
  | (x, n) :: r => upd (initGlob r) x (some (.int n))

def run (D : Disc Fr Cl) (fuel : Nat) (p : Prog) : Obs :=
  let st0 : St Cl := { glob := upd (initGlob p.ginit.reverse) p.main.name (some (.fn 0)), store := fun _ _ => none,
                       clos := [D.mkClos none p.main], nact := 0, trace := [] }
  let vs := p.args.map Val.int
  match call D fuel (.fn 0) vs st0 with
  | (st1, .error e) => ⟨st1.trace, .exc e⟩
  | (st1, .ok r1) =>
    match call D fuel (.fn 0) vs { st1 with glob := upd st1.glob "R" (some r1) } with
    | (st2, .error e) => ⟨st2.trace, .exc e⟩
    | (st2, .ok r2) =>
      let g := upd st2.glob "R2" (some r2)
      ⟨st2.trace, .vals ((["R", "R2"] ++ p.watch).map fun x => (x, g x))⟩

/-- positional binding: the value passed for parameter `x` -/
def zipArgs : List String → List Val → String → Option Val
  | p :: ps, v :: vs, x => if x = p then some v else zipArgs ps vs x
  | _, _, _ => none

/-! ## pyscript's discipline -/

inductive Entry where
  | cell (a : Nat) (x : String)      -- an `EvalLocalVar`: the one created by activation `a` for the name `x`
  | raw (v : Val)                    -- a plain value in the table
deriving Repr, DecidableEq

/-- deviation flags (`true` = the repaired shape) -/
structure Cfg where
  delGlobalRaises : Bool       -- `del` of a missing declared-global name raises NameError (C03-F12)
  compHidesGlobal : Bool       -- a comprehension variable named like a declared global stays inside the comprehension (C03-F13)
  compIterFirst : Bool         -- the iterable is evaluated before the loop variable's table entry is put aside (C03-F17)
deriving Repr, DecidableEq

def Cfg.preFix : Cfg := ⟨false, false, false⟩
def Cfg.repaired : Cfg := ⟨true, true, true⟩

namespace PS

/-! ### `get_names_set` / `check_for_closure` on this syntax -/
def namesSE : SExpr → List String
  | .nil => []
  | .lit _ => []
  | .var x => [x]
  | .addv x _ => [x]

def namesSEs : List SExpr → List String
  | [] => []
  | s :: ss => namesSE s ++ namesSEs ss

def namesE : Expr → List String
  | .simple s => namesSE s
  | .add e _ => namesE e
  | .trace _ e => namesE e
  | .call f as => namesE f ++ namesSEs as
  | .comp x its elt => x :: (namesSEs its ++ namesSE elt)       -- the loop variable is a Name node, NOT an assignment
  | .argsOf e => namesE e

mutual
/-- `local_names`: targets of assignment-like statements, not descending into a nested def (parameters are added by the caller) -/
def localsS : Stmt → List String
  | .assign x _ => [x]
  | .aug x _ => [x]
  | .del x => [x]
  | .defn g _ _ => [g]
  | .handler x _ body => x :: localsL body
  | .tryNE b h => localsL b ++ localsL h
  | .ifT _ body => localsL body
  | _ => []
def localsL : List Stmt → List String
  | [] => []
  | s :: ss => localsS s ++ localsL ss
end

mutual
/-- `names`: every name mentioned; a nested def contributes its own name and the names it hands up: mentioned in its
body, not bound there (its PARAMETERS are not looked at) or declared nonlocal, and not declared global there -/
def namesS : Stmt → List String
  | .assign x e => x :: namesE e
  | .aug x e => x :: namesE e
  | .expr e => namesE e
  | .del x => [x]
  | .ret e => namesE e
  | .declG x => [x]
  | .declN x => [x]
  | .defn g _ body =>
    g :: (namesL body).filter fun n =>
      (!(localsL body).contains n || (declsL false body).contains n) && !(declsL true body).contains n
  | .handler x e body => x :: (namesE e ++ namesL body)
  | .tryNE b h => namesL b ++ namesL h
  | .ifT e body => namesE e ++ namesL body
def namesL : List Stmt → List String
  | [] => []
  | s :: ss => namesS s ++ namesL ss
end

mutual
/-- `check_for_closure`: a def anywhere below (every child node is visited) -/
def hasInnerS : Stmt → Bool
  | .defn _ _ _ => true
  | .handler _ _ body => hasInnerL body
  | .tryNE b h => hasInnerL b || hasInnerL h
  | .ifT _ body => hasInnerL body
  | _ => false
def hasInnerL : List Stmt → Bool
  | [] => false
  | s :: ss => hasInnerS s || hasInnerL ss
end

def names (fd : FnDef) : List String := fd.params ++ namesL fd.body
def localNames (fd : FnDef) : List String := fd.params ++ localsL fd.body

/-- `EvalFunc` after `resolve_nonlocals`: `lst` is `local_sym_table` (`some none` = placeholder for an own local,
`some (some c)` = a captured cell, i.e. a member of `closure_names`) -/
structure Clos where
  fd : FnDef
  lst : String → Option (Option (Nat × String))

/-- the running call: `sym_table`, `curr_func.global_names`, `curr_func.local_names` -/
structure Frame where
  tab : String → Option Entry
  globalNames : List String
  localNames : List String

def read (f : Frame) (g : Glob) (s : Store) (x : String) : Except Err Val :=
  if f.globalNames.contains x then
    match g x with
    | some v => .ok v
    | none => .error .name                                  -- "global name … is not defined"
  else match f.tab x with
    | some (.cell a y) => (match s a y with
      | some v => .ok v
      | none => .error .name)                               -- `EvalLocalVar.get` of an undefined cell
    | some (.raw v) => .ok v
    | none => match g x with
      | some v => if f.localNames.contains x then .error .name else .ok v      -- UnboundLocalError
      | none => .error .name                                -- EvalName → NameError

def write (f : Frame) (g : Glob) (s : Store) (x : String) (v : Val) : Frame × Glob × Store :=
  if f.globalNames.contains x then (f, upd g x (some v), s)
  else match f.tab x with
    | some (.cell a y) => (f, g, s.set a y (some v))
    | _ => ({ f with tab := upd f.tab x (some (.raw v)) }, g, s)

def del (cfg : Cfg) (f : Frame) (g : Glob) (s : Store) (x : String) : Except Err (Frame × Glob × Store) :=
  if f.globalNames.contains x then
    match g x with
    | some _ => .ok (f, upd g x none, s)
    | none => if cfg.delGlobalRaises then .error .name else .ok (f, g, s)
  else match f.tab x with
    | some (.cell a y) => (match s a y with
      | some _ => .ok (f, g, s.set a y none)
      | none => .error .name)
    | some (.raw _) => .ok ({ f with tab := upd f.tab x none }, g, s)
    | none => .error .name

/-- the `finally` of an `except … as x` clause -/
def unbind (f : Frame) (g : Glob) (s : Store) (x : String) : Frame × Glob × Store :=
  if f.globalNames.contains x then (f, upd g x none, s)
  else match f.tab x with
    | some (.cell a y) => (f, g, s.set a y none)
    | _ => ({ f with tab := upd f.tab x none }, g, s)

/-- `listcomp_loop` for one generator: assign the loop variable (`recurse_assign`), evaluate the element -/
def compLoop (f : Frame) (g : Glob) (s : Store) (x : String) (elt : SExpr) :
    List Val → Frame × Glob × Except Err (List Val)
  | [] => (f, g, .ok [])
  | v :: vs =>
    match write f g s x v with
    | (f1, g1, s1) =>
      match evalSWith (read f1 g1 s1) elt with
      | .error e => (f1, g1, .error e)
      | .ok r => match compLoop f1 g1 s1 x elt vs with
        | (f2, g2, .ok rs) => (f2, g2, .ok (r :: rs))
        | (f2, g2, .error e) => (f2, g2, .error e)

/-- `loopvar_scope_save`, the loop, `loopvar_scope_restore` (in a `finally`).  The loop variable never writes through a
cell: a bound cell is replaced by its value, an unbound one is removed from the table for the duration. -/
def comp (cfg : Cfg) (f : Frame) (g : Glob) (s : Store) (x : String) (its : List SExpr) (elt : SExpr) :
    Frame × Glob × Except Err (List Val) :=
  let saved := f.tab x
  let tab1 : String → Option Entry := match saved with
    | some (.cell a y) => (match s a y with
      | some v => upd f.tab x (some (.raw v))
      | none => upd f.tab x none)
    | _ => f.tab
  let gn := if cfg.compHidesGlobal then f.globalNames.filter (· ≠ x) else f.globalNames
  let f1 : Frame := { f with tab := tab1, globalNames := gn }
  match evalSs (read (if cfg.compIterFirst then f else f1) g s) its with
  | .error e => (f, g, .error e)                               -- restore puts the saved entry back
  | .ok vs =>
    match compLoop f1 g s x elt vs with
    | (f2, g2, out) => ({ f with tab := upd f2.tab x saved }, g2, out)

/-- `resolve_nonlocals`, executed by the `def` statement; `encl` = `ast_ctx.curr_func_sym_table` -/
def mkClos (encl : Option Frame) (fd : FnDef) : Clos :=
  { fd := fd,
    lst := fun x =>
      if !(names fd).contains x then none
      else if fd.globals.contains x then none
      else if (localNames fd).contains x && !fd.nonlocals.contains x then
        (if hasInnerL fd.body then some none else none)
      else match encl with
        | none => none
        | some f => match f.tab x with
          | some (.cell a y) => some (some (a, y))
          | _ => none }

/-- the head of `EvalFunc.call`: bind the arguments (positional only here – binding is part (a)), then
`for name, value in self.local_sym_table.items()` -/
def enter (cl : Clos) (a : Nat) (vs : List Val) (s : Store) : Option (Frame × Store) :=
  if vs.length ≠ cl.fd.params.length then none
  else
    let arg := zipArgs cl.fd.params vs
    some ({ tab := fun x => match cl.lst x with
              | some c => (match arg x, c with
                | some _, _ => some (.cell a x)                -- a parameter: fresh cell holding the argument
                | none, some (b, y) => some (.cell b y)        -- a closure name: the shared cell
                | none, none => some (.cell a x))              -- fresh unbound cell
              | none => (arg x).map .raw,
            globalNames := cl.fd.globals, localNames := localNames cl.fd },
          fun b y => if b = a then (match cl.lst y with
              | some _ => arg y
              | none => none) else s b y)

def disc (cfg : Cfg) : Disc Frame Clos :=
  { read := read, write := write, del := del cfg, unbind := unbind, comp := comp cfg, mkClos := mkClos, enter := enter,
    body := fun cl => cl.fd.body }

end PS

namespace Current
/-- the code as it is in /repo today -/
def cellCfg : Cfg := ⟨false, false, false⟩
end Current

end PsModel.C03.Cells
