/-!
# C01 model (c) – the scope of comprehension loop variables (`loopvar_scope_save` / `loopvar_scope_restore`)

pyscript evaluates a comprehension inside the symbol table of the enclosing code.  To give the loop variables "their own
implicit nested scope" it saves the entries of those names, runs the loops (assigning the loop variables like any other
name), and restores the saved entries afterwards (`finally`).  An entry is either a plain value or an `EvalLocalVar` cell
shared with closures; assigning to a name whose entry is a cell writes THROUGH to the cell (`recurse_assign`).  Since fix
cc1c3b5 `loopvar_scope_save` therefore replaces a cell entry by a plain copy of its value (or removes it when the cell is
unbound) for the duration of the comprehension (`hide = true`).
-/
namespace PsModel.C01Comp

inductive Slot where
  | plain (v : Nat)
  | cell (i : Nat)
deriving Repr, DecidableEq

structure Frame where
  tbl : List (String × Slot)          -- sym_table (a dict: at most one entry per name)
  cells : List (Option Nat)           -- the EvalLocalVar objects: `none` = not defined
deriving Repr, DecidableEq

def get (t : List (String × Slot)) (x : String) : Option Slot :=
  match t with
  | [] => none
  | (k, s) :: r => if k = x then some s else get r x

def del (t : List (String × Slot)) (x : String) : List (String × Slot) := t.filter (fun p => p.1 ≠ x)

/-- `d[x] = s` -/
def put (t : List (String × Slot)) (x : String) (s : Slot) : List (String × Slot) := (x, s) :: del t x

/-- `recurse_assign` to a plain name that is not declared global -/
def assign (f : Frame) (x : String) (v : Nat) : Frame :=
  match get f.tbl x with
  | some (.cell i) => { f with cells := f.cells.set i (some v) }      -- `self.sym_table[var_name].set(val)`
  | _ => { f with tbl := put f.tbl x (.plain v) }

/-- `ast_name` (Load) restricted to the local table -/
def load (f : Frame) (x : String) : Option Nat :=
  match get f.tbl x with
  | some (.plain v) => some v
  | some (.cell i) => (f.cells[i]?).join
  | none => none

/-- `save_vars = {var: self.sym_table[var] for var in lvars if var in self.sym_table}` -/
def savedOf (t : List (String × Slot)) : List String → List (String × Slot)
  | [] => []
  | x :: r => match get t x with
    | some s => (x, s) :: savedOf t r
    | none => savedOf t r

/-- the loop after it: a cell entry is replaced by a plain copy of its value, or removed when the cell is unbound -/
def hideCells (cells : List (Option Nat)) : List (String × Slot) → List (String × Slot) → List (String × Slot)
  | t, [] => t
  | t, (x, .cell i) :: r =>
    hideCells cells (match (cells[i]?).join with | some v => put t x (.plain v) | none => del t x) r
  | t, (_, .plain _) :: r => hideCells cells t r

def save (hide : Bool) (f : Frame) (lv : List String) : Frame × List (String × Slot) :=
  let saved := savedOf f.tbl lv
  (if hide then { f with tbl := hideCells f.cells f.tbl saved } else f, saved)

/-- `loopvar_scope_restore`: a saved entry is put back, a name that had no entry is removed -/
def restore (t : List (String × Slot)) (saved : List (String × Slot)) : List String → List (String × Slot)
  | [] => t
  | x :: r => restore (match get saved x with | some s => put t x s | none => del t x) saved r

/-- one pass of the loops: the loop variables are assigned the values of this iteration -/
def bindIter (f : Frame) : List String → List Nat → Frame
  | x :: xs, v :: vs => bindIter (assign f x v) xs vs
  | _, _ => f

def loops (f : Frame) (lv : List String) : List (List Nat) → Frame
  | [] => f
  | vals :: r => loops (bindIter f lv vals) lv r

/-- the whole comprehension as far as the enclosing table and the cells are concerned -/
def comp (hide : Bool) (f : Frame) (lv : List String) (iters : List (List Nat)) : Frame :=
  let (f1, saved) := save hide f lv
  let f2 := loops f1 lv iters
  { f2 with tbl := restore f2.tbl saved lv }

end PsModel.C01Comp
