/-!
# C07 model – `@time_active` windows, `@state_active`, `hold_off` in both trigger subsystems
(also the calendar and `parse_date_time` layer shared with C06)

Mirrors
* `datetime` civil-date arithmetic (the runtime's, not pyscript's): `daysFromCivil`, `civilFromDays`, `weekday`;
* `trigger.py TrigTime.parse_date_time` on a spec AST → `parseDT` (date forms full / month-day / weekday / today /
  tomorrow / none, `now`; time forms h:m:s / noon / midnight / sunrise / sunset / none; offset; the `day_offset`
  argument and its override by explicit dates and weekdays; the `fixed_date` result);
* `TrigTime.timer_active_check` → `activeCheck` (per entry `this_match`, the two result lists `"+"`/`"-"`, the final
  `(any(+) if + else True) and all(-)`; `range` with `start <= now <= end`, or `now >= start or now <= end` when the end
  precedes the start; the end is parsed *relative to the start*; `cron` through the parameter `cronMatch`);
* `TrigInfo.trigger_watch` l.1284–1320 → `Legacy.step` (trigger expression → `state_active` by truthiness →
  `time_active` with the whole list → `hold_off` against `last_trig_time`, stamped only when the action started);
* `FunctionDecoratorManager.dispatch` + `StateActiveDecorator.handle_dispatch` + `TimeActiveDecorator.handle_dispatch`
  → `New.step` (handlers in decorator order, a handler stops the dispatch only when its result `is False`;
  the time handler tests hold-off first, then calls `timer_active_check` ONCE PER ARGUMENT, first success wins, and
  stamps `last_trig_time` right there);
* `AstEval.eval(new_state_vars)` as used for the `@state_active` expression in both subsystems → `Occ.load`/`Occ.seen`
  (the expression's local table is replaced only by a NON-EMPTY dictionary, otherwise the table left by an earlier
  occurrence stays).
  The four places where the code departed from the property are switchable by `Flags`: `Flags.preFix` = the code before
  the `fix:` commits e0254f9 (perArg), 07af69d (identityFalse), 4801d95 (staleLocals); `Flags.current` = the code as it is
  now (only `stampEarly` is left, finding C07-F2); `Flags.repaired` = all four switched off.

Times are integer microseconds of naive local time since 1970-01-01 00:00; the monotonic clock is `Nat` milliseconds.
Core Lean only.
-/
namespace PsModel.C07

/-- `Time` is plain `Int` (microseconds); a macro rather than an `abbrev` so that `omega` sees the integers -/
scoped macro "Time" : term => `(Int)

def usDay : Int := 86400000000
def usHour : Int := 3600000000
def usMin : Int := 60000000

/-! ## calendar (proleptic Gregorian, as `datetime`) -/

structure Civil where
  y : Int
  m : Int
  d : Int
deriving DecidableEq, Repr

/-- days from 0000-03-01 to 1 March of (March-based) year `y` -/
def yearStart (y : Int) : Int := 365 * y + y / 4 - y / 100 + y / 400

/-- days from 1 March to the first of March-based month `mp` (0 = March … 11 = February) -/
def mpStart (mp : Int) : Int := (153 * mp + 2) / 5

/-- `datetime(y, m, d)` as a day number (1970-01-01 = 0) -/
def daysFromCivil (y m d : Int) : Int :=
  let y' := if m ≤ 2 then y - 1 else y
  let mp := if m > 2 then m - 3 else m + 9
  yearStart y' + mpStart mp + d - 1 - 719468

def n100 (doe : Int) : Int := min (doe / 36524) 3
def r1 (doe : Int) : Int := doe - 36524 * n100 doe
def n4 (doe : Int) : Int := r1 doe / 1461
def r2 (doe : Int) : Int := r1 doe - 1461 * n4 doe
def n1 (doe : Int) : Int := min (r2 doe / 365) 3
/-- day of the March-based year from the day of the 400-year era -/
def doyOf (doe : Int) : Int := r2 doe - 365 * n1 doe
/-- year of the era from the day of the era (century, 4-year cycle, year – clamped like `_ord2ymd`) -/
def yoeOf (doe : Int) : Int := 100 * n100 doe + 4 * n4 doe + n1 doe

/-- `.year, .month, .day` of a day number -/
def civilFromDays (z : Int) : Civil :=
  let z := z + 719468
  let era := z / 146097
  let doe := z - era * 146097
  let y := yoeOf doe + era * 400
  let doy := doyOf doe
  let mp := (5 * doy + 2) / 153
  let d := doy - mpStart mp + 1
  let m := if mp < 10 then mp + 3 else mp - 9
  ⟨if m ≤ 2 then y + 1 else y, m, d⟩

def isLeap (y : Int) : Bool := y % 4 == 0 && (y % 100 != 0 || y % 400 == 0)

def daysInMonth (y m : Int) : Int :=
  if m == 2 then (if isLeap y then 29 else 28)
  else if m == 4 || m == 6 || m == 9 || m == 11 then 30 else 31

/-- the arguments `datetime(y, m, d)` accepts (anything else raises `ValueError`) -/
def validDate (y m d : Int) : Bool :=
  decide (1 ≤ y) && decide (y ≤ 9999) && decide (1 ≤ m) && decide (m ≤ 12) && decide (1 ≤ d) && decide (d ≤ daysInMonth y m)

def dayOf (t : Time) : Int := t / usDay
def todOf (t : Time) : Int := t % usDay
def midnight (day : Int) : Time := day * usDay

/-- `isoweekday() % 7`: Sunday = 0 … Saturday = 6 (1970-01-01 was a Thursday) -/
def weekday (day : Int) : Int := (day + 4) % 7

/-! ## specification AST of one `datetime` of the trigger grammar -/

inductive DateSpec where
  | full (y m d : Int)        -- 2024/6/3
  | monthDay (m d : Int)      -- 6/3
  | dow (k : Int)             -- mon, tuesday …  (0 = Sunday)
  | today
  | tomorrow
  | none
deriving DecidableEq, Repr

inductive TimeSpec where
  | hms (h m us : Int)        -- h:m[:s[.f]]   (seconds given in µs)
  | noon
  | midnight
  | sunrise
  | sunset
  | none
deriving DecidableEq, Repr

inductive DTSpec where
  | at (date : DateSpec) (time : TimeSpec) (off : Int)   -- date time ± offset (offset in µs)
  | now (off : Int)                                     -- `now ± offset` = start-up time of the trigger
deriving DecidableEq, Repr

/-- what the runtime supplies -/
structure Params where
  /-- `astral` sunrise (`true`) / sunset (`false`) of a civil day as naive local time, truncated to the second;
      `none` when not defined at the latitude -/
  sun : Bool → Int → Option Time
  /-- `croniter.match(expr, t)` for the cron expression with the given index -/
  cronMatch : Nat → Time → Bool

def Params.trivial : Params := ⟨fun _ _ => none, fun _ _ => false⟩

/-- `day_offset` for a weekday name: the first such weekday on or after today -/
def dowOffset (k w : Int) : Int := if k ≥ w then k - w else 7 + k - w

/-- result of the date stage of `parse_date_time`: the civil date fed to `datetime(…)`, the day offset to add,
    and `fixed_date` -/
structure DateRes where
  y : Int
  m : Int
  d : Int
  off : Int
  fixed : Bool
deriving Repr

def dateStage (date : DateSpec) (dayOffset : Int) (nowDay : Int) : DateRes :=
  let c := civilFromDays nowDay
  match date with
  | .full y m d => ⟨y, m, d, 0, true⟩
  | .monthDay m d => ⟨c.y, m, d, 0, true⟩
  | .dow k => ⟨c.y, c.m, c.d, dowOffset k (weekday nowDay), true⟩
  | .today => ⟨c.y, c.m, c.d, 0, true⟩
  | .tomorrow => ⟨c.y, c.m, c.d, 1, true⟩
  | .none => ⟨c.y, c.m, c.d, dayOffset, false⟩

/-- `dt.datetime(year, month, day) + dt.timedelta(days=day_offset)` as a day number; `none` = `ValueError` -/
def baseDay (r : DateRes) : Option Int :=
  if validDate r.y r.m r.d then some (daysFromCivil r.y r.m r.d + r.off) else none

/-- the time stage: midnight of `day` plus the time of day; sunrise/sunset replace the day by the sun's date;
    `none` = "not defined at this latitude" (the caller then returns `now - 100 days` without the offset) -/
def timeStage (P : Params) (time : TimeSpec) (day : Int) : Option Time :=
  match time with
  | .hms h m us => some (midnight day + (us + usMin * (m + 60 * h)))
  | .noon => some (midnight day + 12 * usHour)
  | .midnight => some (midnight day)
  | .none => some (midnight day)
  | .sunrise => P.sun true day
  | .sunset => P.sun false day

def finishDT (P : Params) (time : TimeSpec) (off : Int) (fixed : Bool) (day : Int) : Time × Bool :=
  match timeStage P time day with
  | some t => (t + off, fixed)
  | none => (midnight day - 100 * usDay, fixed)

/-- `TrigTime.parse_date_time(spec, day_offset, now, startup_time)` → `(datetime, fixed_date)`; `none` = raises -/
def parseDT (P : Params) (spec : DTSpec) (dayOffset : Int) (now startup : Time) : Option (Time × Bool) :=
  match spec with
  | .now off => some (startup + off, true)
  | .at date time off =>
    match baseDay (dateStage date dayOffset (dayOf now)) with
    | none => none
    | some day => some (finishDT P time off (dateStage date dayOffset (dayOf now)).fixed day)

/-! ## `timer_active_check` -/

inductive AKind where
  | range (s e : DTSpec)
  | cron (id : Nat)
deriving DecidableEq, Repr

structure ASpec where
  neg : Bool
  kind : AKind
deriving DecidableEq, Repr

/-- `start <= now <= end`, or `now >= start or now <= end` when the end precedes the start -/
def rangeTest (s e now : Time) : Bool :=
  if s ≤ e then decide (s ≤ now) && decide (now ≤ e) else decide (now ≥ s) || decide (now ≤ e)

def rangeEnd (P : Params) (e : DTSpec) (start now startup : Time) : Option Bool :=
  match parseDT P e 0 start startup with
  | none => none
  | some en => some (rangeTest start en.1 now)

/-- `this_match` of one entry; `none` = an exception escapes -/
def thisMatch (P : Params) (k : AKind) (now startup : Time) : Option Bool :=
  match k with
  | .cron id => some (P.cronMatch id now)
  | .range s e =>
    match parseDT P s 0 now startup with
    | none => none
    | some st => rangeEnd P e st.1 now startup

/-- the dictionary `results = {"+": [...], "-": [...]}` -/
structure Acc where
  pos : List Bool
  negs : List Bool
deriving Repr

def Acc.push (acc : Acc) (neg m : Bool) : Acc :=
  if neg then { acc with negs := acc.negs ++ [!m] } else { acc with pos := acc.pos ++ [m] }

def activeLoop (P : Params) (now startup : Time) : List ASpec → Acc → Option Acc
  | [], acc => some acc
  | a :: rest, acc =>
    match thisMatch P a.kind now startup with
    | none => none
    | some m => activeLoop P now startup rest (acc.push a.neg m)

/-- `(any(results["+"]) if results["+"] else True) and all(results["-"])` -/
def Acc.combine (acc : Acc) : Bool :=
  (if acc.pos.isEmpty then true else acc.pos.any id) && acc.negs.all id

def activeCheck (P : Params) (specs : List ASpec) (now startup : Time) : Option Bool :=
  match activeLoop P now startup specs ⟨[], []⟩ with
  | none => none
  | some acc => some acc.combine

/-- a raised exception never runs the function -/
def activeOk (P : Params) (specs : List ASpec) (now startup : Time) : Bool :=
  (activeCheck P specs now startup).getD false

/-! ## occurrences and guard configuration -/

/-- what evaluating the `@state_active` expression gives -/
inductive AVal where
  | isFalse     -- the object `False`
  | falsy       -- `0`, `None`, `""` … : falsy but not `False`
  | truthy
  | raises      -- an exception (logged; counts as not active in both subsystems)
deriving DecidableEq, Repr

def AVal.truth : AVal → Bool
  | .truthy => true
  | _ => false

structure Occ where
  /-- a unique non-zero name of this occurrence (names the variable dictionary it would load) -/
  id : Nat
  /-- `time.monotonic()` (in ticks; the harness uses µs) when the guards are evaluated -/
  t : Nat
  /-- the occurrence time the windows see: `trigger_time` of a time trigger, the COMPLETION instant of a `state_hold`
      (legacy: `now = time_next` on the hold's timeout; new: `dt_now()` at dispatch), `dt_now()` otherwise -/
  wall : Int
  /-- did the trigger's own condition hold (state / event expression)? -/
  trigOk : Bool
  /-- `State.notify_var_get(names, new_vars)` returned a NON-EMPTY dictionary for this occurrence (triggering values,
      last notified values of watched variables, `None` for missing ones).  `AstEval.eval(vars)` replaces the
      expression's local table only `if vars:` – an empty dictionary leaves the previous table in place. -/
  env : Bool
  /-- value of the `@state_active` expression on the triggering values (own dictionary, current states otherwise) -/
  sa : AVal
  /-- when the own dictionary is empty: the value the expression takes if its local table still holds the dictionary
      loaded by occurrence `k` (pairs `(k, value)`) -/
  saStale : List (Nat × AVal)
deriving DecidableEq, Repr

inductive Ev where
  | occ (o : Occ)
  | direct            -- the decorated function is called like a plain function
deriving DecidableEq, Repr

inductive Handler where
  | sa
  | ta
deriving DecidableEq, Repr

structure Cfg where
  /-- `@state_active` present -/
  stateActive : Bool
  /-- `@time_active` present -/
  timeActive : Bool
  /-- its positional arguments -/
  specs : List ASpec
  /-- `hold_off` in ticks (`none`: not given) -/
  holdOff : Option Nat
  /-- new subsystem: `@state_active` is listed above `@time_active` -/
  saFirst : Bool
  startup : Int

def Cfg.handlers (cfg : Cfg) : List Handler :=
  let s := if cfg.stateActive then [Handler.sa] else []
  let t := if cfg.timeActive then [Handler.ta] else []
  if cfg.saFirst then s ++ t else t ++ s

/-- the deviations from the property found in the code, each switchable (`current` = the code as it is) -/
structure Flags where
  /-- new, before e0254f9: `for time_spec in self.args: timer_active_check(time_spec, …)` instead of one call with the list -/
  perArg : Bool
  /-- new, before 07af69d: `if await dec.handle_dispatch(data) is False` with a handler returning the raw expression value –
      only the object `False` stops the dispatch (now the handler returns `bool(value)`) -/
  identityFalse : Bool
  /-- new: `last_trig_time` is stamped inside the time handler, before later handlers have had their say -/
  stampEarly : Bool
  /-- both, before 4801d95: `AstEval.eval(vars)` keeps the previous local table when `vars` is empty, so the `@state_active`
      expression can see values left by an earlier occurrence (now: `if new_state_vars is not None`) -/
  staleLocals : Bool
deriving DecidableEq, Repr

/-- the code before the fix commits e0254f9 / 07af69d / 4801d95 -/
def Flags.preFix : Flags := ⟨true, true, true, true⟩
/-- the code after those three fixes but before the fix of C07-F2: `last_trig_time` still stamped inside the time handler -/
def Flags.preFixStamp : Flags := ⟨false, false, true, false⟩
/-- the code as it is: `@time_active` passes the whole list, `StateActiveDecorator` returns `bool(…)`, `AstEval.eval` resets
    its table for an empty dictionary, and (fix C07-F2) `last_trig_time` is stamped by `dispatch_accepted`, which
    `FunctionDecoratorManager.dispatch` calls only after EVERY handler has let the occurrence pass -/
def Flags.current : Flags := ⟨false, false, false, false⟩
def Flags.repaired : Flags := Flags.current

/-- what persists between occurrences: `last_trig_time` and (the name of) the expression's local variable table -/
structure GState where
  last : Option Nat
  tbl : Nat
deriving DecidableEq, Repr

def GState.init : GState := ⟨none, 0⟩

def lookupStale (k : Nat) : List (Nat × AVal) → Option AVal
  | [] => none
  | (j, v) :: rest => if j == k then some v else lookupStale k rest

/-- the local table after `eval(vars)`: replaced iff the dictionary is non-empty -/
def Occ.load (o : Occ) (tbl : Nat) : Nat := if o.env then o.id else tbl

/-- the value `active_expr.eval(active_vars)` returns when the table was `tbl` before the call -/
def Occ.seen (F : Flags) (o : Occ) (tbl : Nat) : AVal :=
  if F.staleLocals && !o.env && tbl != 0 then (lookupStale tbl o.saStale).getD o.sa else o.sa

/-- `monotonic() < last_trig_time + hold_off` -/
def heldOff (holdOff : Option Nat) (last : Option Nat) (t : Nat) : Bool :=
  match holdOff, last with
  | some n, some l => decide (t < l + n)
  | _, _ => false

/-! ## legacy subsystem: the tail of the `trigger_watch` loop body -/
namespace Legacy

/-- `if trig_ok and self.active_expr: trig_ok = await self.active_expr.eval(active_vars)` (exception → False) -/
def afterState (F : Flags) (cfg : Cfg) (o : Occ) (tbl : Nat) (ok : Bool) : Bool :=
  if ok && cfg.stateActive then (o.seen F tbl).truth else ok

/-- the expression is evaluated (and its table possibly replaced) only when the trigger condition held -/
def tblAfter (cfg : Cfg) (o : Occ) (tbl : Nat) : Nat :=
  if o.trigOk && cfg.stateActive then o.load tbl else tbl

/-- `if trig_ok and self.time_active:` – an empty argument list is falsy and skips the check -/
def afterTime (P : Params) (cfg : Cfg) (o : Occ) (ok : Bool) : Bool :=
  if ok && cfg.timeActive && !cfg.specs.isEmpty then activeOk P cfg.specs o.wall cfg.startup else ok

def guards (F : Flags) (P : Params) (cfg : Cfg) (o : Occ) (tbl : Nat) : Bool :=
  afterTime P cfg o (afterState F cfg o tbl o.trigOk)

/-- one occurrence: new state, and whether the action was started -/
def step (F : Flags) (P : Params) (cfg : Cfg) (g : GState) (o : Occ) : GState × Bool :=
  if !guards F P cfg o g.tbl then (⟨g.last, tblAfter cfg o g.tbl⟩, false)
  else if heldOff (if cfg.timeActive then cfg.holdOff else none) g.last o.t then (⟨g.last, tblAfter cfg o g.tbl⟩, false)
  else (⟨some o.t, tblAfter cfg o g.tbl⟩, true)

def run (F : Flags) (P : Params) (cfg : Cfg) : List Ev → GState → List Bool
  | [], _ => []
  | .direct :: es, g => true :: run F P cfg es g
  | .occ o :: es, g => (step F P cfg g o).2 :: run F P cfg es (step F P cfg g o).1

/-- A function with several trigger decorators of one type: `EvalFunc.trigger_init` starts one `TrigInfo` task per k-th
decorator of each type ("each trigger task can handle at most one of each type of trigger; all get the same state_active,
time_active and task_unique decorators").  Every task runs its own `trigger_watch` loop, hence has its own `last_trig_time`
(and expression table): `k` names the task an occurrence belongs to. -/
def runGroups (F : Flags) (P : Params) (cfg : Cfg) : List (Nat × Ev) → (Nat → GState) → List Bool
  | [], _ => []
  | (_, .direct) :: es, gs => true :: runGroups F P cfg es gs
  | (k, .occ o) :: es, gs =>
    (step F P cfg (gs k) o).2 :: runGroups F P cfg es (fun j => if j = k then (step F P cfg (gs k) o).1 else gs j)

/-- `EvalFunc.trigger_init` (eval.py, the loop over the decorators): `if len(trig_decs[dec_name]) > 0 and "rep_ok" not in arg_info:
raise SyntaxError("… decorator @… can only be used once")` – `@state_active` and `@time_active` have no `rep_ok`.  The exception leaves
`trigger_init` before any trigger task is created (the caller logs it and still binds the name): with `nSA` / `nTA` decorators of
the two kinds on the function, no occurrence ever starts it, a direct call does. -/
def runFn (F : Flags) (P : Params) (cfg : Cfg) (nSA nTA : Nat) (es : List (Nat × Ev)) : List Bool :=
  if nSA > 1 || nTA > 1 then es.map (fun e => match e.2 with | .direct => true | .occ _ => false)
  else runGroups F P cfg es (fun _ => GState.init)

end Legacy

/-! ## new subsystem -/
namespace New

/-- does the dispatch go on after `StateActiveDecorator.handle_dispatch`?  (`tbl` = table before the evaluation) -/
def saPass (F : Flags) (o : Occ) (tbl : Nat) : Bool :=
  if F.identityFalse then !(o.seen F tbl == .isFalse || o.seen F tbl == .raises) else (o.seen F tbl).truth

def firstMatch (P : Params) (now startup : Int) : List ASpec → Bool
  | [] => false
  | a :: rest => if activeOk P [a] now startup then true else firstMatch P now startup rest

def taCheck (F : Flags) (P : Params) (cfg : Cfg) (o : Occ) : Bool :=
  if F.perArg then firstMatch P o.wall cfg.startup cfg.specs else activeOk P cfg.specs o.wall cfg.startup

/-- `TimeActiveDecorator.handle_dispatch`: hold-off first, then the windows (no arguments: always active) -/
def taPass (F : Flags) (P : Params) (cfg : Cfg) (last : Option Nat) (o : Occ) : Bool :=
  if heldOff cfg.holdOff last o.t then false
  else if cfg.specs.length > 0 then taCheck F P cfg o
  else true

/-- the `for dec in decorators:` loop of `dispatch`; `stamp` = the time handler has passed, `tbl` = the expression's
    table so far.  Result: new state, and whether the function task is created. -/
def handlersLoop (F : Flags) (P : Params) (cfg : Cfg) (o : Occ) (last : Option Nat) :
    List Handler → Bool → Nat → GState × Bool
  | [], stamp, tbl => (⟨if stamp then some o.t else last, tbl⟩, true)
  | .sa :: hs, stamp, tbl =>
    if saPass F o tbl then handlersLoop F P cfg o last hs stamp (o.load tbl)
    else (⟨if stamp && F.stampEarly then some o.t else last, o.load tbl⟩, false)
  | .ta :: hs, stamp, tbl =>
    if taPass F P cfg last o then handlersLoop F P cfg o last hs true tbl
    else (⟨if stamp && F.stampEarly then some o.t else last, tbl⟩, false)

def step (F : Flags) (P : Params) (cfg : Cfg) (g : GState) (o : Occ) : GState × Bool :=
  if !o.trigOk then (g, false) else handlersLoop F P cfg o g.last cfg.handlers false g.tbl

def run (F : Flags) (P : Params) (cfg : Cfg) : List Ev → GState → List Bool
  | [], _ => []
  | .direct :: es, g => true :: run F P cfg es g
  | .occ o :: es, g => (step F P cfg g o).2 :: run F P cfg es (step F P cfg g o).1

/-- `TriggerHandlerDecorator.validate` (decorator_abc.py, since the fix of C07-F6): `if len(self.dm.get_decorators(type(self))) > 1:
raise SyntaxError("… decorator @… can only be used once")` – the manager becomes INVALID, nothing is started: with `nSA` / `nTA`
decorators of the two kinds no occurrence ever starts the function, a direct call does.  `dupAccepted = true` is the code before
that fix: both handlers were installed (the harness then sends the merged guard as `cfg`). -/
def runFn (dupAccepted : Bool) (F : Flags) (P : Params) (cfg : Cfg) (nSA nTA : Nat) (es : List Ev) : List Bool :=
  if !dupAccepted && (nSA > 1 || nTA > 1) then es.map (fun e => match e with | .direct => true | .occ _ => false)
  else run F P cfg es GState.init

end New

end PsModel.C07
