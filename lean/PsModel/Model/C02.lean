/-!
# C02 model – control flow: stop-flow markers (pyscript) vs outcomes (Python reference)

`PS.*` mirrors `eval.py`: statement handlers return `None` / a value (ignored) / an `EvalStopFlow` marker, or raise;
`ast_if`, `ast_for`, `ast_while` (with the *else* clause that only looks for `EvalReturn`), `ast_try`
(handlers tried in order with `isinstance`, `return val` inside `try … finally`, a marker in `finally` overriding),
`ast_raise` (bare, `from`), `ast_with` (all context expressions first, then all `__enter__`s, every manager exited with
the same exception info, `exit_ok = all(...)`), `ast_assert`, the body loop of `EvalFunc.call` (only `EvalReturn`
ends the function).  `Py.*` (in `Spec/C02.lean`) is the language reference.

Every decision a program takes at run time (conditions, iteration counts, whether the task is cancelled while it is
suspended at an `await`) is read from a tape; every observable step appends an event.  Exception classes are numbers with
an arbitrary subclass relation `sub` (a parameter); the classes `≥ 200` are the ones that derive from `BaseException` but
NOT from `Exception` (`baseOnly`: asyncio.CancelledError = 201, SystemExit, KeyboardInterrupt, GeneratorExit, user classes):
`ast_try` / `with_items` catch with `except Exception`, so such an exception passes every `except` clause and reaches
`__exit__` without exception info – but the `finally:` clause (Python's own `finally:` inside `ast_try`) runs for EVERY
way out of the try statement.  The deviation flags of `Cfg` select between the code as it is today (`Current.cfg`) and the
repaired / Python shape.
-/
namespace PsModel.C02

inductive Ev where
  | tick (i : Nat)                       -- tracer `T(i)` (statement position / condition evaluation)
  | init (k : Nat)                       -- context expression of manager k evaluated
  | enter (k : Nat)                      -- `__enter__` of manager k called
  | exit (k : Nat) (e : Option Nat)      -- `__exit__` of manager k called with exception class e / None
deriving Repr, DecidableEq, BEq

structure Exc where
  cls : Nat
  cause : Option Nat := none             -- class of `__cause__` (raise … from …)
deriving Repr, DecidableEq, BEq

def runtimeError : Nat := 100            -- bare `raise` with no active exception
def assertionError : Nat := 101
def cancelledError : Nat := 201          -- asyncio.CancelledError: delivered at a suspension point by task.cancel()

/-- the class derives from `BaseException` but not from `Exception` (class numbers from 200 up) -/
def baseOnly (c : Nat) : Bool := Nat.ble 200 c

structure WItem where
  id : Nat
  enterRaises : Option Nat := none       -- `__enter__` raises this class
  suppress : Bool := false               -- `__exit__` returns a true value
  bindRaises : Option Nat := none        -- storing the `as` target raises this class (e.g. `as (a, b)` of a non-iterable)
  exitRaises : Option Nat := none        -- `__exit__` itself raises this class (whatever it is called with)
deriving Repr, DecidableEq, BEq

/-- what evaluating the type expression of an `except` clause does besides yielding the classes -/
inductive HPre where
  | plain                                -- names only
  | tick (i : Nat)                       -- the expression contains the tracer `T(i)`
  | raises (i c : Nat)                   -- the expression logs `T(i)` and raises class c
deriving Repr, DecidableEq, BEq

mutual
inductive Stmt where
  | tick (i : Nat)
  | brk | cont
  | ret (v : Nat)
  | raise (cls : Nat) (cause : Option Nat)
  | reraise
  | ite (i : Nat) (body orelse : List Stmt)
  | while_ (i : Nat) (body orelse : List Stmt)
  | for_ (i : Nat) (body orelse : List Stmt)
  | try_ (body : List Stmt) (handlers : List Handler) (orelse fin : List Stmt)
  | with_ (items : List WItem) (body : List Stmt)
  | assert_ (i : Nat)
  | suspend (i : Nat)                    -- `await S(i)`: a suspension point; the task may be cancelled while it waits here
inductive Handler where
  | mk (classes : Option (List Nat)) (pre : HPre) (body : List Stmt)     -- `except:` / `except <expr>:`
end

structure World where
  log : List Ev := []
  tape : List Nat := []
deriving Repr, DecidableEq

def World.emit (w : World) (e : Ev) : World := { w with log := w.log ++ [e] }
/-- evaluate a tracer that also returns a decision: logs `T(i)` and consumes one tape cell (0 when exhausted) -/
def World.ask (w : World) (i : Nat) : Nat × World :=
  match w.tape with
  | [] => (0, { w with log := w.log ++ [.tick i] })
  | b :: t => (b, { log := w.log ++ [.tick i], tape := t })

/-- pyscript stop-flow marker (`EvalBreak`, `EvalContinue`, `EvalReturn(value)`) -/
inductive Marker where
  | brk | cont | ret (v : Nat)
deriving Repr, DecidableEq

/-- what a statement handler yields: a (possibly absent) marker, or an exception -/
inductive Res where
  | ok (m : Option Marker)
  | exc (e : Exc)
deriving Repr, DecidableEq

structure Cfg where
  loopElsePropagates : Bool     -- `else` clause of for/while returns ANY stop-flow marker (pre-fix: only EvalReturn)
  withNested : Bool             -- `with a, b` behaves like nested with-statements (pre-fix: phases)
  catchesBase : Bool            -- `except` clauses / `__exit__` see BaseException-only classes (today: `except Exception`)
deriving Repr, DecidableEq

/-- `except Exception as err:` in `ast_try` / `except Exception:` in `with_items` is NOT entered for this exception -/
def skipsHandlers (cfg : Cfg) (e : Exc) : Bool := !cfg.catchesBase && baseOnly e.cls

/-- `await S(i)`: logs `T(i)` and consumes one tape cell; the value 2 means the task is cancelled while suspended here
(`CancelledError` is raised at this point), anything else resumes normally -/
def World.suspend (w : World) (i : Nat) : Option Exc × World :=
  match w.tape with
  | [] => (none, { w with log := w.log ++ [.tick i] })
  | b :: t => (if b == 2 then some { cls := cancelledError } else none, { log := w.log ++ [.tick i], tape := t })

/-- `isinstance(err, exc)` over the handler's class list; `except:` matches everything -/
def handlerMatches (sub : Nat → Nat → Bool) (e : Exc) : Option (List Nat) → Bool
  | none => true
  | some cs => cs.any (fun c => sub e.cls c)

/-- result of going through the `except` clauses -/
inductive HSel where
  | found (body : List Stmt)
  | notFound
  | raised (e : Exc)                     -- a clause's type expression raised

/-- `for handler in arg.handlers`: the type expression of a clause is evaluated when the clause is reached – lazily, clause by
clause, only until one matches (`isinstance(err, exc)`); an expression that raises ends the search with that exception -/
def selectHandler (sub : Nat → Nat → Bool) (e : Exc) : List Handler → World → HSel × World
  | [], w => (.notFound, w)
  | .mk cs pre body :: hs, w =>
    match pre with
    | .raises i c => (.raised { cls := c }, w.emit (.tick i))
    | .tick i => if handlerMatches sub e cs then (.found body, w.emit (.tick i)) else selectHandler sub e hs (w.emit (.tick i))
    | .plain => if handlerMatches sub e cs then (.found body, w) else selectHandler sub e hs w

namespace PS

/-- `finally:` – a marker produced by the final body is returned (overrides), an exception replaces, otherwise the
pending result (marker returned from inside `try`, or the propagating exception) stands -/
def finish (pending : Res) (fin : Res × World) : Res × World :=
  match fin with
  | (.ok none, w) => (pending, w)
  | r => r

/-- exception info seen by a `finally:` body – the propagating exception if there is one -/
def handlingIn (pending : Res) (h : Option Exc) : Option Exc :=
  match pending with
  | .exc e => some e
  | _ => h

/-- phase 1 of `ast_with`: every context expression is evaluated before any `__enter__` -/
def initAll (items : List WItem) (w : World) : World := items.foldl (fun w m => w.emit (.init m.id)) w

/-- phase 2: `__enter__` in order; stops at the first one that raises -/
def enterAll : List WItem → World → Option Exc × World
  | [], w => (none, w)
  | m :: ms, w =>
    let w1 := w.emit (.enter m.id)
    match m.enterRaises with
    | some c => (some { cls := c }, w1)
    | none =>
      match m.bindRaises with
      | some c => (some { cls := c }, w1)
      | none => enterAll ms w1

/-- `for ctx in reversed(ctx_list): ret = exit(...); exit_ok = exit_ok and ret` – ALL managers, same exc info; the last
component is the class raised by an `__exit__` (pre-fix phases shape; today's nested shape calls it with one manager) -/
def exitAll (items : List WItem) (e : Option Nat) (w : World) : Bool × World × Option Nat :=
  items.reverse.foldl (fun (acc : Bool × World × Option Nat) m =>
    (acc.1 && m.suppress, acc.2.1.emit (.exit m.id e), match m.exitRaises with | some c => some c | none => acc.2.2)) (true, w, none)

/-- the tail of `ast_with` once the body (or an `__enter__`) produced `r` -/
def withFinish (cfg : Cfg) (items : List WItem) (r : Res × World) : Res × World :=
  match r with
  | (.exc e, w) =>
    if skipsHandlers cfg e then
      -- `except Exception:` is passed; the `finally: if not hit_except:` arm calls `__exit__(None, None, None)` and
      -- ignores what it returns
      match exitAll items none w with
      | (_, w', some c) => (.exc { cls := c }, w')
      | (_, w', none) => (.exc e, w')
    else
    match exitAll items (some e.cls) w with
    | (_, w', some c) => (.exc { cls := c }, w')        -- `__exit__` raised while the exception was propagating
    | (ok, w', none) => if ok then (.ok none, w') else (.exc e, w')
  | (.ok m, w) =>
    match exitAll items none w with
    | (_, w', some c) => (.exc { cls := c }, w')        -- the clean `__exit__(None, None, None)` raised
    | (_, w', none) => (.ok m, w')

mutual
/-- one statement handler (`aeval` dispatch); `h` = exception currently being handled (for bare `raise`) -/
def exec (cfg : Cfg) (sub : Nat → Nat → Bool) : Nat → Option Exc → Stmt → World → Res × World
  | 0, _, _, w => (.ok none, w)
  | _+1, _, .tick i, w => (.ok none, w.emit (.tick i))
  | _+1, _, .brk, w => (.ok (some .brk), w)
  | _+1, _, .cont, w => (.ok (some .cont), w)
  | _+1, _, .ret v, w => (.ok (some (.ret v)), w)
  | _+1, _, .raise c cause, w => (.exc { cls := c, cause := cause }, w)
  | _+1, h, .reraise, w =>
    match h with
    | some e => (.exc e, w)
    | none => (.exc { cls := runtimeError }, w)
  | _+1, _, .assert_ i, w =>
    let (c, w1) := w.ask i
    if c ≠ 0 then (.ok none, w1) else (.exc { cls := assertionError }, w1)
  | _+1, _, .suspend i, w =>
    match w.suspend i with
    | (some e, w1) => (.exc e, w1)
    | (none, w1) => (.ok none, w1)
  | n+1, h, .ite i b o, w =>
    let (c, w1) := w.ask i
    if c ≠ 0 then stmts cfg sub n h b w1 else stmts cfg sub n h o w1
  | n+1, h, .while_ i b o, w => whileLoop cfg sub n h i b o w
  | n+1, h, .for_ i b o, w =>
    let (k, w1) := w.ask i
    forLoop cfg sub n h k b o w1
  | n+1, h, .try_ b hs o f, w =>
    let r1 := stmts cfg sub n h b w
    let r2 : Res × World :=
      match r1 with
      | (.exc e, w1) =>
        -- `except Exception as err:` – a BaseException-only exception passes all clauses (no type expression is evaluated)
        if skipsHandlers cfg e then (.exc e, w1) else
        match selectHandler sub e hs w1 with
        | (.found hb, w2) => stmts cfg sub n (some e) hb w2
        | (.notFound, w2) => (.exc e, w2)
        | (.raised e2, w2) => (.exc e2, w2)
      | (.ok (some m), w1) => (.ok (some m), w1)            -- `return val` from inside the try body
      | (.ok none, w1) => stmts cfg sub n h o w1            -- else clause
    -- Python's own `finally:` of `ast_try`: the final body runs whatever `r2` is (incl. BaseException-only exceptions)
    finish r2.1 (stmts cfg sub n (handlingIn r2.1 h) f r2.2)
  | n+1, h, .with_ items b, w =>
    if cfg.withNested then
      match items with
      | [] => stmts cfg sub n h b w
      | m :: ms =>
        let w1 := (w.emit (.init m.id)).emit (.enter m.id)
        match m.enterRaises with
        | some c => (.exc { cls := c }, w1)
        | none =>
          -- the `as` target is stored inside the protected region: a failing store reaches `__exit__`
          let r := match m.bindRaises with
            | some c => (.exc { cls := c }, w1)
            | none =>
              match ms with
              | [] => stmts cfg sub n h b w1
              | _ :: _ => exec cfg sub n h (.with_ ms b) w1
          withFinish cfg [m] r
    else
      let w1 := initAll items w
      match enterAll items w1 with
      | (some e, w2) => withFinish cfg items (.exc e, w2)
      | (none, w2) => withFinish cfg items (stmts cfg sub n h b w2)

/-- `for arg1 in body: val = aeval(arg1); if isinstance(val, EvalStopFlow): return val` -/
def stmts (cfg : Cfg) (sub : Nat → Nat → Bool) : Nat → Option Exc → List Stmt → World → Res × World
  | 0, _, _, w => (.ok none, w)
  | _+1, _, [], w => (.ok none, w)
  | n+1, h, s :: ss, w =>
    match exec cfg sub n h s w with
    | (.ok none, w') => stmts cfg sub n h ss w'
    | r => r

/-- the `else:` clause of a loop as coded today: `if isinstance(val, EvalReturn): return val` – a break/continue
marker is dropped and the NEXT statement of the clause still runs -/
def elseStmts (cfg : Cfg) (sub : Nat → Nat → Bool) : Nat → Option Exc → List Stmt → World → Res × World
  | 0, _, _, w => (.ok none, w)
  | _+1, _, [], w => (.ok none, w)
  | n+1, h, s :: ss, w =>
    match exec cfg sub n h s w with
    | (.ok (some (.ret v)), w') => (.ok (some (.ret v)), w')
    | (.exc e, w') => (.exc e, w')
    | (.ok _, w') => elseStmts cfg sub n h ss w'

def whileLoop (cfg : Cfg) (sub : Nat → Nat → Bool) : Nat → Option Exc → Nat → List Stmt → List Stmt → World → Res × World
  | 0, _, _, _, _, w => (.ok none, w)
  | n+1, h, i, b, o, w =>
    let (c, w1) := w.ask i
    if c ≠ 0 then
      match stmts cfg sub n h b w1 with
      | (.ok (some .brk), w') => (.ok none, w')                       -- `if isinstance(val, EvalBreak): break`
      | (.ok (some (.ret v)), w') => (.ok (some (.ret v)), w')        -- `if isinstance(val, EvalReturn): return val`
      | (.exc e, w') => (.exc e, w')
      | (.ok _, w') => whileLoop cfg sub n h i b o w'                 -- None / EvalContinue: next iteration
    else if cfg.loopElsePropagates then stmts cfg sub n h o w1 else elseStmts cfg sub n h o w1

def forLoop (cfg : Cfg) (sub : Nat → Nat → Bool) : Nat → Option Exc → Nat → List Stmt → List Stmt → World → Res × World
  | 0, _, _, _, _, w => (.ok none, w)
  | n+1, h, 0, _, o, w => if cfg.loopElsePropagates then stmts cfg sub n h o w else elseStmts cfg sub n h o w
  | n+1, h, k+1, b, o, w =>
    match stmts cfg sub n h b w with
    | (.ok (some .brk), w') => (.ok none, w')
    | (.ok (some (.ret v)), w') => (.ok (some (.ret v)), w')
    | (.exc e, w') => (.exc e, w')
    | (.ok _, w') => forLoop cfg sub n h k b o w'
end

/-- body loop of `EvalFunc.call`: only `EvalReturn` ends the function; any other value – including a stray
break/continue marker – is ignored and the next statement runs; falling off the end returns None -/
def bodyStmts (cfg : Cfg) (sub : Nat → Nat → Bool) (n : Nat) : List Stmt → World → Except Exc (Option Nat) × World
  | [], w => (.ok none, w)
  | s :: ss, w =>
    match exec cfg sub n none s w with
    | (.ok (some (.ret v)), w') => (.ok (some v), w')
    | (.exc e, w') => (.error e, w')
    | (.ok _, w') => bodyStmts cfg sub n ss w'

end PS

/-- what the code does today (the correspondence check is what certifies these values) -/
def Current.cfg : Cfg := { loopElsePropagates := true, withNested := true, catchesBase := false }

/-- before the `fix:` commit for the loop-else clause -/
def Cfg.preFix : Cfg := { loopElsePropagates := false, withNested := false, catchesBase := false }

/-! ## return markers: which object carries a pending `return <value>`

Between `ast_return` and the body loop of `EvalFunc.call` the `EvalReturn` marker travels up through `finally` clauses and
manager exits, which run arbitrary script code: they may call the same function again, or suspend while another task
(own `AstEval`, same `EvalFunc`, same AST nodes) executes the same `return` statement.  `MStore` makes the identity of the
marker objects explicit: a heap of `EvalReturn` objects, which object each activation is carrying, and (for the rejected
allocation scheme) the object cached on each `ast.Return` node. -/

inductive MarkerAlloc where
  | fresh                          -- today: `EvalReturn(value)` – a new object on every execution of a return statement
  | perNode (clear : Bool)         -- one cached object per `ast.Return` node, `.value` overwritten on each execution;
                                   -- `clear`: `EvalFunc.call` resets `.value` to None after reading it
deriving Repr, DecidableEq

/-- what the activations of a function do, in the order it happens: `ret a node v` – activation `a` executes the return
statement `node` with value `v` (the marker is now pending); `take a` – `EvalFunc.call` of activation `a` receives the marker
its body produced and reads `.value` -/
inductive MEv where
  | ret (act node v : Nat)
  | take (act : Nat)
deriving Repr, DecidableEq

structure MStore where
  cells : List (Option Nat) := []          -- the EvalReturn objects: their `.value` (none = Python None)
  pending : List (Nat × Nat) := []         -- activation ↦ index of the object it is carrying (latest first)
  cache : List (Nat × Nat) := []           -- `ast.Return` node ↦ index of its cached object (`perNode` only)
  out : List (Nat × Option Nat) := []      -- what each `EvalFunc.call` returned, in order
deriving Repr, DecidableEq

def MStore.alloc (s : MStore) (a v : Nat) : MStore :=
  { s with cells := s.cells ++ [some v], pending := (a, s.cells.length) :: s.pending }

def MStore.step (mode : MarkerAlloc) (s : MStore) : MEv → MStore
  | .ret a node v =>
    match mode with
    | .fresh => s.alloc a v
    | .perNode _ =>
      match s.cache.lookup node with
      | some i => { s with cells := s.cells.set i (some v), pending := (a, i) :: s.pending }
      | none => { s.alloc a v with cache := (node, s.cells.length) :: s.cache }
  | .take a =>
    match s.pending.lookup a with
    | none => { s with out := s.out ++ [(a, none)] }                -- no marker: the body fell off its end
    | some i =>
      let v := (s.cells[i]?).getD none
      match mode with
      | .perNode true => { s with cells := s.cells.set i none, out := s.out ++ [(a, v)] }
      | _ => { s with out := s.out ++ [(a, v)] }

def MStore.run (mode : MarkerAlloc) (evs : List MEv) : List (Nat × Option Nat) :=
  (evs.foldl (MStore.step mode) {}).out

/-- how `ast_return` allocates today -/
def Current.markerAlloc : MarkerAlloc := .fresh

end PsModel.C02
