/-!
# C09 – executable model of pyscript's trigger bookkeeping

(i) the subscription tables exactly as coded: `State.notify_add` / `State.notify_del` (state.py, iteration over the
name *set* in some order – the order is the order of the list handed to the model; theorems quantify over all
orders), `Event.notify_add` / `Event.notify_del` (event.py, bus listener installed with the first subscriber and
removed with the last);
(ii) a world of function *generations* whose triggers are started when the function is defined and stopped when
the last reference disappears (`EvalFuncVar.__del__` → `EvalFunc.trigger_stop` → `TrigInfo.stop` in the legacy
subsystem, `weakref.finalize` → `DecoratorManager.stop` in the new one).  That CPython drops an unreferenced
`EvalFuncVar` right after the operation is an ASSUMPTION (`sweep` below), not something modelled.
-/
namespace PsModel.C09

/-- a watched name: `["pyscript","a"]`, `["pyscript","a","old"]`, `["binary_sensor","x","attr"]` … -/
abbrev Var := List String
/-- `f"{parts[0]}.{parts[1]}"` -/
abbrev Ent := List String
/-- a notify queue: (generation, index of the decorator owning the queue) -/
abbrev Q := Nat × Nat

/-- `len(parts) == 2 or len(parts) == 3` -/
def validVar (v : Var) : Bool := v.length == 2 || v.length == 3

def entOf (v : Var) : Ent := v.take 2

/-- `State.notify`: entity ↦ queues (a `dict` of `dict`s; emptied inner dicts are never removed) -/
abbrev StateTbl := List (Ent × List Q)

def subsOf (t : StateTbl) (e : Ent) : List Q := (t.lookup e).getD []

def hasEnt (t : StateTbl) (e : Ent) : Bool := t.any (fun kv => kv.1 == e)

/-- `cls.notify[state_var_name][queue] = var_names` (creating the inner dict when missing) -/
def addSub (t : StateTbl) (e : Ent) (q : Q) : StateTbl :=
  if hasEnt t e then t.map (fun kv => if kv.1 == e then (kv.1, if kv.2.contains q then kv.2 else kv.2 ++ [q]) else kv)
  else t ++ [(e, [q])]

/-- `del cls.notify[state_var_name][queue]` -/
def delSub (t : StateTbl) (e : Ent) (q : Q) : StateTbl :=
  t.map (fun kv => if kv.1 == e then (kv.1, kv.2.filter (fun x => !(x == q))) else kv)

/-- `State.notify_add(var_names, queue)`; `names` = the set in iteration order -/
def notifyAdd (names : List Var) (q : Q) (t : StateTbl) : StateTbl :=
  names.foldl (fun t v => if validVar v then addSub t (entOf v) q else t) t

/-- the return value of `notify_add` -/
def notifyAdded (names : List Var) : Bool := names.any validVar

/-- `State.notify_del(var_names, queue)`.  `cont = false` is the code as it is: the first name whose entity no longer
lists the queue ends the loop (`return`); `cont = true` is the repaired loop (`continue`). -/
def notifyDel (cont : Bool) (q : Q) : List Var → StateTbl → StateTbl
  | [], t => t
  | v :: vs, t =>
    if !validVar v then notifyDel cont q vs t
    else if (subsOf t (entOf v)).contains q then notifyDel cont q vs (delSub t (entOf v) q)
    else if cont then notifyDel cont q vs t
    else t

/-- **current configuration of the deviation flag.**  Since the `fix:` commit a7dbc5e of /repo ("unsubscribing a trigger
removes its queue from every watched entity even when two watched names share an entity") `State.notify_del`
`continue`s; the correspondence check (`harness/run_C09.py`, `DEL_CONTINUES`) certifies that this value matches the code. -/
def delContinuesNow : Bool := true

/-- the value before that commit (`return` at the first name whose entity no longer lists the queue); kept so that the
`_regress_` theorems can speak about the pre-fix table code -/
def delContinuesPreFix : Bool := false

/-- the entities named by the valid names of a list -/
def entsOf (names : List Var) : List Ent := (names.filter validVar).map entOf

/-! ## `Event.notify`, `Event.notify_remove` and the bus -/

structure EvSt where
  tbl : StateTbl                        -- `Event.notify`, keyed by `[event_type]`
  bus : List (String × Nat)             -- number of bus listeners pyscript holds per event type
deriving Repr

def evSubs (s : EvSt) (ty : String) : List Q := subsOf s.tbl [ty]
def evHas (s : EvSt) (ty : String) : Bool := hasEnt s.tbl [ty]
def busCount (b : List (String × Nat)) (ty : String) : Nat := (b.lookup ty).getD 0

def busInc (b : List (String × Nat)) (ty : String) : List (String × Nat) :=
  if b.any (fun kv => kv.1 == ty) then b.map (fun kv => if kv.1 == ty then (kv.1, kv.2 + 1) else kv) else b ++ [(ty, 1)]

def busDec (b : List (String × Nat)) (ty : String) : List (String × Nat) :=
  b.map (fun kv => if kv.1 == ty then (kv.1, kv.2 - 1) else kv)

/-- `Event.notify_add(event_type, queue)`: the first subscriber installs the bus listener -/
def evAdd (s : EvSt) (ty : String) (q : Q) : EvSt :=
  { tbl := addSub s.tbl [ty] q, bus := if evHas s ty then s.bus else busInc s.bus ty }

/-- `Event.notify_del(event_type, queue)`: the last subscriber removes the bus listener and the table entry -/
def evDel (s : EvSt) (ty : String) (q : Q) : EvSt :=
  if !evHas s ty || !(evSubs s ty).contains q then s
  else if ((evSubs s ty).filter (fun x => !(x == q))).isEmpty then
    { tbl := s.tbl.filter (fun kv => !(kv.1 == [ty])), bus := busDec s.bus ty }
  else { s with tbl := delSub s.tbl [ty] q }

inductive EvOp where
  | add (ty : String) (q : Q)
  | del (ty : String) (q : Q)
deriving Repr

def evStep (s : EvSt) : EvOp → EvSt
  | .add ty q => evAdd s ty q
  | .del ty q => evDel s ty q

def evRun (ops : List EvOp) : EvSt := ops.foldl evStep { tbl := [], bus := [] }

/-! ## function generations and their start / stop -/

/-- what one decorated function declares: one name list per `@state_trigger`, at most one event type per
`@event_trigger`, the services, and whether it has `startup` / `shutdown` time triggers -/
structure Gen where
  id : Nat
  ctx : String
  states : List (List Var)
  events : List String
  mqtts : List String                   -- topic of each `@mqtt_trigger`
  hooks : List String                   -- webhook id of each `@webhook_trigger`
  services : List String
  startup : Bool
  shutdown : Bool
deriving Repr, DecidableEq

inductive Sub where
  | legacy | new
deriving Repr, DecidableEq

structure World where
  st : StateTbl
  ev : EvSt
  mq : EvSt                             -- `Mqtt.notify` (keyed by `[topic]`) + live `mqtt.async_subscribe` subscriptions per topic
  wh : EvSt                             -- `Webhook.notify` (keyed by `[webhook_id]`) + Home Assistant webhook registrations per id
  svc : List (String × Nat)             -- `Function.service_cnt`
  owner : List (String × String)        -- `Function.service2global_ctx`: service name ↦ owning global context
  started : List Gen                    -- generations whose triggers run
  binds : List (String × String × Nat)  -- global variables holding a function: (context, name, generation)
  slots : List (Nat × String × Nat)     -- container slots holding a function: (slot, owning context, generation)
  log : List (String × Nat)             -- ("startup" | "shutdown", generation) runs
  next : Nat
deriving Repr

def emptyWorld : World :=
  { st := [], ev := { tbl := [], bus := [] }, mq := { tbl := [], bus := [] }, wh := { tbl := [], bus := [] }, svc := [], owner := [], started := [], binds := [], slots := [], log := [],
    next := 0 }

def svcCount (s : List (String × Nat)) (n : String) : Nat := (s.lookup n).getD 0

def svcInc (s : List (String × Nat)) (n : String) : List (String × Nat) :=
  if s.any (fun kv => kv.1 == n) then s.map (fun kv => if kv.1 == n then (kv.1, kv.2 + 1) else kv) else s ++ [(n, 1)]

/-- `Function.service_remove`: counts above one are decremented, otherwise the service is removed (count 0) -/
def svcDec (s : List (String × Nat)) (n : String) : List (String × Nat) :=
  s.map (fun kv => if kv.1 == n then (kv.1, if 1 < kv.2 then kv.2 - 1 else 0) else kv)

def idxList {α} (l : List α) : List (Nat × α) := (List.range l.length).zip l

/-- one notify channel (`Event`, `Mqtt`, `Webhook` – the three classes have the same `notify_add` / `notify_del`:
the first queue of a key installs the Home Assistant side – bus listener, `mqtt.async_subscribe`,
`webhook.async_register` –, the last one removes it together with the table entry; tools/extractors/C09.py checks that
shape on all three).  Legacy (`EvalFunc.trigger_init`): the `k`-th `TrigInfo` of a function owns queue `(id, k)` and
takes the `k`-th decorator of every kind; its `trigger_watch` prologue subscribes them.  New (`Decorator.start`): every
`@event_trigger` / `@mqtt_trigger` / `@webhook_trigger` makes its own Home Assistant registration, the notify tables
are not used. -/
def chanSub (sub : Sub) (i : Nat) (keys : List String) (s : EvSt) : EvSt :=
  match sub with
  | .legacy => (idxList keys).foldl (fun s kv => evAdd s kv.2 (i, kv.1)) s
  | .new => { s with bus := keys.foldl busInc s.bus }

def chanUnsub (sub : Sub) (i : Nat) (keys : List String) (s : EvSt) : EvSt :=
  match sub with
  | .legacy => (idxList keys).foldl (fun s kv => evDel s kv.2 (i, kv.1)) s
  | .new => { s with bus := keys.foldl busDec s.bus }

/-- subscribe one generation.  The `k`-th `@state_trigger` owns queue `(id, k)` in both subsystems. -/
def subscribe (sub : Sub) (g : Gen) (w : World) : World :=
  { w with
    st := (idxList g.states).foldl (fun t kv => notifyAdd kv.2 (g.id, kv.1) t) w.st,
    ev := chanSub sub g.id g.events w.ev,
    mq := chanSub sub g.id g.mqtts w.mq,
    wh := chanSub sub g.id g.hooks w.wh }

/-- unsubscribe (`TrigInfo.stop` / `Decorator.stop` of every decorator) -/
def unsubscribe (cont : Bool) (sub : Sub) (g : Gen) (w : World) : World :=
  { w with
    st := (idxList g.states).foldl (fun t kv => notifyDel cont (g.id, kv.1) kv.2 t) w.st,
    ev := chanUnsub sub g.id g.events w.ev,
    mq := chanUnsub sub g.id g.mqtts w.mq,
    wh := chanUnsub sub g.id g.hooks w.wh }

def ownerOf (o : List (String × String)) (n : String) : Option String := o.lookup n

/-- `if key not in cls.service2global_ctx: cls.service2global_ctx[key] = global_ctx_name` -/
def ownerClaim (ctx : String) (o : List (String × String)) (n : String) : List (String × String) :=
  if o.any (fun kv => kv.1 == n) then o else o ++ [(n, ctx)]

/-- `Function.service_remove`: the owner entry is dropped together with the last registration (`service_cnt <= 1`) -/
def svcRelease (s : List (String × Nat) × List (String × String)) (n : String) :
    List (String × Nat) × List (String × String) :=
  (svcDec s.1 n, if 1 < svcCount s.1 n then s.2 else s.2.filter (fun kv => !(kv.1 == n)))

/-- `Function.service_register` refuses a name owned by another global context – BEFORE counting the claim.
The function whose `@service` is refused gets neither services nor triggers (legacy: `trigger_init` raises before any
trigger is created; new: `DecoratorManager.start` rolls back the decorators already started).  Modelled for functions
that declare at most one service. -/
def svcRefused (w : World) (g : Gen) : Bool :=
  g.services.any (fun n => match ownerOf w.owner n with | some c => !(c == g.ctx) | none => false)

def dupFree : List String → Bool
  | [] => true
  | x :: xs => !xs.contains x && dupFree xs

/-- Home Assistant's webhook registry is a dictionary: `webhook.async_register` raises when the id already has a
handler.  The legacy subsystem registers an id once (`Webhook.notify_add`, first queue) and multiplexes; in the NEW
subsystem every `@webhook_trigger` registers itself, so a function naming an id that is registered already (by another
live function, or twice by itself) fails to start and `DecoratorManager.start` rolls it back (C08-F1). -/
def hookClash (sub : Sub) (w : World) (g : Gen) : Bool :=
  match sub with
  | .legacy => false
  | .new => !dupFree g.hooks || g.hooks.any (fun h => busCount w.wh.bus h != 0)

def refused (sub : Sub) (w : World) (g : Gen) : Bool := svcRefused w g || hookClash sub w g

/-- what is left of a function whose start failed: a referenced object without declarations -/
def inert (g : Gen) : Gen :=
  { g with states := [], events := [], mqtts := [], hooks := [], services := [], startup := false, shutdown := false }

def effective (sub : Sub) (w : World) (g : Gen) : Gen := if refused sub w g then inert g else g

def startGen (sub : Sub) (g : Gen) (w : World) : World :=
  let w1 := subscribe sub g w
  { w1 with svc := g.services.foldl svcInc w1.svc, owner := g.services.foldl (ownerClaim g.ctx) w1.owner,
            started := w1.started ++ [g],
            log := if g.startup then w1.log ++ [("startup", g.id)] else w1.log }

def stopGen (cont : Bool) (sub : Sub) (g : Gen) (w : World) : World :=
  let w1 := unsubscribe cont sub g w
  { w1 with svc := (g.services.foldl svcRelease (w1.svc, w1.owner)).1,
            owner := (g.services.foldl svcRelease (w1.svc, w1.owner)).2,
            started := w1.started.filter (fun x => !(x.id == g.id)),
            log := if g.shutdown then w1.log ++ [("shutdown", g.id)] else w1.log }

/-- number of references to generation `i` -/
def refs (w : World) (i : Nat) : Nat :=
  (w.binds.filter (fun b => b.2.2 == i)).length + (w.slots.filter (fun s => s.2.2 == i)).length

/-- ASSUMPTION about CPython: an `EvalFuncVar` without references is finalised right away – every started
generation with no reference left is stopped (in the order they were started). -/
def sweep (cont : Bool) (sub : Sub) (w : World) : World :=
  (w.started.filter (fun g => refs w g.id == 0)).foldl (fun w g => stopGen cont sub g w) w

/-- what scripts do -/
inductive Op where
  | define (ctx name : String) (states : List (List Var)) (events mqtts hooks services : List String)
      (startup shutdown : Bool)
  | del (ctx name : String)                    -- `del name`
  | rebind (ctx dst src : String)              -- `dst = src`
  | put (slot : Nat) (ctx name : String)       -- `container[slot] = name` (dict, default argument, closure, class attribute)
  | putIn (slot : Nat) (ctx name owner : String)  -- `module.container[slot] = name`: the holder belongs to context `owner`
  | drop (slot : Nat)                          -- `del container[slot]`
  | unloadCtx (ctx : String)                   -- file reload / file delete: the context's globals go away
  | unloadAll
deriving Repr

def mkGen (i : Nat) (ctx : String) (states : List (List Var)) (events mqtts hooks services : List String)
    (su sd : Bool) : Gen :=
  { id := i, ctx := ctx, states := states, events := events, mqtts := mqtts, hooks := hooks, services := services,
    startup := su, shutdown := sd }

def lookupBind (w : World) (ctx name : String) : Option Nat :=
  (w.binds.find? (fun b => b.1 == ctx && b.2.1 == name)).map (·.2.2)

def setBind (w : World) (ctx name : String) (i : Nat) : World :=
  { w with binds := w.binds.filter (fun b => !(b.1 == ctx && b.2.1 == name)) ++ [(ctx, name, i)] }

/-- the effect of the operation itself, before unreferenced generations are collected -/
def applyOp (sub : Sub) (w : World) : Op → World
  | .define ctx name states events mqtts hooks services su sd =>
    let g : Gen := effective sub w (mkGen w.next ctx states events mqtts hooks services su sd)
    setBind (startGen sub g { w with next := w.next + 1 }) ctx name g.id
  | .del ctx name => { w with binds := w.binds.filter (fun b => !(b.1 == ctx && b.2.1 == name)) }
  | .rebind ctx dst src =>
    match lookupBind w ctx src with
    | some i => setBind w ctx dst i
    | none => w
  | .put slot ctx name =>
    match lookupBind w ctx name with
    | some i => { w with slots := w.slots.filter (fun s => !(s.1 == slot)) ++ [(slot, ctx, i)] }
    | none => w
  | .putIn slot ctx name owner =>
    match lookupBind w ctx name with
    | some i => { w with slots := w.slots.filter (fun s => !(s.1 == slot)) ++ [(slot, owner, i)] }
    | none => w
  | .drop slot => { w with slots := w.slots.filter (fun s => !(s.1 == slot)) }
  | .unloadCtx ctx =>
    -- `GlobalContext.stop()` stops every trigger function registered with the context, whether or not some other
    -- context (a module's container, another file) still holds a reference to the function object: such references
    -- point to a dead function from now on
    let dead := (w.started.filter (fun g => g.ctx == ctx)).map (·.id)
    { w with binds := w.binds.filter (fun b => !(b.1 == ctx) && !dead.contains b.2.2),
             slots := w.slots.filter (fun s => !(s.2.1 == ctx) && !dead.contains s.2.2) }
  | .unloadAll => { w with binds := [], slots := [] }

def step (cont : Bool) (sub : Sub) (w : World) (op : Op) : World := sweep cont sub (applyOp sub w op)

def run (cont : Bool) (sub : Sub) (ops : List Op) : World := ops.foldl (step cont sub) emptyWorld

end PsModel.C09
