/-!
# C08 – executable model of event / MQTT / webhook trigger delivery (core Lean only)

Mirrors, for BOTH trigger subsystems of pyscript:

* legacy: `event.py`/`mqtt.py`/`webhook.py` (`notify` tables, `notify_add`, listener → `update` → `queue.put` per
  subscriber), `trigger.py` `TrigInfo.trigger_watch` (event/mqtt/webhook branch: filter via `_call_expression`,
  `func_args.update(user_kwargs)`), `call_action` (context creation, one `create_task` per accepted message),
  `eval.py` `trigger_init` (grouping of stacked decorators into `TrigInfo` units that share one queue);
* new: `decorators/event.py` `_event_callback` (and the MQTT / webhook twins) → filter → `TriggerDecorator.dispatch`
  → `FunctionDecoratorManager.dispatch` → `create_task`;
* `function.py` `event_fire` / `store_hass_context` (`task2context`).

Atomic steps are the await-free segments of the code; a *schedule* is any finite list of steps.
-/
namespace PsModel.C08

/-! ## values, python dictionaries -/

inductive Kind where
  | event | mqtt | webhook
deriving DecidableEq, Repr

/-- a Home Assistant `Context` (only what the property speaks about) -/
structure Ctx where
  id : Nat
  parent : Option Nat
deriving DecidableEq, Repr

/-- payload values; dictionaries are encoded inside `Val` (`dnil`/`dcons`) so that the type is not nested -/
inductive Val where
  | none
  | int (n : Int)
  | str (s : String)
  | bool (b : Bool)
  | ctx (c : Ctx)
  | dnil
  | dcons (k : String) (v : Val) (rest : Val)
  | lnil                                   -- JSON arrays, encoded like the dictionaries
  | lcons (v : Val) (rest : Val)
deriving DecidableEq, Repr

/-- a python `dict` with insertion order (keys are unique in every dict the model builds) -/
abbrev Dict := List (String × Val)

namespace Dict

/-- `d[k] = v` : replace in place when the key exists, else append -/
def set : Dict → String → Val → Dict
  | [], k, v => [(k, v)]
  | (k', v') :: r, k, v => if k' = k then (k', v) :: r else (k', v') :: set r k v

/-- `d.update(e)` -/
def update (d e : Dict) : Dict := e.foldl (fun acc kv => acc.set kv.1 kv.2) d

/-- `d.get(k)` -/
def get : Dict → String → Option Val
  | [], _ => Option.none
  | (k', v) :: r, k => if k' = k then some v else get r k

/-- `del d[k]` -/
def erase : Dict → String → Dict
  | [], _ => []
  | (k', v) :: r, k => if k' = k then r else (k', v) :: erase r k

def keys (d : Dict) : List String := d.map (·.1)

def toVal : Dict → Val
  | [] => .dnil
  | (k, v) :: r => .dcons k v (toVal r)

end Dict

/-! ## occurrences handed over by Home Assistant and the `func_args` constructors -/

/-- one occurrence: a bus event, an MQTT message given to the handler made for subscription `sub`, or a webhook
request (JSON body or form fields; `form` may repeat keys – a multidict) -/
inductive Occ where
  | event (etype : String) (data : Dict) (ctx : Ctx)
  | mqtt (sub topic payload : String) (qos : Nat) (retain : Bool) (json : Option Val)
  | webhook (wid : String) (isJson : Bool) (body : Val) (form : Dict)
deriving Repr

def Occ.kind : Occ → Kind
  | .event .. => .event
  | .mqtt .. => .mqtt
  | .webhook .. => .webhook

/-- the table key the occurrence is delivered under: event type / subscribed topic / webhook id -/
def Occ.key : Occ → String
  | .event t _ _ => t
  | .mqtt s _ _ _ _ _ => s
  | .webhook w _ _ _ => w

/-- `Event.event_listener` / `_event_callback`: base keys then `func_args.update(event.data)` -/
def eventArgs (etype : String) (data : Dict) (c : Ctx) : Dict :=
  Dict.update [("trigger_type", .str "event"), ("event_type", .str etype), ("context", .ctx c)] data

/-- `mqtt_message_handler`: `payload_obj` only when `json.loads` succeeded -/
def mqttArgs (topic payload : String) (qos : Nat) (retain : Bool) (json : Option Val) : Dict :=
  let base : Dict := [("trigger_type", .str "mqtt"), ("topic", .str topic), ("payload", .str payload),
                      ("qos", .int qos), ("retain", .bool retain)]
  match json with
  | some j => base.set "payload_obj" j
  | Option.none => base

/-- `{k: multidict.getone(k) for k in multidict.keys()}` – first value of every key -/
def formDict (form : Dict) : Dict :=
  form.foldl (fun acc kv => acc.set kv.1 ((form.get kv.1).getD kv.2)) []

/-- `webhook_handler`: payload from JSON or from the form -/
def webhookArgs (wid : String) (isJson : Bool) (body : Val) (form : Dict) : Dict :=
  let base : Dict := [("trigger_type", .str "webhook"), ("webhook_id", .str wid)]
  base.set "payload" (if isJson then body else (formDict form).toVal)

def funcArgs : Occ → Dict
  | .event t d c => eventArgs t d c
  | .mqtt _ t p q r j => mqttArgs t p q r j
  | .webhook w j b f => webhookArgs w j b f

/-! ## trigger decorators -/

/-- one `@event_trigger` / `@mqtt_trigger` / `@webhook_trigger` decorator.  The filter expression is an ARBITRARY
function of the keyword dictionary; `none` as a result = the expression raised (logged, treated as false). -/
structure Dec where
  kind : Kind
  key : String
  filt : Option (Dict → Option Bool)
  kwargs : Dict

/-- `_call_expression` / `check_expression_vars`: no expression ⇒ ok; exception ⇒ false -/
def callExpr (f : Option (Dict → Option Bool)) (a : Dict) : Bool :=
  match f with
  | Option.none => true
  | some g => (g a).getD false

/-- the keyword arguments of a run: `func_args.update(kwargs)` -/
def runArgs (d : Dec) (a : Dict) : Dict := a.update d.kwargs

/-- `call_action` / `dispatch`: new context whose parent is the incoming one when `func_args["context"]` is a Context -/
def mkCtx (fresh : Nat) (args : Dict) : Ctx :=
  match args.get "context" with
  | some (.ctx c) => { id := fresh, parent := some c.id }
  | _ => { id := fresh, parent := Option.none }

/-! ## `Function.event_fire`, `State.set`, `service.call`: which context an emission carries -/

inductive EmitKind where
  | event | state | service
deriving DecidableEq, Repr

structure Emission where
  kind : EmitKind
  name : String
  data : Dict
  ctx : Option Ctx
deriving Repr

abbrev T2C := List (Nat × Ctx)

def T2C.get : T2C → Nat → Option Ctx
  | [], _ => Option.none
  | (t, c) :: r, k => if t = k then some c else T2C.get r k

/-- `event_fire`: an explicit `context=` keyword that IS a Context is used and removed from the data; otherwise the
context stored for the current task (`task2context`) -/
def eventFire (t2c : T2C) (task : Nat) (ek : EmitKind) (name : String) (kw : Dict) : Emission :=
  match kw.get "context" with
  | some (.ctx c) => { kind := ek, name := name, data := kw.erase "context", ctx := some c }
  | _ => { kind := ek, name := name, data := kw, ctx := t2c.get task }

/-! ## shared pieces of both machines -/

structure Run where
  dec : Nat            -- legacy: unit index; new: decorator index
  kind : Kind
  args : Dict
  ctx : Ctx
deriving Repr

def upd {α} (f : Nat → α) (i : Nat) (v : α) : Nat → α := fun j => if j = i then v else f j

/-- subscription tables: kind → key → subscribers (a python `set`: no duplicates; `[]` = no entry, no listener) -/
abbrev Table := Kind → String → List Nat

def Table.empty : Table := fun _ _ => []

def Table.add (n : Table) (k : Kind) (key : String) (q : Nat) : Table :=
  fun k' key' => if k' = k ∧ key' = key then (if q ∈ n k key then n k key else n k key ++ [q]) else n k' key'

/-- steps of a schedule (shared by both machines).  `fire` = Home Assistant hands over an external occurrence;
`take i` = legacy: the watch task of unit `i` dequeues one message / new: the head callback task runs (index
ignored); `emit r …` = run number `r` (index into `started`) fires an event / sets a state / calls a service, an
event is handed back to the bus; `finish r` = run `r` ends. -/
inductive Ext where
  | event (etype : String) (data : Dict)                 -- context allocated by the bus
  | mqtt (sub topic payload : String) (qos : Nat) (retain : Bool) (json : Option Val)
  | webhook (wid : String) (isJson : Bool) (body : Val) (form : Dict)
deriving Repr

inductive Step where
  | fire (e : Ext)
  | take (i : Nat)
  | emit (r : Nat) (ek : EmitKind) (name : String) (kw : Dict)
  | finish (r : Nat)
deriving Repr

def Ext.toOcc (fresh : Nat) : Ext → Occ
  | .event t d => .event t d { id := fresh, parent := Option.none }
  | .mqtt s t p q r j => .mqtt s t p q r j
  | .webhook w j b f => .webhook w j b f

/-! ## legacy machine -/
namespace Legacy

/-- a `TrigInfo`: at most one decorator of each kind, one queue -/
abbrev LUnit := Kind → Option Dec

def unitDec (units : List LUnit) (u : Nat) (k : Kind) : Option Dec :=
  match units[u]? with
  | some un => un k
  | Option.none => Option.none

/-- `trigger_init`: "each trigger task can handle at most one of each type of trigger": unit `i` gets the `i`-th
decorator of every kind (`trig_decs[trig].pop(0)` until all are consumed) -/
def nthOfKind (decs : List Dec) (k : Kind) (i : Nat) : Option Dec := (decs.filter (fun d => d.kind = k))[i]?

def kindCount (decs : List Dec) (k : Kind) : Nat := (decs.filter (fun d => d.kind = k)).length

def unitCount (decs : List Dec) : Nat :=
  max (kindCount decs .event) (max (kindCount decs .mqtt) (kindCount decs .webhook))

def mkUnits (decs : List Dec) : List LUnit :=
  (List.range (unitCount decs)).map (fun i => fun k => nthOfKind decs k i)

/-- all `TrigInfo`s of a set of functions (each function = its stacked decorators) -/
def allUnits (fs : List (List Dec)) : List LUnit := (fs.map mkUnits).flatten

structure State where
  notify : Table                       -- Event.notify / Mqtt.notify / Webhook.notify
  queues : Nat → List (Kind × Dict)    -- TrigInfo.notify_q of every unit
  started : List Run                   -- tasks created by call_action, in creation order
  t2c : T2C                            -- Function.task2context
  log : List Occ                       -- ghost: every occurrence handed over so far
  emitted : List Emission
  nextId : Nat                         -- context ids
  finished : List Nat

/-- `trigger_watch` start-up: `notify_add` for the event, mqtt and webhook decorator of the unit (code order) -/
def subscribeUnit (n : Table) (u : Nat) (un : LUnit) : Table :=
  let n1 := match un .event with | some d => n.add .event d.key u | Option.none => n
  let n2 := match un .mqtt with | some d => n1.add .mqtt d.key u | Option.none => n1
  match un .webhook with | some d => n2.add .webhook d.key u | Option.none => n2

def setupFrom : Nat → List LUnit → Table → Table
  | _, [], n => n
  | u, un :: rest, n => setupFrom (u + 1) rest (subscribeUnit n u un)

def init (units : List LUnit) : State :=
  { notify := setupFrom 0 units Table.empty, queues := fun _ => [], started := [], t2c := [], log := [],
    emitted := [], nextId := 0, finished := [] }

/-- `update`: `for queue in notify[key]: await queue.put([kind, func_args.copy()])` -/
def putAll (qs : Nat → List (Kind × Dict)) (targets : List Nat) (m : Kind × Dict) : Nat → List (Kind × Dict) :=
  targets.foldl (fun q t => upd q t (q t ++ [m])) qs

/-- a queue map as a value.  `putAll …` is a function-valued definition: compiled code keeps the partial application
and would re-run the whole fan-out (and, nested, every earlier one) at each look-up – exponential in the number of
undelivered occurrences.  `putAllQ` computes the same map once (`putAllQ_get` in `Lemmas/C08.lean` proves
`(putAllQ qs ts m).get = putAll qs ts m`); `deliver` stores that value. -/
structure QMap where
  get : Nat → List (Kind × Dict)

def putAllQ (qs : Nat → List (Kind × Dict)) (targets : List Nat) (m : Kind × Dict) : QMap :=
  targets.foldl (fun q t => ⟨upd q.get t (q.get t ++ [m])⟩) ⟨qs⟩

/-- listener: build `func_args`, fan out (`putAll`, evaluated once) -/
def deliver (st : State) (o : Occ) : State :=
  { st with queues := (putAllQ st.queues (st.notify o.kind o.key) (o.kind, funcArgs o)).get, log := st.log ++ [o] }

/-- `call_action`: context, `create_task` (never awaited), `store_hass_context` in the new task -/
def callAction (st : State) (u : Nat) (k : Kind) (args : Dict) : State :=
  let c := mkCtx st.nextId args
  { st with started := st.started ++ [{ dec := u, kind := k, args := args, ctx := c }],
            t2c := st.t2c ++ [(st.started.length, c)], nextId := st.nextId + 1 }

/-- the event / mqtt / webhook branch of `trigger_watch` for one dequeued message -/
def handleMsg (units : List LUnit) (st : State) (u : Nat) (m : Kind × Dict) : State :=
  match unitDec units u m.1 with
  | Option.none => st
  | some d => if callExpr d.filt m.2 then callAction st u m.1 (runArgs d m.2) else st

def take (units : List LUnit) (st : State) (u : Nat) : State :=
  match st.queues u with
  | [] => st
  | m :: r => handleMsg units { st with queues := upd st.queues u r } u m

def fire (st : State) (e : Ext) : State :=
  deliver { st with nextId := st.nextId + 1 } (e.toOcc st.nextId)

/-- an emission of run `r`; events go back to the bus (a missing context is replaced by a fresh one there) -/
def emit (st : State) (r : Nat) (ek : EmitKind) (name : String) (kw : Dict) : State :=
  let em := eventFire st.t2c r ek name kw
  let st1 := { st with emitted := st.emitted ++ [em] }
  match ek with
  | .event =>
    let c := em.ctx.getD { id := st.nextId, parent := Option.none }
    deliver { st1 with nextId := st.nextId + 1 } (.event name em.data c)
  | _ => st1

def step (units : List LUnit) (st : State) : Step → State
  | .fire e => fire st e
  | .take u => take units st u
  | .emit r ek name kw => emit st r ek name kw
  | .finish r => { st with finished := st.finished ++ [r] }

def exec (units : List LUnit) (s : List Step) : State := s.foldl (step units) (init units)

def Quiescent (st : State) : Prop := ∀ u, st.queues u = []

/-- keyword dictionaries of the runs started for decorator `(u, k)`, in creation order -/
def startedOf (st : State) (u : Nat) (k : Kind) : List Dict :=
  (st.started.filter (fun r => r.dec = u ∧ r.kind = k)).map (·.args)

end Legacy

/-! ## new machine -/
namespace New

structure State where
  listeners : Table                    -- bus listeners / mqtt subscriptions / webhook listeners per key, in order
  ready : List (Nat × Occ)             -- callback tasks created by the bus, FIFO
  started : List Run
  t2c : T2C
  log : List Occ
  emitted : List Emission
  nextId : Nat
  finished : List Nat

/-- deviation flags of the new subsystem: `true` = the shape the code had before the `fix:` commit, `false` = the
repaired shape.  `Flags.current` is what the correspondence check ties to the working tree. -/
structure Flags where
  /-- every `WebhookTriggerDecorator.start` registers its OWN handler with Home Assistant, whose
  `webhook.async_register` raises when the webhook id already has one ("Handler is already defined!") – the second
  function using an id fails to start (finding C08-F1).  Repaired: the decorators of one id share ONE registration
  (`hass.data["pyscript.webhook_trigger"][id]` = the decorators in start order; the first `start` registers
  `_shared_handler`, which hands the request to each of them; the last `stop` unregisters) – like `Webhook.notify`
  of the legacy subsystem. -/
  webhookExclusive : Bool
deriving DecidableEq, Repr

def Flags.current : Flags := { webhookExclusive := false }
def Flags.preFix : Flags := { webhookExclusive := true }

/-- `DecoratorManager.start` of one function: `start()` of every decorator in order (decorator `i` = global index).
`bus.async_listen` and `mqtt.async_subscribe` always succeed; pre-fix a webhook id that already has a handler makes
the start FAIL (`none`); repaired, the decorator joins the id's listener list. -/
def startDecs (fl : Flags) : Nat → List Dec → Table → Option Table
  | _, [], n => some n
  | i, d :: rest, n =>
    if fl.webhookExclusive = true ∧ d.kind = .webhook ∧ n .webhook d.key ≠ [] then Option.none
    else startDecs fl (i + 1) rest (n.add d.kind d.key i)

/-- all functions in order; a failed start stops the decorators already started for THAT function (their listeners
are removed again: the table is what it was) and the function stays without any trigger (status `invalid`) -/
def setupFuncs (fl : Flags) : Nat → List (List Dec) → Table → Table
  | _, [], n => n
  | i0, f :: rest, n =>
    setupFuncs fl (i0 + f.length) rest (match startDecs fl i0 f n with | some n' => n' | Option.none => n)

def init (fl : Flags) (fs : List (List Dec)) : State :=
  { listeners := setupFuncs fl 0 fs Table.empty, ready := [], started := [], t2c := [], log := [], emitted := [],
    nextId := 0, finished := [] }

/-- the bus creates one callback task per listener of the key; a webhook request is handed to the listeners of its
id one after the other by `_shared_handler` (same order, and `take` runs the callbacks in FIFO order anyway) -/
def deliver (st : State) (o : Occ) : State :=
  { st with ready := st.ready ++ (st.listeners o.kind o.key).map (fun i => (i, o)), log := st.log ++ [o] }

/-- `FunctionDecoratorManager.dispatch`: context, `create_task`; `_call` stores the context for the task -/
def dispatch (st : State) (i : Nat) (k : Kind) (args : Dict) : State :=
  let c := mkCtx st.nextId args
  { st with started := st.started ++ [{ dec := i, kind := k, args := args, ctx := c }],
            t2c := st.t2c ++ [(st.started.length, c)], nextId := st.nextId + 1 }

/-- `_event_callback` / `_mqtt_message_handler` / `_handler`: func_args, filter, `TriggerDecorator.dispatch` -/
def callback (decs : List Dec) (st : State) (i : Nat) (o : Occ) : State :=
  match decs[i]? with
  | Option.none => st
  | some d => if callExpr d.filt (funcArgs o) then dispatch st i o.kind (runArgs d (funcArgs o)) else st

def take (decs : List Dec) (st : State) : State :=
  match st.ready with
  | [] => st
  | (i, o) :: r => callback decs { st with ready := r } i o

def fire (st : State) (e : Ext) : State :=
  deliver { st with nextId := st.nextId + 1 } (e.toOcc st.nextId)

def emit (st : State) (r : Nat) (ek : EmitKind) (name : String) (kw : Dict) : State :=
  let em := eventFire st.t2c r ek name kw
  let st1 := { st with emitted := st.emitted ++ [em] }
  match ek with
  | .event =>
    let c := em.ctx.getD { id := st.nextId, parent := Option.none }
    deliver { st1 with nextId := st.nextId + 1 } (.event name em.data c)
  | _ => st1

def step (decs : List Dec) (st : State) : Step → State
  | .fire e => fire st e
  | .take _ => take decs st
  | .emit r ek name kw => emit st r ek name kw
  | .finish r => { st with finished := st.finished ++ [r] }

def exec (fl : Flags) (fs : List (List Dec)) (s : List Step) : State := s.foldl (step fs.flatten) (init fl fs)

/-- decorator `i` (= `d`) has its listener registered after start-up, i.e. its function started -/
def registered (fl : Flags) (fs : List (List Dec)) (i : Nat) (d : Dec) : Prop :=
  i ∈ (init fl fs).listeners d.kind d.key

def Quiescent (st : State) : Prop := st.ready = []

def startedOf (st : State) (i : Nat) : List Dict :=
  (st.started.filter (fun r => r.dec = i)).map (·.args)

end New

end PsModel.C08
