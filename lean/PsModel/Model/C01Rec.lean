import PsModel.Model.C01
/-!
# C01 recorder – the concrete `Prims` used by the driver and by the counterexample theorems

Every primitive appends one event naming the operation and the canonical names of its operands, and returns a fresh
opaque value `V<n>`.  Decisions (truthiness, comparison results, iterator lengths, "does this tracer raise") come from
a tape.  Containers, strings and slices are built without events (as the host does) and are named structurally.
The Python side of the correspondence (`harness/run_C01.py`, class `V`) logs the same events from its dunder methods.
-/
namespace PsModel.C01

inductive Obj where
  | seq (kind : Nat) (es : List Nat)
  | dict (ps : List (Nat × Nat))
  | str (s : String)
  | slice (a b c : Option Nat)
deriving Repr

structure RW where
  log : List String := []
  tape : List Nat := []
  nextV : Nat := 1000
  nextO : Nat := 1000000
  objs : List (Nat × Obj) := []
deriving Repr

namespace RW
def obj? (w : RW) (v : Nat) : Option Obj := (w.objs.find? (fun p => p.1 == v)).map (·.2)
def pop (w : RW) : Nat × RW :=
  match w.tape with
  | [] => (0, w)
  | b :: t => (b, { w with tape := t })
def emit (w : RW) (s : String) : RW := { w with log := w.log ++ [s] }
def freshV (w : RW) : Nat × RW := (w.nextV, { w with nextV := w.nextV + 1 })
def alloc (w : RW) (o : Obj) : Nat × RW := (w.nextO, { w with nextO := w.nextO + 1, objs := (w.nextO, o) :: w.objs })
end RW

def optName (f : Nat → String) : Option Nat → String
  | none => "None"
  | some v => f v

/-- canonical operand name; fuel bounds the nesting of containers -/
def nameOf (w : RW) : Nat → Nat → String
  | 0, _ => "?"
  | fuel+1, v =>
    if v < 1000 then toString v
    else if v < 1000000 then s!"V{v - 1000}"
    else match w.obj? v with
      | some (.seq k es) =>
        let names := es.map (nameOf w fuel)
        let inner := ",".intercalate names
        if k = 0 then s!"[{inner}]" else if k = 1 then s!"({inner})"
        else "{" ++ ",".intercalate ((names.eraseDups.toArray.qsort (· < ·)).toList) ++ "}"   -- sets: canonical order
      | some (.dict ps) => "{" ++ ",".intercalate (ps.map fun p => nameOf w fuel p.1 ++ ":" ++ nameOf w fuel p.2) ++ "}"
      | some (.str s) => s!"'{s}'"
      | some (.slice a b c) => s!"slice({optName (nameOf w fuel) a},{optName (nameOf w fuel) b},{optName (nameOf w fuel) c})"
      | none => "?"

def nm (w : RW) (v : Nat) : String := nameOf w 8 v

def opName (kind : String) (op : Nat) : String := s!"{kind}{op}"

/-- one event + fresh opaque result -/
def evFresh (w : RW) (s : String) : R RW Val :=
  let (v, w1) := (w.emit s).freshV
  (.ok v, w1)

def strOf (w : RW) (v : Nat) : String :=
  if 900 ≤ v && v < 1000 then s!"k{v - 900}"        -- string constants (keyword names) of the harness
  else if v < 1000 then toString v else
  match w.obj? v with
  | some (.str s) => s
  | _ => nm w v

/-- `salt` fixes the (pure) truthiness of the opaque operands for one run: truth(V n) = ((1000+n)*7+salt) % 3 ≠ 0 -/
def recorder (salt : Nat := 0) : Prims RW where
  leaf i w :=
    let (d, w1) := (w.emit s!"T({i})").pop
    if d = 7 then (.error (.prim i), w1) else let (v, w2) := w1.freshV; (.ok v, w2)
  binop op a b w := evFresh w s!"bin{op}({nm w a},{nm w b})"
  iop op a b w := evFresh w s!"iop{op}({nm w a},{nm w b})"
  unary op a w := evFresh w s!"un{op}({nm w a})"
  cmp op a b w :=
    if op = 8 then (.ok (a == b), w)                 -- is
    else if op = 9 then (.ok (a != b), w)            -- is not
    else if op = 10 then let (d, w1) := (w.emit s!"contains({nm w b},{nm w a})").pop; (.ok (d % 2 = 1), w1)
    else if op = 11 then let (d, w1) := (w.emit s!"contains({nm w b},{nm w a})").pop; (.ok (d % 2 ≠ 1), w1)
    else let (d, w1) := (w.emit s!"cmp{op}({nm w a},{nm w b})").pop; (.ok (d % 2 = 1), w1)
  truth a w :=
    if a < 1000 then a ≠ 0 else if a < 1000000 then (a * 7 + salt) % 3 ≠ 0
    else match w.obj? a with
      | some (.seq _ es) => !es.isEmpty
      | some (.dict ps) => !ps.isEmpty
      | some (.str s) => !s.isEmpty
      | _ => true
  iter a w :=
    match w.obj? a with
    | some (.seq _ es) => (.ok es, w)
    | _ =>
      let (d, w1) := (w.emit s!"iter({nm w a})").pop
      let k := d % 3
      let vs := (List.range k).map (fun j => w1.nextV + j)
      (.ok vs, { w1 with nextV := w1.nextV + k })
  getitem a i w := evFresh w s!"getitem({nm w a},{nm w i})"
  setitem a i v w := (.ok (), w.emit s!"setitem({nm w a},{nm w i},{nm w v})")
  delitem a i w := (.ok (), w.emit s!"delitem({nm w a},{nm w i})")
  getattr a n w := evFresh w s!"getattr({nm w a},{n})"
  setattr a n v w := (.ok (), w.emit s!"setattr({nm w a},{n},{nm w v})")
  call f args kws w :=
    evFresh w (s!"call({nm w f};" ++ ",".intercalate (args.map (nm w)) ++ ";" ++
      ",".intercalate (kws.map fun p => p.1 ++ "=" ++ nm w p.2) ++ ")")
  kwkeys a w :=
    match w.obj? a with
    | some (.dict ps) => (.ok (ps.map fun p => (strOf w p.1, p.2)), w)
    | _ => (.error .typeError, w)
  mkslice a b c w := let (v, w1) := w.alloc (.slice a b c); (.ok v, w1)
  mkseq k es w := let (v, w1) := w.alloc (.seq k es); (.ok v, w1)
  mkdict ps w :=
    -- `none` key = `**mapping`: merged in place (later keys replace earlier values, keeping the first position)
    let put (acc : List (Nat × Nat)) (k v : Nat) : List (Nat × Nat) :=
      if acc.any (fun p => nm w p.1 == nm w k) then acc.map (fun p => if nm w p.1 == nm w k then (p.1, v) else p)
      else acc ++ [(k, v)]
    let merged := ps.foldl (fun acc p =>
      match p.1 with
      | some k => put acc k p.2
      | none => match w.obj? p.2 with
        | some (.dict qs) => qs.foldl (fun acc q => put acc q.1 q.2) acc
        | _ => acc) []
    let (v, w1) := w.alloc (.dict merged); (.ok v, w1)
  format a conv spec w :=
    if a < 1000 && conv.isNone && spec.isNone then let (v, w1) := w.alloc (.str (toString a)); (.ok v, w1)
    else match w.obj? a, conv, spec with
      | some (.str s), none, none => let (v, w1) := w.alloc (.str s); (.ok v, w1)
      | _, _, _ =>
        match conv with
        | some c =>
          -- repr()/str() of an operand: silent (see harness), only the resulting text is observable
          let (v, w2) := w.alloc (.str s!"<c{c}:{nm w a}>"); (.ok v, w2)
        | none =>
          let sp := match spec with | some s => strOf w s | none => ""
          let w1 := w.emit s!"format({nm w a},'{sp}')"
          let (v, w2) := w1.alloc (.str s!"<f:{nm w a}:{sp}>"); (.ok v, w2)
  join parts w := let (v, w1) := w.alloc (.str (String.join (parts.map (strOf w)))); (.ok v, w1)
  ofBool b := if b then 1 else 0

end PsModel.C01
