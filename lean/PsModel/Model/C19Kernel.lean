import PsModel.Gen.KernelMsgs
import PsModel.Model.C19
/-!
# C19 model, part 2 – the rest of the kernel as it is coded

* `ZmqSocket.send_cmd` → `encodeCmd`, the READY command → `readyCmd`
* `ZmqSocket.handshake` → `handshake` (alternating literal writes and fixed-size reads, then READY; the literals, the
  read sizes and whether the bytes read are looked at come from `Gen.KernelMsgs`, regenerated from the source every run)
* `Kernel.send` → `serialize`, `Kernel.deserialize_wire_msg` → `deserialize` (first `DELIM`, signature frame, four JSON
  frames decoded in order, then the MAC over ALL frames after the signature)
* `Kernel.shell_handler` → `shellHandle` – the elif chain is table driven (`Gen.SHELL_REPLY_TABLE`), the
  `is_complete_request` decision is `isComplete`, the `complete_request` cursor arithmetic is `complRoot`
* `Kernel.control_listen` → `controlHandle`, `heartbeat_listen` → `hbEcho`, `iopub_listen` / `stdin_listen` read and drop
* `Kernel.housekeep_run` / `session_shutdown` → `hkStep` / `sessionShutdown`
* one connection end to end (`shell_listen`: handshake, then frames → deserialize → handler until EOF or an exception) →
  `shellConn`

Message-type names are byte lists (`Gen.N_*`), the interpreter / parser / JSON / HMAC are parameters.
-/
namespace PsModel.C19
open PsModel.Gen

/-! ## 1. commands -/

def encParam (p : Bytes × Bytes) : Bytes :=
  [p.1.length] ++ p.1 ++ be CMD_VALUE_LEN_BYTES p.2.length ++ p.2

def cmdBody (name : Bytes) (params : List (Bytes × Bytes)) : Bytes :=
  [name.length] ++ name ++ (params.map encParam).flatten

/-- `send_cmd(cmd, params)` -/
def encodeCmd (name : Bytes) (params : List (Bytes × Bytes)) : Bytes :=
  let b := cmdBody name params
  if b.length ≤ CMD_SHORT_MAX then [CMD_FLAG_SHORT, b.length] ++ b
  else [CMD_FLAG_LONG] ++ be CMD_LONG_LEN_BYTES b.length ++ b

/-- `params = [["Socket-Type", self.type]]`, plus `["Identity", ""]` for a ROUTER -/
def readyParams (sockType : Bytes) : List (Bytes × Bytes) :=
  if sockType = HS_ROUTER then [(HS_PARAM_TYPE, sockType), (HS_PARAM_IDENTITY, [])] else [(HS_PARAM_TYPE, sockType)]

def readyCmd (sockType : Bytes) : Bytes := encodeCmd HS_CMD (readyParams sockType)

/-! ## 2. the greeting -/

inductive HsStatus | ok | eof | bad
deriving Repr, DecidableEq

structure HsResult where
  written : Bytes
  status : HsStatus
  rest : List Bytes
deriving Repr

/-- the NULL mechanism name padded to 20 bytes -/
def mechNull : Bytes := [78, 85, 76, 76, 0, 0, 0, 0, 0, 0, 0, 0, 0, 0, 0, 0, 0, 0, 0, 0]

/-- what a validating handshake checks on the bytes of read number `i` (signature, major version, minor+mechanism+rest) -/
def stageOk : Nat → Bytes → Bool
  | 0, b => b.head? == some 255 && b.getLast? == some 127
  | 1, b => decide (3 ≤ b.headD 0)
  | 2, b => (b.drop 1).take 20 == mechNull
  | _, _ => true

/-- `handshake()`: write literal i, read `n_i` bytes, (look at them), … -/
def hsLoop (validate : Bool) : Nat → List (Bytes × Nat) → Bytes → List Bytes → HsResult
  | _, [], out, cs => ⟨out, .ok, cs⟩
  | i, (w, n) :: steps, out, cs =>
    match readBytes n cs with
    | none => ⟨out ++ w, .eof, []⟩
    | some (d, cs') =>
      if validate && !stageOk i d then ⟨out ++ w, .bad, cs'⟩
      else hsLoop validate (i + 1) steps (out ++ w) cs'

def hsSteps : List (Bytes × Nat) := HS_WRITES.zip HS_READS

def handshake (validate : Bool) (sockType : Bytes) (cs : List Bytes) : HsResult :=
  let r := hsLoop validate 0 hsSteps [] cs
  match r.status with
  | .ok => { r with written := r.written ++ readyCmd sockType }
  | _ => r

/-! ## 3. wire messages -/

/-- `Kernel.send`: `identities + [DELIM, signature, header, parent, metadata, content]` -/
def serialize (sign : List Bytes → Bytes) (idents : List Bytes) (frames : List Bytes) : List Bytes :=
  idents ++ [DELIM, sign frames] ++ frames

inductive DesErr
  | noDelim       -- `wire_msg.index(DELIM)` raises ValueError
  | index         -- IndexError: no signature frame / fewer than four frames after it
  | json          -- a frame that does not decode
  | sig           -- ValueError("Signatures do not match")
deriving Repr, DecidableEq

/-- `wire_msg.index(DELIM)`: identities before the FIRST delimiter, everything after it -/
def splitDelim : List Bytes → Option (List Bytes × List Bytes)
  | [] => none
  | f :: rest =>
    if f = DELIM then some ([], rest)
    else match splitDelim rest with
      | some (ids, after) => some (f :: ids, after)
      | none => none

/-- `msg["header"] = decode(msg_frames[0])` … `decode(msg_frames[3])`, in this order -/
def decodeFrames (jsonOk : Bytes → Bool) : Nat → List Bytes → Option DesErr
  | 0, _ => none
  | _ + 1, [] => some .index
  | n + 1, f :: fs => if jsonOk f then decodeFrames jsonOk n fs else some .json

def deserialize (sign : List Bytes → Bytes) (jsonOk : Bytes → Bool) (wire : List Bytes) :
    Except DesErr (List Bytes × List Bytes) :=
  match splitDelim wire with
  | none => .error .noDelim
  | some (_, []) => .error .index
  | some (ids, sg :: frames) =>
    match decodeFrames jsonOk 4 frames with
    | some e => .error e
    | none => if sign frames = sg then .ok (ids, frames) else .error .sig

/-! ## 4. `is_complete_request` and `complete_request` -/

/-- what `ast_ctx.parse(code)` did -/
inductive ParseOutcome
  | ok
  /-- any exception: `isSyntax` – it is a SyntaxError; `eofish` – "EOF while" or "expected an indented block" occurs in
  `str(exc)`; `lineno` – `none`: no such attribute, `some none`: the attribute is None, `some (some n)` -/
  | exc (isSyntax : Bool) (eofish : Bool) (lineno : Option (Option Nat))
deriving Repr, DecidableEq

inductive IsComplete | complete | incomplete (indent : Nat) | invalid | crash
deriving Repr, DecidableEq

/-- `code.rfind("\n")` -/
def rfindNl : List Nat → Option Nat
  | [] => none
  | c :: cs =>
    match rfindNl cs with
    | some i => some (i + 1)
    | none => if c = 10 then some 0 else none

/-- the `while i + 1 < len(code) and code[i + 1] == " "` loop after `rfind` -/
def lastIndent (code : List Nat) : Nat :=
  match rfindNl code with
  | none => 0
  | some i => ((code.drop (i + 1)).takeWhile (· = 32)).length

/-- `code.split("\n")` -/
def splitNl : List Nat → List (List Nat)
  | [] => [[]]
  | c :: cs =>
    match splitNl cs with
    | [] => [[]]
    | l :: ls => if c = 10 then [] :: l :: ls else (c :: l) :: ls

/-- `colon_end_re = r".*: *(#.*)?$"` matched against one line -/
def colonEnd : List Nat → Bool
  | [] => false
  | c :: cs =>
    (c = 58 && (match cs.dropWhile (· = 32) with | [] => true | d :: _ => d = 35)) || colonEnd cs

/-- the `is_complete_request` branch.  `catchAll`: the handler is `except Exception` (the code as it is); with a handler
for SyntaxError only, any other exception leaves `shell_handler`. -/
def isComplete (catchAll : Bool) (code : List Nat) (p : ParseOutcome) : IsComplete :=
  let indent := lastIndent code
  match p with
  | .ok => if indent = 0 then .complete else .incomplete indent
  | .exc isSyntax eofish lineno =>
    if !catchAll && !isSyntax then .crash
    else if eofish then
      match lineno with
      | none => .incomplete indent
      | some none => .crash                                  -- `None - 1`
      | some (some 0) =>                                     -- index -1: the last line
        if colonEnd ((splitNl code).getLastD []) then .incomplete (indent + 4) else .incomplete indent
      | some (some (n + 1)) =>
        match (splitNl code)[n]? with
        | none => .crash                                     -- IndexError
        | some line => if colonEnd line then .incomplete (indent + 4) else .incomplete indent
    else .invalid

def isWordByte (c : Nat) : Bool :=
  (48 ≤ c && c ≤ 57) || (65 ≤ c && c ≤ 90) || (97 ≤ c && c ≤ 122) || c = 95 || c = 46 || 128 ≤ c

/-- longest suffix of `[\w.]` characters (ASCII) -/
def wordSuffix (s : List Nat) : List Nat := (s.reverse.takeWhile isWordByte).reverse

/-- `completion_re = r".*?([\w.]*)$"` (DOTALL) on `code[0:posn]`: `$` also matches before a final newline -/
def complRoot (s : List Nat) : List Nat :=
  if s.getLast? = some 10 then wordSuffix s.dropLast else wordSuffix s

/-! ## 5. the handlers -/

inductive Chan | shell | control | iopub | stdin | hb
deriving Repr, DecidableEq

inductive Sub | none | busy | idle | ok | error | complete | incomplete (indent : Nat) | invalid
deriving Repr, DecidableEq

/-- one message emitted by `Kernel.send` -/
structure KOut where
  chan : Chan
  idents : List Bytes
  mtype : Bytes
  sub : Sub := .none
  parent : Nat
  count : Option Nat := none
  payload : Option Nat := none
deriving Repr, DecidableEq

/-- what the four JSON frames say (JSON itself is outside the model) -/
structure Info where
  header : Nat
  mtype : Bytes
  storeHistory : Bool := true
  cell : Nat := 0
  code : List Nat := []          -- the code string of is_complete / complete requests
  parse : ParseOutcome := .ok    -- what the parser says about it
deriving Repr

def pub (i : Info) (ty : Bytes) (sub : Sub := .none) (count : Option Nat := none) (payload : Option Nat := none) : KOut :=
  { chan := .iopub, idents := [], mtype := ty, sub := sub, parent := i.header, count := count, payload := payload }

def rep (ch : Chan) (ids : List Bytes) (i : Info) (ty : Bytes) (sub : Sub := .none) (count : Option Nat := none)
    (payload : Option Nat := none) : KOut :=
  { chan := ch, idents := ids, mtype := ty, sub := sub, parent := i.header, count := count, payload := payload }

def isCompleteSub : IsComplete → Sub
  | .complete => .complete
  | .incomplete n => .incomplete n
  | .invalid => .invalid
  | .crash => .none

structure Handled where
  state : KState
  outs : List KOut
  crashed : Bool := false        -- an exception left `shell_handler` (the listener queues a session shutdown)
deriving Repr

/-- `shell_handler` after `deserialize_wire_msg` succeeded -/
def shellHandle (catchAll : Bool) (run : Nat → CellResult) (s : KState) (ids : List Bytes) (i : Info) : Handled :=
  let s1 := { s with parentHeader := some i.header }
  let busy := pub i N_status .busy
  let idle := pub i N_status .idle
  if i.mtype = N_execute_request then
    let s2 := { s1 with executed := s1.executed ++ [i.cell], count := if i.storeHistory then s.count + 1 else s.count }
    let inp := pub i N_execute_input .none (some s.count)
    match run i.cell with
    | .error e =>
      ⟨s2, [busy, inp, rep .shell ids i N_execute_reply .error (some s.count) (some e), pub i N_error .none none (some e), idle], false⟩
    | .value v =>
      ⟨s2, [busy, inp, pub i N_execute_result .none (some s.count) (some v), rep .shell ids i N_execute_reply .ok (some s.count), idle], false⟩
    | .none =>
      ⟨s2, [busy, inp, rep .shell ids i N_execute_reply .ok (some s.count), idle], false⟩
  else if i.mtype = N_is_complete_request then
    match isComplete catchAll i.code i.parse with
    | .crash => ⟨s1, [busy], true⟩
    | r => ⟨s1, [busy, rep .shell ids i N_is_complete_reply (isCompleteSub r), idle], false⟩
  else
    match SHELL_REPLY_TABLE.lookup i.mtype with
    | some ty => ⟨s1, [busy, rep .shell ids i ty, idle], false⟩
    | none => ⟨s1, [busy, idle], false⟩          -- comm_open / comm_msg / comm_close, and unknown types (error log)

/-- the body of `control_listen`'s loop: the reply, and whether `["shutdown"]` is queued -/
def controlHandle (ids : List Bytes) (i : Info) : List KOut × Bool :=
  match CONTROL_REPLY_TABLE.lookup i.mtype with
  | some ty => ([rep .control ids i ty], CONTROL_REPLY_QUEUES_SHUTDOWN)
  | none => ([], false)

/-- `heartbeat_listen`: `send(recv())` -/
def hbEcho (cs : List Bytes) : Except RecvErr (Bytes × List Bytes) :=
  match recvSingle cs with
  | .ok (m, rest) => .ok (encodeSingle m, rest)
  | .error e => .error e

/-! ## 6. housekeeping and shutdown -/

inductive HkMsg | stdout | handshake | register | unregister | shutdown
deriving Repr, DecidableEq

structure Sess where
  k : KState := {}
  up : Bool := true              -- `iopub_server` is set: the session has not been shut down
  shutdowns : Nat := 0           -- how often the body of `session_shutdown` ran (contexts deleted, servers closed)
  hkAlive : Bool := true         -- `housekeep_run` is still taking messages off its queue
  taskCnt : Int := 0
  taskCntMax : Int := 0
  stdoutSent : Nat := 0
deriving Repr

/-- `session_shutdown()` -/
def sessionShutdown (s : Sess) : Sess :=
  if s.up then { s with up := false, shutdowns := s.shutdowns + 1, hkAlive := false } else s   -- cancels every task, housekeeping included

/-- one message taken off `housekeep_q` by `housekeep_run` -/
def hkStep (s : Sess) (m : HkMsg) : Sess :=
  if !s.hkAlive then s
  else match m with
    | .stdout => { s with stdoutSent := s.stdoutSent + 1 }
    | .handshake => s
    | .register =>
      let c := s.taskCnt + 1
      { s with taskCnt := c, taskCntMax := if s.taskCntMax < c then c else s.taskCntMax }
    | .unregister =>
      let c := s.taskCnt - 1
      if c = 0 ∧ 4 ≤ s.taskCntMax then { sessionShutdown { s with taskCnt := c } with hkAlive := false }
      else { s with taskCnt := c }
    | .shutdown => { sessionShutdown s with hkAlive := false }

/-- things that happen to a session: a housekeeping message, or `session_shutdown()` called from outside -/
inductive SessEv | hk (m : HkMsg) | external
deriving Repr, DecidableEq

def sessEv (s : Sess) : SessEv → Sess
  | .hk m => hkStep s m
  | .external => sessionShutdown s

def sessRun (s : Sess) (evs : List SessEv) : Sess := evs.foldl sessEv s

/-! ## 7. messages arriving on the channels of one session -/

inductive Ev
  | msg (ch : Chan) (wire : List Bytes)
deriving Repr

structure Env where
  sign : List Bytes → Bytes
  jsonOk : Bytes → Bool
  info : List Bytes → Info       -- what the (decodable) frames say
  run : Nat → CellResult
  catchAll : Bool

/-- a complete multipart message read by the listener of `ch`.  A listener that meets an exception other than EOF queues
`["shutdown"]`; housekeeping then shuts the session down and nothing more is handled. -/
def chanStep (E : Env) (s : Sess) (ch : Chan) (wire : List Bytes) : Sess × List KOut :=
  if !s.up then (s, [])
  else match ch with
    | .shell =>
      match deserialize E.sign E.jsonOk wire with
      | .error _ => (hkStep s .shutdown, [])
      | .ok (ids, frames) =>
        let h := shellHandle E.catchAll E.run s.k ids (E.info frames)
        let s' := { s with k := h.state }
        (if h.crashed then hkStep s' .shutdown else s', h.outs)
    | .control =>
      match deserialize E.sign E.jsonOk wire with
      | .error _ => (hkStep s .shutdown, [])
      | .ok (ids, frames) =>
        let r := controlHandle ids (E.info frames)
        (if r.2 then hkStep s .shutdown else s, r.1)
    | _ => (s, [])                     -- iopub / stdin: read and dropped (heartbeat is byte level: `hbEcho`)

/-- one entry of the session's history -/
structure Entry where
  before : Sess
  ch : Chan
  wire : List Bytes
  outs : List KOut
  after : Sess
deriving Repr

/-- the session's history: for each message in turn the state before, what was sent, the state after -/
def trace (E : Env) : Sess → List (Chan × List Bytes) → List Entry
  | _, [] => []
  | s, (ch, w) :: rest =>
    ⟨s, ch, w, (chanStep E s ch w).2, (chanStep E s ch w).1⟩ :: trace E (chanStep E s ch w).1 rest

def finalSess (E : Env) : Sess → List (Chan × List Bytes) → Sess
  | s, [] => s
  | s, (ch, w) :: rest => finalSess E (chanStep E s ch w).1 rest

/-! ## 8. one shell connection, bytes in → bytes out -/

inductive ConnEnd | eof | badGreeting | badCommand | badMessage (e : DesErr) | crashed
deriving Repr, DecidableEq

/-- `shell_listen` after the handshake: `while 1: shell_handler(recv_multipart())`.  Fuel: number of messages. -/
def shellLoop (E : Env) : Nat → KState → List Bytes → List (List KOut) → KState × List (List KOut) × ConnEnd
  | 0, k, _, acc => (k, acc, .eof)
  | fuel + 1, k, cs, acc =>
    match recvMultipart cs with
    | .error .eof => (k, acc, .eof)
    | .error .badCommand => (k, acc, .badCommand)
    | .ok (wire, cs') =>
      match deserialize E.sign E.jsonOk wire with
      | .error e => (k, acc, .badMessage e)
      | .ok (ids, frames) =>
        let h := shellHandle E.catchAll E.run k ids (E.info frames)
        if h.crashed then (h.state, acc ++ [h.outs], .crashed)
        else shellLoop E fuel h.state cs' (acc ++ [h.outs])

/-- `shell_listen`: greeting, then the loop -/
def shellConn (E : Env) (validate : Bool) (k : KState) (cs : List Bytes) : Bytes × KState × List (List KOut) × ConnEnd :=
  let r := handshake validate HS_ROUTER cs
  match r.status with
  | .eof => (r.written, k, [], .eof)
  | .bad => (r.written, k, [], .badGreeting)
  | .ok =>
    let l := shellLoop E (totalLen r.rest + 1) k r.rest []
    (r.written, l.1, l.2.1, l.2.2)

namespace Current
def validate : Bool := HS_VALIDATES
def catchAll : Bool := ISCOMPLETE_CATCHES_ALL
end Current

end PsModel.C19
