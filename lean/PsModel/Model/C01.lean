/-!
# C01 model – expression and assignment evaluators over ARBITRARY primitives

pyscript applies the host's operators to the host's objects, so "same values, same side effects, same exception
type as CPython" reduces to: *the same primitive operations are applied to the same operands in the same order, each
once*.  Values are opaque ids; every primitive (`binop`, `iop`, `unary`, `cmp`, `truth`, `iter`, `getitem`, `setitem`,
`delitem`, `getattr`, `setattr`, `call`, `format`, container builders …) is a field of `Prims W` – an arbitrary world
transformer over an arbitrary world type `W`.  Theorems quantify over all `Prims`; equality of two evaluators for all
`Prims` is exactly equality of their primitive-call sequences.

`eval cfg` mirrors, handler by handler, `eval.py`: `ast_binop_*`, `ast_unaryop_*`, `ast_compare`+`ast_cmpop_*`,
`ast_boolop`, `ast_ifexp`, `ast_subscript`, `ast_slice`, `ast_attribute`, `ast_call`, `eval_elt_list`,
`ast_list/tuple/set/dict`, `ast_joinedstr/ast_formattedvalue`, `ast_namedexpr`, `recurse_assign`, `ast_assign`,
`ast_augassign`, `ast_delete`.  Each handler whose shape deviates from Python today is written in BOTH shapes,
selected by one flag of `Cfg`; `Current.cfg` records what the code does now, `Cfg.python` is the language reference.
Name binding is a flat store (scoping is C03's subject).  Comprehensions (`ast_listcomp` / `ast_setcomp` /
`ast_dictcomp` with `listcomp_loop` / `setcomp_loop` / `dictcomp_loop`, `loopvar_scope_save` / `loopvar_scope_restore`)
are part of the evaluator; `ast_generatorexp` does not exist in eval.py (NotImplementedError), lambda is compiled
natively (not in this model).
-/
namespace PsModel.C01

abbrev Val := Nat

inductive Exc where
  | prim (k : Nat)        -- raised by a primitive (class chosen by the primitive)
  | nameError | typeError | valueError | notImplemented | attributeError
deriving Repr, DecidableEq

abbrev Store := List (String × Val)

def Store.get (σ : Store) (x : String) : Option Val := (σ.find? (fun p => p.1 == x)).map (·.2)
def Store.set (σ : Store) (x : String) (v : Val) : Store := (x, v) :: σ.filter (fun p => p.1 != x)
def Store.del (σ : Store) (x : String) : Store := σ.filter (fun p => p.1 != x)

/-- result of a primitive / an evaluation step -/
abbrev R (W : Type) (α : Type) := Except Exc α × W

structure Prims (W : Type) where
  leaf : Nat → W → R W Val                                  -- the tracer call `T(i)`
  binop : Nat → Val → Val → W → R W Val
  iop : Nat → Val → Val → W → R W Val                       -- in-place form (`__iadd__` …, falling back as the host does)
  unary : Nat → Val → W → R W Val                           -- 1 = invert, 2 = usub, 3 = uadd
  cmp : Nat → Val → Val → W → R W Bool
  truth : Val → W → Bool                                    -- reads the world, never changes it: truthiness of built-in values has no side effect
  iter : Val → W → R W (List Val)
  getitem : Val → Val → W → R W Val
  setitem : Val → Val → Val → W → R W Unit
  delitem : Val → Val → W → R W Unit
  getattr : Val → String → W → R W Val
  setattr : Val → String → Val → W → R W Unit
  call : Val → List Val → List (String × Val) → W → R W Val
  kwkeys : Val → W → R W (List (String × Val))              -- items of a `**mapping`
  mkslice : Option Val → Option Val → Option Val → W → R W Val
  mkseq : Nat → List Val → W → R W Val                      -- 0 list, 1 tuple, 2 set
  mkdict : List (Option Val × Val) → W → R W Val            -- `none` key = `**mapping` entry
  format : Val → Option Nat → Option Val → W → R W Val       -- value, conversion (!r/!s/!a), format spec
  join : List Val → W → R W Val
  ofBool : Bool → Val

/-- deviation flags: `true` = the Python-conforming shape of the handler -/
structure Cfg where
  dictKeyFirst : Bool      -- ast_dict evaluates key before value
  callArgsFirst : Bool     -- ast_call evaluates positional arguments before keywords
  compareOnce : Bool       -- ast_compare evaluates every operand once
  augTargetOnce : Bool     -- ast_augassign evaluates the target's sub-expressions once
  augInPlace : Bool        -- ast_augassign uses the in-place operator
  fstrConversion : Bool    -- ast_formattedvalue applies !r / !s / !a
  dupKwCheck : Bool        -- ast_call raises TypeError for a keyword given twice through `**`
  listTarget : Bool        -- recurse_assign unpacks into `[a, b]` targets
  uaddApplies : Bool       -- ast_unaryop_uadd applies `+`
  kwGroupMerge : Bool      -- ast_call evaluates a whole run of explicit keywords before merging it (duplicate → TypeError after)
  compFresh : Bool         -- comprehension loop variables are UNBOUND until their generator binds them (Python's fresh scope);
                           -- as coded they keep the enclosing scope's value until then (loopvar_scope_save only copies)
deriving Repr, DecidableEq

def Cfg.python : Cfg := ⟨true, true, true, true, true, true, true, true, true, true, true⟩

mutual
inductive Expr where
  | const (k : Nat)
  | leaf (i : Nat)
  | name (x : String)
  | binop (op : Nat) (l r : Expr)
  | unary (op : Nat) (e : Expr)                 -- 0 = not, 1 = invert, 2 = usub, 3 = uadd
  | boolop (isAnd : Bool) (es : List Expr)
  | compare (l : Expr) (rest : List CmpArm)
  | ifexp (c t e : Expr)
  | subscript (v i : Expr)
  | slice (lo hi st : Option Expr)
  | attr (v : Expr) (a : String)
  | call (f : Expr) (args : List Elt) (kws : List Kw)
  | seq (kind : Nat) (es : List Elt)            -- 0 list, 1 tuple, 2 set display
  | dict (kvs : List DictArm)
  | fstr (parts : List FPart)
  | named (x : String) (e : Expr)
  | comp (isSet : Bool) (elt : Expr) (gens : List Gen)          -- `[elt for …]` / `{elt for …}`
  | dictcomp (k v : Expr) (gens : List Gen)                     -- `{k: v for …}`
inductive CmpArm where
  | mk (op : Nat) (e : Expr)
inductive Elt where
  | plain (e : Expr) | star (e : Expr)
inductive Kw where
  | named (k : String) (e : Expr) | splat (e : Expr)
inductive DictArm where
  | kv (k v : Expr) | splat (e : Expr)
inductive FPart where
  | lit (k : Nat) | fmt (e : Expr) (conv : Option Nat) (spec : Option Expr)
/-- one `for target in iter if c1 if c2 …` clause of a comprehension -/
inductive Gen where
  | mk (t : Target) (iter : Expr) (ifs : List Expr)
inductive Target where
  | name (x : String)
  | sub (v i : Expr)
  | attr (v : Expr) (a : String)
  | tup (isList : Bool) (before : List Target) (star : Option String) (after : List Target)
end

inductive Stmt where
  | expr (e : Expr)
  | assign (targets : List Target) (e : Expr)
  | aug (t : Target) (op : Nat) (e : Expr)
  | del (ts : List Target)

/-! ### sequencing -/
@[inline] def bind {W α β} (r : R W α) (k : α → W → R W β) : R W β :=
  match r with
  | (.ok a, w) => k a w
  | (.error e, w) => (.error e, w)

def Expr.isConst : Expr → Bool
  | .const _ => true
  | _ => false

/-! ### comprehension scope on the flat store -/

mutual
/-- the names a target binds (`get_target_names`: Name nodes of tuple / list / starred targets) -/
def Target.names : Target → List String
  | .name x => [x]
  | .sub _ _ => []
  | .attr _ _ => []
  | .tup _ before star after =>
    Target.namesL before ++ ((match star with | some x => [x] | none => []) ++ Target.namesL after)
def Target.namesL : List Target → List String
  | [] => []
  | t :: ts => t.names ++ Target.namesL ts
end

/-- `lvars` of `loopvar_scope_save`: the loop variables of all generators -/
def gensNames : List Gen → List String
  | [] => []
  | .mk t _ _ :: gs => t.names ++ gensNames gs

/-- the names in `U` are unbound -/
def Store.hide (σ : Store) (U : List String) : Store := σ.filter (fun p => !U.contains p.1)

/-- `loopvar_scope_restore(var_names, save_vars)`: a name that had an entry gets it back, the others are removed -/
def Store.restore (σ saved : Store) : List String → Store
  | [] => σ
  | x :: r => Store.restore (match saved.get x with | some v => σ.set x v | none => σ.del x) saved r

/-- what a comprehension loop appends per innermost pass: `(none, v)` an element, `(some k, v)` a dict item -/
abbrev Item := Option Val × Val

/-- `for loop_var in <values>: …` accumulating `out += …` / `out.update(…)` -/
def iterM {W : Type} (body : Val → Store → W → R W (List Item × Store)) : List Val → Store → W → R W (List Item × Store)
  | [], σ, w => (.ok ([], σ), w)
  | v :: vs, σ, w => bind (body v σ w) fun a w => bind (iterM body vs a.2 w) fun r w => (.ok (a.1 ++ r.1, r.2), w)

/-- the body of `listcomp_loop` / `setcomp_loop` / `dictcomp_loop` for one generator: `recurse_assign(gen.target,
loop_var)`, then the `if` clauses left to right stopping at the first false one (`for cond … break / else`), then the
element (last generator) or the loop of the remaining generators -/
def genStep {W : Type} (asg : Val → Store → W → R W Store) (conds : Store → W → R W (Bool × Store))
    (inner : Store → W → R W (List Item × Store)) (vals : List Val) : Store → W → R W (List Item × Store) :=
  iterM (fun v σ w => bind (asg v σ w) fun σ1 w => bind (conds σ1 w) fun c w =>
    if c.1 then inner c.2 w else (.ok ([], c.2), w)) vals

section
variable {W : Type} (cfg : Cfg) (P : Prims W)

/-- merge keyword items as `ast_call` does (`kwargs[k] = v` / `kwargs.update`): the last value wins, the key keeps
its first position (dict semantics) -/
def kwMergeLast (acc : List (String × Val)) (k : String) (v : Val) : List (String × Val) :=
  if acc.any (fun p => p.1 == k) then acc.map (fun p => if p.1 == k then (k, v) else p) else acc ++ [(k, v)]

/-- Python: a keyword supplied twice is a TypeError -/
def kwMergeStrict (acc : List (String × Val)) (k : String) (v : Val) : Except Exc (List (String × Val)) :=
  if acc.any (fun p => p.1 == k) then .error .typeError else .ok (acc ++ [(k, v)])

def kwMerge (acc : List (String × Val)) (k : String) (v : Val) : Except Exc (List (String × Val)) :=
  if cfg.dupKwCheck then kwMergeStrict acc k v else .ok (kwMergeLast acc k v)

def kwMergeAll (acc : List (String × Val)) : List (String × Val) → Except Exc (List (String × Val))
  | [] => .ok acc
  | (k, v) :: r =>
    match kwMerge cfg acc k v with
    | .ok acc' => kwMergeAll acc' r
    | .error e => .error e

mutual
/-- `aeval` on an expression node: value and updated store (named expressions bind) -/
def eval : Expr → Store → W → R W (Val × Store)
  | .const k, σ, w => (.ok (k, σ), w)
  | .leaf i, σ, w => bind (P.leaf i w) fun v w => (.ok (v, σ), w)
  | .name x, σ, w =>
    match σ.get x with
    | some v => (.ok (v, σ), w)
    | none => (.error .nameError, w)
  | .binop op l r, σ, w =>
    bind (eval l σ w) fun a w => bind (eval r a.2 w) fun b w =>
    bind (P.binop op a.1 b.1 w) fun v w => (.ok (v, b.2), w)
  | .unary op e, σ, w =>
    bind (eval e σ w) fun a w =>
    if op = 0 then (.ok (P.ofBool (!P.truth a.1 w), a.2), w)
    else if op = 3 && !cfg.uaddApplies then (.ok a, w)            -- `return await self.aeval(arg0)`
    else bind (P.unary op a.1 w) fun v w => (.ok (v, a.2), w)
  | .boolop isAnd es, σ, w => evalBool isAnd (P.ofBool isAnd) es σ w
  | .compare l rest, σ, w =>
    if cfg.compareOnce then
      bind (eval l σ w) fun a w => chainOnce a.1 rest a.2 w
    else
      match rest with
      | [] => (.ok (P.ofBool true, σ), w)
      | .mk op e :: rest' =>
        bind (eval l σ w) fun a w => bind (eval e a.2 w) fun b w => bind (P.cmp op a.1 b.1 w) fun t w =>
        if t then chainAst (.mk op e :: rest') b.2 w else (.ok (P.ofBool false, b.2), w)
  | .ifexp c t e, σ, w =>
    bind (eval c σ w) fun a w =>
    if P.truth a.1 w then eval t a.2 w else eval e a.2 w
  | .subscript v i, σ, w =>
    bind (eval v σ w) fun a w => bind (eval i a.2 w) fun b w =>
    bind (P.getitem a.1 b.1 w) fun r w => (.ok (r, b.2), w)
  | .slice lo hi st, σ, w =>
    bind (evalOpt lo σ w) fun a w => bind (evalOpt hi a.2 w) fun b w => bind (evalOpt st b.2 w) fun c w =>
    bind (P.mkslice a.1 b.1 c.1 w) fun r w => (.ok (r, c.2), w)
  | .attr v a, σ, w =>
    bind (eval v σ w) fun x w => bind (P.getattr x.1 a w) fun r w => (.ok (r, x.2), w)
  | .call f args kws, σ, w =>
    bind (eval f σ w) fun fv w =>
    if cfg.callArgsFirst then
      bind (evalElts args fv.2 w) fun as w => bind (evalKws [] kws as.2 w) fun ks w =>
      bind (P.call fv.1 as.1 ks.1 w) fun r w => (.ok (r, ks.2), w)
    else
      bind (evalKws [] kws fv.2 w) fun ks w => bind (evalElts args ks.2 w) fun as w =>
      bind (P.call fv.1 as.1 ks.1 w) fun r w => (.ok (r, as.2), w)
  | .seq kind es, σ, w =>
    bind (evalElts es σ w) fun vs w => bind (P.mkseq kind vs.1 w) fun r w => (.ok (r, vs.2), w)
  | .dict kvs, σ, w =>
    bind (evalPairs kvs σ w) fun ps w => bind (P.mkdict ps.1 w) fun r w => (.ok (r, ps.2), w)
  | .fstr parts, σ, w =>
    bind (evalParts parts σ w) fun vs w => bind (P.join vs.1 w) fun r w => (.ok (r, vs.2), w)
  | .named x e, σ, w =>
    bind (eval e σ w) fun a w => (.ok (a.1, a.2.set x a.1), w)
  -- `ast_listcomp` / `ast_setcomp`: loopvar_scope_save, the loop, loopvar_scope_restore (in `finally`: after an
  -- exception the store of a straight-line program is not observable, so the error path carries none)
  | .comp _ _ [], _, w => (.error .notImplemented, w)              -- not producible by the grammar
  | .comp isSet elt (.mk t it ifs :: gs), σ, w =>
    bind (eval it σ w) fun a w => bind (P.iter a.1 w) fun vals w =>
    bind (genStep (fun v σ w => assign t v σ w) (fun σ w => evalConds ifs σ w)
            (fun σ w => compGens (fun σ w => bind (eval elt σ w) fun e w => (.ok ([(none, e.1)], e.2), w)) gs σ w)
            vals (if cfg.compFresh then a.2.hide (t.names ++ gensNames gs) else a.2) w) fun r w =>
    bind (P.mkseq (if isSet then 2 else 0) (r.1.map (·.2)) w) fun v w =>
    (.ok (v, Store.restore r.2 σ (t.names ++ gensNames gs)), w)
  -- `ast_dictcomp`: the key is evaluated before the value
  | .dictcomp _ _ [], _, w => (.error .notImplemented, w)
  | .dictcomp k v (.mk t it ifs :: gs), σ, w =>
    bind (eval it σ w) fun a w => bind (P.iter a.1 w) fun vals w =>
    bind (genStep (fun v σ w => assign t v σ w) (fun σ w => evalConds ifs σ w)
            (fun σ w => compGens (fun σ w => bind (eval k σ w) fun kv w => bind (eval v kv.2 w) fun e w =>
                                     (.ok ([(some kv.1, e.1)], e.2), w)) gs σ w)
            vals (if cfg.compFresh then a.2.hide (t.names ++ gensNames gs) else a.2) w) fun r w =>
    bind (P.mkdict r.1 w) fun d w =>
    (.ok (d, Store.restore r.2 σ (t.names ++ gensNames gs)), w)

/-- the `if` clauses of one generator: left to right, stops at the first false one -/
def evalConds : List Expr → Store → W → R W (Bool × Store)
  | [], σ, w => (.ok (true, σ), w)
  | c :: cs, σ, w =>
    bind (eval c σ w) fun a w => if P.truth a.1 w then evalConds cs a.2 w else (.ok (false, a.2), w)

/-- `listcomp_loop(generators[1:], elt)`: the remaining generators, innermost the element (`item`).  An inner
iterable is evaluated anew on every pass of the outer loops, in the comprehension's scope. -/
def compGens (item : Store → W → R W (List Item × Store)) : List Gen → Store → W → R W (List Item × Store)
  | [], σ, w => item σ w
  | .mk t it ifs :: gs, σ, w =>
    bind (eval it σ w) fun a w => bind (P.iter a.1 w) fun vals w =>
    genStep (fun v σ w => assign t v σ w) (fun σ w => evalConds ifs σ w) (fun σ w => compGens item gs σ w) vals a.2 w

def evalOpt : Option Expr → Store → W → R W (Option Val × Store)
  | none, σ, w => (.ok (none, σ), w)
  | some e, σ, w => bind (eval e σ w) fun a w => (.ok (some a.1, a.2), w)

/-- `ast_boolop`: stops at the first falsy (and) / truthy (or) operand and returns that operand -/
def evalBool (isAnd : Bool) (last : Val) : List Expr → Store → W → R W (Val × Store)
  | [], σ, w => (.ok (last, σ), w)
  | e :: es, σ, w =>
    bind (eval e σ w) fun a w =>
    if P.truth a.1 w = isAnd then evalBool isAnd a.1 es a.2 w else (.ok a, w)

/-- Python's chain: every operand once, the previous right value is carried -/
def chainOnce (left : Val) : List CmpArm → Store → W → R W (Val × Store)
  | [], σ, w => (.ok (P.ofBool true, σ), w)
  | .mk op e :: rest, σ, w =>
    bind (eval e σ w) fun b w => bind (P.cmp op left b.1 w) fun t w =>
    if t then chainOnce b.1 rest b.2 w else (.ok (P.ofBool false, b.2), w)

/-- `ast_compare` as coded, after the first comparison: `left = right` carries the previous right AST (the head of
the list), and the next `ast_cmpop_*` evaluates BOTH of its operand ASTs – so that operand is evaluated again -/
def chainAst : List CmpArm → Store → W → R W (Val × Store)
  | [], σ, w => (.ok (P.ofBool true, σ), w)
  | [_], σ, w => (.ok (P.ofBool true, σ), w)
  | .mk _ e1 :: .mk op2 e2 :: rest, σ, w =>
    bind (eval e1 σ w) fun a w => bind (eval e2 a.2 w) fun b w => bind (P.cmp op2 a.1 b.1 w) fun t w =>
    if t then chainAst (.mk op2 e2 :: rest) b.2 w else (.ok (P.ofBool false, b.2), w)

/-- `eval_elt_list`: starred elements are iterated and spliced -/
def evalElts : List Elt → Store → W → R W (List Val × Store)
  | [], σ, w => (.ok ([], σ), w)
  | .plain e :: es, σ, w =>
    bind (eval e σ w) fun a w => bind (evalElts es a.2 w) fun r w => (.ok (a.1 :: r.1, r.2), w)
  | .star e :: es, σ, w =>
    bind (eval e σ w) fun a w => bind (P.iter a.1 w) fun xs w =>
    bind (evalElts es a.2 w) fun r w => (.ok (xs ++ r.1, r.2), w)

/-- a duplicate was found while a run of explicit keywords is being evaluated: CPython evaluates the REST of the run
(BUILD_MAP) before the merge (DICT_MERGE) raises; an exception of one of those values comes first -/
def drainGroup (ex : Exc) : List Kw → Store → W → R W (List (String × Val) × Store)
  | .named _ e :: ks, σ, w => bind (eval e σ w) fun a w => drainGroup ex ks a.2 w
  | _, _, w => (.error ex, w)

/-- keyword arguments of a call, merged left to right -/
def evalKws (acc : List (String × Val)) : List Kw → Store → W → R W (List (String × Val) × Store)
  | [], σ, w => (.ok (acc, σ), w)
  | .named k e :: ks, σ, w =>
    bind (eval e σ w) fun a w =>
    match kwMerge cfg acc k a.1 with
    | .ok acc' => evalKws acc' ks a.2 w
    | .error ex => if cfg.kwGroupMerge then drainGroup ex ks a.2 w else (.error ex, w)
  | .splat e :: ks, σ, w =>
    bind (eval e σ w) fun a w => bind (P.kwkeys a.1 w) fun items w =>
    match kwMergeAll cfg acc items with
    | .ok acc' => evalKws acc' ks a.2 w
    | .error ex => (.error ex, w)

/-- `ast_dict`: as coded the VALUE is evaluated before the key -/
def evalPairs : List DictArm → Store → W → R W (List (Option Val × Val) × Store)
  | [], σ, w => (.ok ([], σ), w)
  | .kv k v :: r, σ, w =>
    if cfg.dictKeyFirst then
      bind (eval k σ w) fun a w => bind (eval v a.2 w) fun b w =>
      bind (evalPairs r b.2 w) fun ps w => (.ok ((some a.1, b.1) :: ps.1, ps.2), w)
    else
      bind (eval v σ w) fun b w => bind (eval k b.2 w) fun a w =>
      bind (evalPairs r a.2 w) fun ps w => (.ok ((some a.1, b.1) :: ps.1, ps.2), w)
  | .splat e :: r, σ, w =>
    bind (eval e σ w) fun a w => bind (evalPairs r a.2 w) fun ps w => (.ok ((none, a.1) :: ps.1, ps.2), w)

/-- `ast_joinedstr` / `ast_formattedvalue`: as coded the conversion is ignored -/
def evalParts : List FPart → Store → W → R W (List Val × Store)
  | [], σ, w => (.ok ([], σ), w)
  | .lit k :: r, σ, w => bind (evalParts r σ w) fun vs w => (.ok (k :: vs.1, vs.2), w)
  | .fmt e conv spec :: r, σ, w =>
    bind (eval e σ w) fun a w => bind (evalOpt spec a.2 w) fun s w =>
    bind (P.format a.1 (if cfg.fstrConversion then conv else none) s.1 w) fun v w =>
    bind (evalParts r s.2 w) fun vs w => (.ok (v :: vs.1, vs.2), w)

/-- `recurse_assign(lhs, val)` (in the same recursion: comprehension generators assign their loop variables) -/
def assign : Target → Val → Store → W → R W Store
  | .name x, v, σ, w => (.ok (σ.set x v), w)
  | .sub e i, v, σ, w =>
    bind (eval e σ w) fun a w => bind (eval i a.2 w) fun b w =>
    bind (P.setitem a.1 b.1 v w) fun _ w => (.ok b.2, w)
  | .attr e a, v, σ, w =>
    bind (eval e σ w) fun x w => bind (P.setattr x.1 a v w) fun _ w => (.ok x.2, w)
  | .tup isList before star after, v, σ, w =>
    if isList && !cfg.listTarget then (.error .notImplemented, w)       -- falls into the `else` branch of recurse_assign
    else
      -- `vals = [*(iter(val))]`: ALL items are taken here, in the world BEFORE any target is stored to
      bind (P.iter v w) fun vals w =>
      let n := before.length + after.length
      match star with
      | none =>
        if vals.length ≠ n then (.error .valueError, w)
        else
          bind (assignList before (vals.take before.length) σ w) fun σ1 w =>
          assignList after (vals.drop before.length) σ1 w
      | some x =>
        if vals.length < n then (.error .valueError, w)
        else
          let k := vals.length - n
          bind (assignList before (vals.take before.length) σ w) fun σ1 w =>
          bind (P.mkseq 0 ((vals.drop before.length).take k) w) fun lst w =>
          assignList after (vals.drop (before.length + k)) (σ1.set x lst) w
def assignList : List Target → List Val → Store → W → R W Store
  | [], _, σ, w => (.ok σ, w)
  | _ :: _, [], σ, w => (.ok σ, w)
  | t :: ts, v :: vs, σ, w => bind (assign t v σ w) fun σ1 w => assignList ts vs σ1 w
end

/-- the target read as a load expression (what `arg.target.ctx = ast.Load()` does) -/
def Target.asLoad : Target → Option Expr
  | .name x => some (.name x)
  | .sub v i => some (.subscript v i)
  | .attr v a => some (.attr v a)
  | .tup .. => none

def applyAug (op : Nat) (a b : Val) (w : W) : R W Val := if cfg.augInPlace then P.iop op a b w else P.binop op a b w

/-- `ast_augassign` -/
def augAssign (t : Target) (op : Nat) (e : Expr) (σ : Store) (w : W) : R W Store :=
  if cfg.augTargetOnce then
    -- Python: evaluate the target's sub-expressions once, fetch, evaluate the operand, apply, store
    match t with
    | .name x =>
      match σ.get x with
      | none => (.error .nameError, w)
      | some a =>
        bind (eval cfg P e σ w) fun b w => bind (applyAug cfg P op a b.1 w) fun r w => (.ok (b.2.set x r), w)
    | .sub v i =>
      bind (eval cfg P v σ w) fun c w => bind (eval cfg P i c.2 w) fun k w =>
      bind (P.getitem c.1 k.1 w) fun a w => bind (eval cfg P e k.2 w) fun b w =>
      bind (applyAug cfg P op a b.1 w) fun r w => bind (P.setitem c.1 k.1 r w) fun _ w => (.ok b.2, w)
    | .attr v at_ =>
      bind (eval cfg P v σ w) fun c w => bind (P.getattr c.1 at_ w) fun a w =>
      bind (eval cfg P e c.2 w) fun b w => bind (applyAug cfg P op a b.1 w) fun r w =>
      bind (P.setattr c.1 at_ r w) fun _ w => (.ok b.2, w)
    | .tup .. => (.error .notImplemented, w)          -- rejected by CPython's compiler
  else
    -- as coded: a synthetic BinOp(left=target as load, right=value), then recurse_assign(target, new_val)
    match t.asLoad with
    | none => (.error .notImplemented, w)
    | some l =>
      bind (eval cfg P l σ w) fun a w => bind (eval cfg P e a.2 w) fun b w =>
      bind (applyAug cfg P op a.1 b.1 w) fun r w => assign cfg P t r b.2 w

mutual
/-- `ast_delete` for one target; parenthesised / bracketed target lists are deleted element by element -/
def delete1 : Target → Store → W → R W Store
  | .name x, σ, w =>
    match σ.get x with
    | some _ => (.ok (σ.del x), w)
    | none => (.error .nameError, w)
  | .sub v i, σ, w =>
    bind (eval cfg P v σ w) fun a w => bind (eval cfg P i a.2 w) fun b w =>
    bind (P.delitem a.1 b.1 w) fun _ w => (.ok b.2, w)
  | .attr _ _, _, w => (.error .notImplemented, w)        -- attribute targets delete state variables (C16), not modelled
  | .tup _ before star after, σ, w =>
    match star with
    | some _ => (.error .notImplemented, w)                -- rejected by CPython's compiler
    | none => bind (deleteAll before σ w) fun σ1 w => deleteAll after σ1 w
def deleteAll : List Target → Store → W → R W Store
  | [], σ, w => (.ok σ, w)
  | t :: ts, σ, w => bind (delete1 t σ w) fun σ1 w => deleteAll ts σ1 w
end

def assignAll (v : Val) : List Target → Store → W → R W Store
  | [], σ, w => (.ok σ, w)
  | t :: ts, σ, w => bind (assign cfg P t v σ w) fun σ1 w => assignAll v ts σ1 w

def exec (s : Stmt) (σ : Store) (w : W) : R W Store :=
  match s with
  | .expr e => bind (eval cfg P e σ w) fun a w => (.ok a.2, w)
  | .assign ts e => bind (eval cfg P e σ w) fun a w => assignAll cfg P a.1 ts a.2 w
  | .aug t op e => augAssign cfg P t op e σ w
  | .del ts => deleteAll cfg P ts σ w

/-- a straight-line program: stops at the first exception -/
def run : List Stmt → Store → W → R W Store
  | [], σ, w => (.ok σ, w)
  | s :: ss, σ, w => bind (exec cfg P s σ w) fun σ1 w => run ss σ1 w

end

/-- what the code does today (certified by the correspondence check, flipped by `fix:` commits) -/
def Current.cfg : Cfg :=
  { dictKeyFirst := true, callArgsFirst := true, compareOnce := true, augTargetOnce := true,
    augInPlace := true, fstrConversion := true, dupKwCheck := true, listTarget := true, uaddApplies := true,
      kwGroupMerge := true, compFresh := false }

/-- the handlers as they were before the `fix:` commits (every flag off) – kept for the regression witnesses -/
def Cfg.preFix : Cfg := ⟨false, false, false, false, false, false, false, false, false, false, false⟩

end PsModel.C01
