/-!
# C11 model – global contexts, the evaluator's context pointers, imports

Mirrors (names of the Python code in brackets):

* `Heap.ctxs`      – every `GlobalContext` object ever created (index = object identity): dotted name,
                     `rel_import_path`, the flag "`.module` is set"; `Heap.tabs c` is its global symbol table.
* `Heap.reg`       – `GlobalContextMgr.contexts` (name → context), `regSet` = `GlobalContextMgr.set`,
                     `regDel` = `GlobalContextMgr.delete`.
* `Ptrs`           – the four pointers of an `AstEval` (`global_sym_table`, `sym_table`, `sym_table_stack`,
                     `global_ctx`) plus `curr_func` (only its `global_names` matter here).
* `lookupVar`      – `AstEval.ast_name` (Load), `assignVar` – the name branch of `recurse_assign`,
                     `writeSym` – `self.sym_table[name] = …` of `ast_import`/`ast_importfrom`.
* `enterCall`/`leaveCall` – the context switch of `EvalFunc.call` (save the four pointers, switch, `finally` restore;
                     same-context calls push/pop `sym_table_stack`).
* `setGlobalCtx`   – `AstEval.set_global_ctx` (`pyscript.set_global_ctx`).
* `candidates`     – the list `file_paths` built by `GlobalContext.module_import` (relative levels, `apps/`, `modules/`).
* `importLookup` / `importLoad` – the two halves of `module_import` (lookup-before-load; create context, `load_file`,
                     register, set `.module`).  Between them the code awaits an executor job.
* `execStmt`/`execBlock`/`callFn`/`importMod` – the evaluator, one fuel argument decreasing on every call.

Values are opaque except for what C11 is about: function values remember their defining context
(`EvalFunc.global_ctx`), module values are the context whose table is the module's `__dict__`.
Core Lean only.
-/
namespace PsModel.C11

abbrev Name := List String      -- dotted name, as segments
abbrev Path := List String      -- path below the pyscript directory, as segments, without the `.py` suffix

inductive Val where
  | none
  | int (n : Nat)
  | fn (ctx : Nat) (fid : Nat)   -- EvalFuncVar: defining global context, code id
  | mod (ctx : Nat)              -- module object: its `__dict__` is the table of context `ctx`
  | names (l : List String)      -- a list of strings (the value of a module's `__all__`)
deriving DecidableEq, Repr, Inhabited

inductive Exc where
  | name | type | attr | importErr | notFound | user (k : Nat) | fuel
deriving DecidableEq, Repr, Inhabited

abbrev Table := List (String × Val)

/-- `d[x] = v` on an insertion-ordered dict -/
def tset : Table → String → Val → Table
  | [], x, v => [(x, v)]
  | (y, w) :: r, x, v => if y = x then (y, v) :: r else (y, w) :: tset r x v

def tget (t : Table) (x : String) : Option Val := t.lookup x

/-! ## syntax -/

inductive Atom where
  | lit (n : Nat)
  | var (x : String)
  | attr (x a : String)          -- `x.a`
deriving Repr, Inhabited

inductive Stmt where
  | assign (x : String) (a : Atom)                          -- x = a
  | add (x : String) (a b : Atom)                           -- x = a + b
  | setattr (m a : String) (v : Atom)                       -- m.a = v
  | call (x : String) (f : Atom) (args : List Atom)         -- x = f(args)
  | spawn (own : Bool) (f : Atom) (args : List Atom)        -- task.create(f, args) / trigger or service run (own)
  | defn (x : String) (fid : Nat)                           -- def x(...): <code fid>
  | ret (a : Atom)
  | raise (k : Nat)
  | try_ (body handler : List Stmt)                         -- try: body  except Exception: handler
  | import_ (m : Name) (asname : Option String)             -- import m [as a]
  | from_ (m : Name) (level : Nat) (names : List (String × Option String))   -- from [..]m import a as b, c
  | fromStar (m : Name) (level : Nat)                       -- from [..]m import *
  | fromDot (level : Nat) (nm : String) (asname : Option String)             -- from . import nm [as a]
  | setctx (n : Name)                                       -- pyscript.set_global_ctx("n")
  | setAll (l : List String)                                -- __all__ = ["a", …]
deriving Repr, Inhabited

abbrev Block := List Stmt

structure FuncDef where
  params : List String
  globals : List String          -- names declared `global`
  body : Block
deriving Repr, Inhabited

/-- Shapes of the import code that were repaired (`fix:` commits); `false` = the shape before the repair.
* `starAll`   – `ast_importfrom`, `*` branch: a list-valued `__all__` of the module decides what is imported (C11-F6)
* `relPkg`    – `module_import`, relative branch: an importer that is a plain module (its dotted name is not the
                directory it lives in) starts from its package's name (C11-F1)
* `dottedRel` – `module_import`, absolute branch: the plain-file candidate of a dotted name carries its package
                directory as `rel_import_path` (C11-F4) -/
structure Cfg where
  starAll : Bool
  relPkg : Bool
  dottedRel : Bool
deriving Repr, Inhabited, DecidableEq

/-- the code as it is now (C11-F1 and C11-F4 repaired; the `__all__` repair C11-F6 was withdrawn at integration:
packages whose `__all__` names not-yet-imported submodules would raise AttributeError, see findings.d/C11.json) -/
def Cfg.current : Cfg := { starAll := false, relPkg := true, dottedRel := true }
/-- the shape `from m import *` would have with the (withdrawn) repair of C11-F6 -/
def Cfg.withAll : Cfg := { starAll := true, relPkg := true, dottedRel := true }
/-- the code before the repairs of C11-F1, F4, F6 -/
def Cfg.preFix : Cfg := { starAll := false, relPkg := false, dottedRel := false }

/-- the code that exists: function bodies by id, source files by path, and which shape the import code has -/
structure World where
  funcs : List FuncDef
  files : List (Path × Block)
  cfg : Cfg := Cfg.current
deriving Repr, Inhabited

/-! ## state -/

structure Ctx where
  name : Name
  rel : Option Path              -- rel_import_path
  hasModule : Bool               -- `.module is not None`
deriving Repr, Inhabited

/-- the object store: context objects by identity, their global symbol tables, the manager's registry -/
structure Heap where
  ctxs : List Ctx                -- every GlobalContext ever created; index = identity
  tabs : Nat → Table             -- the global symbol table (a dict object) of each context
  reg : List (Name × Nat)        -- GlobalContextMgr.contexts
  nset : Nat := 0                -- ghost: number of set_global_ctx executions
  loads : List Name := []        -- ghost: context names given to load_file by module_import, in order
deriving Inhabited

inductive Scope where
  | glob (c : Nat)               -- a pointer to the global table of context c
  | loc (t : Table)              -- a function's local symbol table
deriving Repr, Inhabited

structure Ptrs where
  gst : Nat                      -- global_sym_table (as the context owning the table)
  sym : Scope                    -- sym_table
  stack : List Scope             -- sym_table_stack (append/pop at the end)
  gctx : Nat                     -- global_ctx
  cur : Option (List String)     -- curr_func (its global_names); none at module level
deriving Repr, Inhabited

structure St where
  h : Heap
  p : Ptrs
deriving Inhabited

/-- a new `AstEval(name, global_ctx)` -/
def fresh (c : Nat) : Ptrs := { gst := c, sym := .glob c, stack := [], gctx := c, cur := none }

def Heap.tab (h : Heap) (c : Nat) : Table := h.tabs c

def Heap.setTab (h : Heap) (c : Nat) (t : Table) : Heap :=
  { h with tabs := fun c' => if c' = c then t else h.tabs c' }

/-- `ctx.global_sym_table[x] = v` -/
def Heap.setKey (h : Heap) (c : Nat) (x : String) (v : Val) : Heap := h.setTab c (tset (h.tab c) x v)

def regGet (r : List (Name × Nat)) (n : Name) : Option Nat := r.lookup n
def regDel (r : List (Name × Nat)) (n : Name) : List (Name × Nat) := r.filter (fun e => !(e.1 == n))
def regSet (r : List (Name × Nat)) (n : Name) (c : Nat) : List (Name × Nat) := (n, c) :: regDel r n

/-! ## names -/

def isGlobalName (p : Ptrs) (x : String) : Bool :=
  match p.cur with
  | some g => g.contains x
  | none => false

def readSym (st : St) (x : String) : Option Val :=
  match st.p.sym with
  | .loc t => tget t x
  | .glob c => tget (st.h.tab c) x

/-- `self.sym_table[x] = v` -/
def writeSym (st : St) (x : String) (v : Val) : St :=
  match st.p.sym with
  | .loc t => { st with p := { st.p with sym := .loc (tset t x v) } }
  | .glob c => { st with h := st.h.setKey c x v }

/-- `ast_name` (Load) -/
def lookupVar (st : St) (x : String) : Except Exc Val :=
  if isGlobalName st.p x then
    match tget (st.h.tab st.p.gst) x with
    | some v => .ok v
    | none => .error .name
  else
    match readSym st x with
    | some v => .ok v
    | none =>
      match tget (st.h.tab st.p.gst) x with
      | some v => .ok v
      | none => .error .name

/-- name branch of `recurse_assign` (also used by `ast_functiondef`) -/
def assignVar (st : St) (x : String) (v : Val) : St :=
  if isGlobalName st.p x then { st with h := st.h.setKey st.p.gst x v }
  else writeSym st x v

def getAttr (h : Heap) (v : Val) (a : String) : Except Exc Val :=
  match v with
  | .mod c =>
    match tget (h.tab c) a with
    | some w => .ok w
    | none => .error .attr
  | _ => .error .attr

def evalAtom (st : St) : Atom → Except Exc Val
  | .lit n => .ok (.int n)
  | .var x => lookupVar st x
  | .attr x a =>
    match lookupVar st x with
    | .ok v => getAttr st.h v a
    | .error e => .error e

def evalAtoms (st : St) : List Atom → Except Exc (List Val)
  | [] => .ok []
  | a :: r =>
    match evalAtom st a with
    | .error e => .error e
    | .ok v =>
      match evalAtoms st r with
      | .error e => .error e
      | .ok vs => .ok (v :: vs)

def addVals : Val → Val → Except Exc Val
  | .int a, .int b => .ok (.int (a + b))
  | _, _ => .error .type

/-- positional binding of `EvalFunc.call` (before any pointer is touched) -/
def bindArgs : List String → List Val → Option Table
  | [], [] => some []
  | x :: xs, v :: vs =>
    match bindArgs xs vs with
    | some t => some (tset t x v)
    | none => none
  | _, _ => none

/-! ## the context switch of `EvalFunc.call` -/

/-- entry: `if ast_ctx.global_ctx != self.global_ctx: save, switch  else: push`; then `sym_table = locals`,
`curr_func = self` -/
def enterCall (p : Ptrs) (c : Nat) (locals : Table) (gl : List String) : Ptrs :=
  if p.gctx ≠ c then
    { gst := c, sym := .loc locals, stack := [.glob c], gctx := c, cur := some gl }
  else
    { p with stack := p.stack ++ [p.sym], sym := .loc locals, cur := some gl }

/-- `finally:`  `p0` are the pointer values at entry (that is what `prev_sym_table`, `prev_func` hold),
`p` the pointers when the body has finished -/
def leaveCall (p0 : Ptrs) (c : Nat) (p : Ptrs) : Ptrs :=
  if p0.gctx ≠ c then
    { p with gst := p0.gst, sym := p0.sym, stack := p0.stack, gctx := p0.gctx, cur := p0.cur }
  else
    match p.stack.getLast? with
    | some s => { p with sym := s, stack := p.stack.dropLast, cur := p0.cur }
    | none => { p with cur := p0.cur }       -- (IndexError in Python; shown unreachable)

/-- `AstEval.set_global_ctx`.  The code tests `self.sym_table == self.global_sym_table`; the model takes the
test as identity of the two tables (assumption: a function's locals never compare equal to the global table) -/
def setGlobalCtx (p : Ptrs) (c : Nat) : Ptrs :=
  let sym' := match p.sym with
    | .glob g => if g = p.gst then Scope.glob c else p.sym
    | .loc _ => p.sym
  let stack' := match p.stack with
    | [] => []
    | _ :: r => Scope.glob c :: r
  { p with gctx := c, gst := c, sym := sym', stack := stack' }

/-! ## `module_import`: candidate files -/

structure Cand where
  ctxName : Name
  file : Path
  rel : Option Path
deriving Repr, Inhabited, DecidableEq

/-- the loop `for _ in range(import_level - 1)` -/
def upLevels : Nat → Path → Name → Except Exc (Path × Name)
  | 0, path, cn => .ok (path, cn)
  | k+1, path, cn =>
    let path' := path.dropLast
    if path'.length ≤ 1 ∨ cn.length ≤ 1 then .error .importErr
    else upLevels k path' cn.dropLast

def stripInit (p : Path) : Path :=
  if p.getLast? = some "__init__" ∧ 2 ≤ p.length then p.dropLast else p

def isAppsRel : Option Path → Bool
  | some ("apps" :: _ :: _) => true
  | _ => false

/-- `ctx_name = self.name`, and (repaired shape) `if ctx_name.replace(".", "/") != path: ctx_name = ctx_name[0:rfind(".")]`:
the importer is a plain module inside the package directory `path`, relative names start at its package -/
def relBase (cfg : Cfg) (self : Ctx) (path : Path) : Name :=
  if cfg.relPkg ∧ self.name ≠ path then self.name.dropLast else self.name

/-- `rel_import_path` of the plain-file candidate `<root>/<module_path>.py` of an absolute import:
`os.path.dirname(...)` when the name is dotted (repaired shape), else the historical value `dflt` -/
def plainRel (cfg : Cfg) (root : String) (m : Name) (dflt : Option Path) : Option Path :=
  if cfg.dottedRel ∧ 2 ≤ m.length then some (root :: m.dropLast) else dflt

/-- `file_paths` of `module_import(module_name, import_level)` called on context `self` -/
def candidates (cfg : Cfg) (self : Ctx) (m : Name) (level : Nat) : Except Exc (List Cand) :=
  if level > 0 then
    match self.rel with
    | none => .error .importErr
    | some rp =>
      match upLevels (level - 1) (stripInit rp) (relBase cfg self (stripInit rp)) with
      | .error e => .error e
      | .ok (path, cn) =>
        let cn' := cn ++ m
        .ok [⟨cn', path ++ m ++ ["__init__"], some (path ++ m)⟩, ⟨cn', path ++ m, some path⟩]
  else
    let apps := if isAppsRel self.rel then
        [⟨"apps" :: m, "apps" :: m ++ ["__init__"], some ("apps" :: m)⟩,
         ⟨"apps" :: m, "apps" :: m, plainRel cfg "apps" m (some ("apps" :: m))⟩]
      else []
    .ok (apps ++ [⟨"modules" :: m, "modules" :: m ++ ["__init__"], some ("modules" :: m)⟩,
                  ⟨"modules" :: m, "modules" :: m, plainRel cfg "modules" m none⟩])

def hasModuleAt (h : Heap) (c : Nat) : Bool :=
  match h.ctxs[c]? with
  | some x => x.hasModule
  | none => false

/-- "now see if we have loaded it already" -/
def findLoaded (h : Heap) : List Cand → Option Nat
  | [] => none
  | cd :: r =>
    match regGet h.reg cd.ctxName with
    | some c => if hasModuleAt h c then some c else findLoaded h r
    | none => findLoaded h r

def fileOf (W : World) (p : Path) : Option Block := W.files.lookup p

/-- `find_first_file` -/
def findFile (W : World) : List Cand → Option (Cand × Block)
  | [] => none
  | cd :: r =>
    match fileOf W cd.file with
    | some b => some (cd, b)
    | none => findFile W r

inductive Lookup where
  | err (e : Exc)
  | found (c : Nat)              -- already loaded: return its module
  | missing                      -- no such pyscript module (`return None`)
  | load (cd : Cand) (body : Block)
deriving Repr, Inhabited

def selfCtx (h : Heap) (c : Nat) : Ctx :=
  match h.ctxs[c]? with
  | some x => x
  | none => { name := [], rel := none, hasModule := false }

/-- first half of `module_import` (everything before `load_file`), run on the context `g` -/
def importLookup (W : World) (h : Heap) (g : Nat) (m : Name) (level : Nat) : Lookup :=
  match candidates W.cfg (selfCtx h g) m level with
  | .error e => .err e
  | .ok cds =>
    match findLoaded h cds with
    | some c => .found c
    | none =>
      match findFile W cds with
      | none => .missing
      | some (cd, b) => .load cd b

def newCtx (cd : Cand) : Ctx := { name := cd.ctxName, rel := cd.rel, hasModule := false }

/-- `GlobalContext(ctx_name, mod.__dict__, …)` and the head of `load_file` (`delete` a registered context of
that name); returns the heap and the id of the new context -/
def loadBegin (h : Heap) (cd : Cand) : Heap :=
  { h with ctxs := h.ctxs ++ [newCtx cd], tabs := fun c' => if c' = h.ctxs.length then [] else h.tabs c',
           reg := regDel h.reg cd.ctxName,
           loads := h.loads ++ [cd.ctxName] }

def setHasModule : List Ctx → Nat → List Ctx
  | [], _ => []
  | x :: r, 0 => { x with hasModule := true } :: r
  | x :: r, c+1 => x :: setHasModule r c

/-- tail of `load_file` (`cls.set`) and `global_ctx.module = mod` -/
def loadCommit (h : Heap) (cd : Cand) (c : Nat) : Heap :=
  { h with ctxs := setHasModule h.ctxs c, reg := regSet h.reg cd.ctxName c }

/-- load failed: nothing is registered -/
def loadAbort (h : Heap) : Heap := h

/-! ## import bindings (pure folds) -/

def dotted (m : Name) : String := ".".intercalate m

def bindFrom (st : St) (c : Nat) : List (String × Option String) → St × Option Exc
  | [] => (st, none)
  | (nm, asn) :: r =>
    match tget (st.h.tab c) nm with
    | none => (st, some .attr)                       -- getattr(mod, name) raises AttributeError
    | some v => bindFrom (writeSym st (asn.getD nm) v) c r

def isPublic (k : String) : Bool := !(k.startsWith "_")

def bindStar (st : St) : Table → St
  | [] => st
  | (k, v) :: r => bindStar (if isPublic k then writeSym st k v else st) r

/-- `mod.__dict__.get("__all__")` when it is a list -/
def allOf (t : Table) : Option (List String) :=
  match tget t "__all__" with
  | some (.names l) => some l
  | _ => none

/-- which rule the `*` branch of `ast_importfrom` applies to the module whose table is `t` -/
def starNames (cfg : Cfg) (t : Table) : Option (List String) := if cfg.starAll then allOf t else none

/-- the `*` branch of `ast_importfrom`: exactly the names of a list-valued `__all__` (each `getattr(mod, name)`, so a
missing one raises AttributeError), otherwise every key that does not start with `_` -/
def bindStarC (cfg : Cfg) (st : St) (c : Nat) : St × Option Exc :=
  match starNames cfg (st.h.tab c) with
  | some l => bindFrom st c (l.map (fun n => (n, none)))
  | none => (bindStar st (st.h.tab c), none)

/-! ## results -/

inductive Out where
  | norm
  | ret (v : Val)
  | exc (e : Exc)
deriving Repr, Inhabited, DecidableEq

structure Res where
  st : St
  out : Out
deriving Inhabited

structure ResV where
  st : St
  val : Except Exc Val
deriving Inhabited

structure ResM where
  st : St
  val : Except Exc (Option Nat)     -- module context, `none` = not a pyscript module
deriving Inhabited

def outOfBody : Out → Except Exc Val
  | .norm => .ok .none
  | .ret v => .ok v
  | .exc e => .error e

def fnCtx : Val → Nat → Nat
  | .fn c _, _ => c
  | _, d => d

/-! ## the evaluator -/

mutual

/-- one statement; `ast_<stmt>` handlers -/
def execStmt (W : World) : Nat → St → Stmt → Res
  | 0, st, _ => ⟨st, .exc .fuel⟩
  | n+1, st, s =>
    match s with
    | .assign x a =>
      match evalAtom st a with
      | .ok v => ⟨assignVar st x v, .norm⟩
      | .error e => ⟨st, .exc e⟩
    | .add x a b =>
      match evalAtom st a with
      | .error e => ⟨st, .exc e⟩
      | .ok va =>
        match evalAtom st b with
        | .error e => ⟨st, .exc e⟩
        | .ok vb =>
          match addVals va vb with
          | .ok v => ⟨assignVar st x v, .norm⟩
          | .error e => ⟨st, .exc e⟩
    | .setattr m a v =>
      match evalAtom st v with
      | .error e => ⟨st, .exc e⟩
      | .ok w =>
        match lookupVar st m with
        | .error e => ⟨st, .exc e⟩
        | .ok (.mod c) => ⟨{ st with h := st.h.setKey c a w }, .norm⟩
        | .ok _ => ⟨st, .exc .attr⟩
    | .call x f args =>
      match evalAtom st f with
      | .error e => ⟨st, .exc e⟩
      | .ok fv =>
        match evalAtoms st args with
        | .error e => ⟨st, .exc e⟩
        | .ok vs =>
          let r := callFn W n st fv vs
          match r.val with
          | .ok v => ⟨assignVar r.st x v, .norm⟩
          | .error e => ⟨r.st, .exc e⟩
    | .spawn own f args =>
      match evalAtom st f with
      | .error e => ⟨st, .exc e⟩
      | .ok fv =>
        match evalAtoms st args with
        | .error e => ⟨st, .exc e⟩
        | .ok vs =>
          -- a new AstEval: on the function's own context (trigger / service run) or on the caller's current
          -- context (task.create); exceptions are logged, not propagated
          let c := if own then fnCtx fv st.p.gctx else st.p.gctx
          let r := callFn W n { st with p := fresh c } fv vs
          ⟨{ r.st with p := st.p }, .norm⟩
    | .defn x fid => ⟨assignVar st x (.fn st.p.gctx fid), .norm⟩
    | .ret a =>
      match evalAtom st a with
      | .ok v => ⟨st, .ret v⟩
      | .error e => ⟨st, .exc e⟩
    | .raise k => ⟨st, .exc (.user k)⟩
    | .try_ body handler =>
      let r := execBlock W n st body
      match r.out with
      | .exc e => if e = .fuel then r else execBlock W n r.st handler
      | _ => r
    | .import_ m asn =>
      let r := importMod W n st m 0
      match r.val with
      | .error e => ⟨r.st, .exc e⟩
      | .ok none => ⟨r.st, .exc .notFound⟩
      | .ok (some c) => ⟨writeSym r.st (asn.getD (dotted m)) (.mod c), .norm⟩
    | .fromDot level nm asn =>
      let r := importMod W n st [nm] level
      match r.val with
      | .error e => ⟨r.st, .exc e⟩
      | .ok none => ⟨r.st, .exc .notFound⟩
      | .ok (some c) => ⟨writeSym r.st (asn.getD nm) (.mod c), .norm⟩
    | .from_ m level names =>
      let r := importMod W n st m level
      match r.val with
      | .error e => ⟨r.st, .exc e⟩
      | .ok none => ⟨r.st, .exc .notFound⟩
      | .ok (some c) =>
        match bindFrom r.st c names with
        | (st', none) => ⟨st', .norm⟩
        | (st', some e) => ⟨st', .exc e⟩
    | .fromStar m level =>
      let r := importMod W n st m level
      match r.val with
      | .error e => ⟨r.st, .exc e⟩
      | .ok none => ⟨r.st, .exc .notFound⟩
      | .ok (some c) =>
        match bindStarC W.cfg r.st c with
        | (st', none) => ⟨st', .norm⟩
        | (st', some e) => ⟨st', .exc e⟩
    | .setctx nm =>
      match regGet st.h.reg nm with
      | none => ⟨st, .exc .name⟩
      | some c => ⟨{ h := { st.h with nset := st.h.nset + 1 }, p := setGlobalCtx st.p c }, .norm⟩
    | .setAll l => ⟨assignVar st "__all__" (.names l), .norm⟩

/-- a statement list (function body, module body, try body) -/
def execBlock (W : World) : Nat → St → Block → Res
  | 0, st, _ => ⟨st, .exc .fuel⟩
  | _+1, st, [] => ⟨st, .norm⟩
  | n+1, st, s :: rest =>
    let r := execStmt W n st s
    match r.out with
    | .norm => execBlock W n r.st rest
    | _ => r

/-- `EvalFunc.call(ast_ctx, *args)` -/
def callFn (W : World) : Nat → St → Val → List Val → ResV
  | 0, st, _, _ => ⟨st, .error .fuel⟩
  | n+1, st, fv, vs =>
    match fv with
    | .fn c fid =>
      match W.funcs[fid]? with
      | none => ⟨st, .error .type⟩
      | some fd =>
        match bindArgs fd.params vs with
        | none => ⟨st, .error .type⟩
        | some locals =>
          let r := execBlock W n { st with p := enterCall st.p c locals fd.globals } fd.body
          ⟨{ r.st with p := leaveCall st.p c r.st.p }, outOfBody r.out⟩
    | _ => ⟨st, .error .type⟩

/-- `GlobalContext.module_import` called by the evaluator `st.p` (whose `global_ctx` is the importing context) -/
def importMod (W : World) : Nat → St → Name → Nat → ResM
  | 0, st, _, _ => ⟨st, .error .fuel⟩
  | n+1, st, m, level =>
    match importLookup W st.h st.p.gctx m level with
    | .err e => ⟨st, .error e⟩
    | .found c => ⟨st, .ok (some c)⟩
    | .missing => ⟨st, .ok none⟩
    | .load cd body =>
      let c := st.h.ctxs.length
      -- load_file: a new AstEval on the new context runs the module body
      let r := execBlock W n { h := loadBegin st.h cd, p := fresh c } body
      match r.out with
      | .exc e => ⟨{ h := loadAbort r.st.h, p := st.p }, .error e⟩
      | _ => ⟨{ h := loadCommit r.st.h cd c, p := st.p }, .ok (some c)⟩

end

/-- second half of `module_import` on its own (used to replay interleavings of concurrent importers) -/
def importLoad (W : World) (n : Nat) (st : St) (cd : Cand) (body : Block) : ResM :=
  let c := st.h.ctxs.length
  let r := execBlock W n { h := loadBegin st.h cd, p := fresh c } body
  match r.out with
  | .exc e => ⟨{ h := loadAbort r.st.h, p := st.p }, .error e⟩
  | _ => ⟨{ h := loadCommit r.st.h cd c, p := st.p }, .ok (some c)⟩

end PsModel.C11
