import PsModel.Gen.LoadPaths
/-!
# C10 – executable model of pyscript's reload planner and loader

Mirrors `custom_components/pyscript/__init__.py` (`load_scripts`, `glob_read_files`, `import_recurse`) and
`global_ctx.py` (`GlobalContext.module_import`, `GlobalContextMgr.load_file`).

Representation.  A context name `apps.a.b` is the component list `["apps","a","b"]`; a file path
`apps/a/__init__.py` relative to `<config>/pyscript` is `["apps","a","__init__"]` (the `.py` suffix of the last
component is dropped – every file the globs can see ends in `.py`).  Components contain neither `.` nor `/`.
Source texts, modification times and app configurations are opaque identifiers (`Nat`).
-/
namespace PsModel.C10

abbrev Name := List String
abbrev Path := List String

/-- one `.py` file below `<config>/pyscript` as `glob`/`open`/`getmtime` see it -/
structure File where
  path : Path
  src : Nat
  mtime : Nat
deriving Repr, DecidableEq, Inhabited

/-! ## `glob_read_files` -/

/-- the four glob patterns occurring in `load_paths` (`recursive=True`) -/
inductive Glob where
  | star       -- `*.py`
  | starInit   -- `*/__init__.py`
  | starDeep   -- `*/**/*.py`
  | deep       -- `**/*.py`
deriving DecidableEq, Repr

structure Row where
  dir : String
  glob : Glob
  checkConfig : Bool
  autoload : Bool
deriving DecidableEq, Repr

def parseGlob : String → Option Glob
  | "*.py" => some .star
  | "*/__init__.py" => some .starInit
  | "*/**/*.py" => some .starDeep
  | "**/*.py" => some .deep
  | _ => none

def rowOf (t : String × String × Bool × Bool) : Option Row :=
  (parseGlob t.2.1).map (fun g => { dir := t.1, glob := g, checkConfig := t.2.2.1, autoload := t.2.2.2 })

/-- the table the code uses today (extracted from the working tree) -/
def loadRows : List Row := Gen.loadPaths.filterMap rowOf

/-- path relative to the row's directory (`os.path.join(pyscript_dir, path, match)`) -/
def relTo (dir : String) (p : Path) : Option Path :=
  if dir = "" then some p
  else match p with
    | d :: rest => if d = dir then some rest else none
    | [] => none

def globMatch : Glob → Path → Bool
  | .star, [_] => true
  | .starInit, [_, b] => b == "__init__"
  | .starDeep, _ :: _ :: _ => true
  | .deep, _ :: _ => true
  | _, _ => false

def matchRow (r : Row) (p : Path) : Bool :=
  match relTo r.dir p with
  | some q => globMatch r.glob q
  | none => false

/-- `rel_path[0] == "#" or rel_path.find("/#") >= 0` -/
def isCommented (p : Path) : Bool := p.any (fun c => c.startsWith "#")

/-- `mod_name.endswith("/__init__")` -/
def isInit (p : Path) : Bool := decide (2 ≤ p.length) && p.getLast? == some "__init__"

/-- `mod_name` after stripping `/__init__`, as components -/
def modParts (p : Path) : Path := if isInit p then p.dropLast else p

def relImportOf (p : Path) : Option Path := if isInit p then some p else none

def ctxNameOf (dir : String) (p : Path) : Name :=
  if dir = "" then "file" :: modParts p else modParts p

/-- `fq_mod_name`: everything after the first dot (if any) for the non-top-level rows -/
def fqOf (dir : String) (p : Path) : Name :=
  if dir = "" then modParts p
  else if 2 ≤ (modParts p).length then (modParts p).tail else modParts p

/-- `SourceFile` -/
structure Entry where
  name : Name
  path : Path
  relImport : Option Path
  fq : Name
  appCfg : Option Nat
  src : Nat
  mtime : Nat
  autoload : Bool
  force : Bool
deriving Repr, DecidableEq, Inhabited

/-- `config_data["apps"]`: app name ↦ its yaml entry; an EMPTY entry (`my_app:`) parses to `None` – the app is
configured, its configuration value is `none` -/
abbrev AppsCfg := List (String × Option Nat)

def hasName (acc : List Entry) (n : Name) : Bool := acc.any (fun e => e.name == n)

def mkEntry (r : Row) (f : File) (cfg : Option Nat) : Entry :=
  { name := ctxNameOf r.dir f.path, path := f.path, relImport := relImportOf f.path, fq := fqOf r.dir f.path,
    appCfg := cfg, src := f.src, mtime := f.mtime, autoload := r.autoload, force := false }

/-- body of the inner loop of `glob_read_files` for one matching path -/
def addFile (r : Row) (apps : AppsCfg) (acc : List Entry) (f : File) : List Entry :=
  if !matchRow r f.path then acc
  else if isCommented f.path then acc
  else if hasName acc (ctxNameOf r.dir f.path) then acc
  else if r.checkConfig then
    match apps.lookup ((fqOf r.dir f.path).headD "") with
    | none => acc
    | some c => acc ++ [mkEntry r f c]
  else acc ++ [mkEntry r f none]

/-- `glob_read_files(load_paths, apps_config)`; `files` is the directory listing in sorted path order -/
def globRead (rows : List Row) (apps : AppsCfg) (files : List File) : List Entry :=
  rows.foldl (fun acc r => files.foldl (addFile r apps) acc) []

/-! ## loaded contexts -/

/-- `GlobalContext` (the fields the planner and `module_import` read); `oid` is the object identity -/
structure Ctx where
  name : Name
  path : Path
  relImport : Option Path
  src : Nat
  mtime : Nat
  appCfg : Option Nat
  imports : List Name
  isModule : Bool
  oid : Nat
deriving Repr, DecidableEq, Inhabited

def nameStr (n : Name) : String := ".".intercalate n

def nameLe (a b : Name) : Bool := !(decide (nameStr b < nameStr a))

/-- `GlobalContextMgr.items()` = `sorted(contexts.items())` -/
def sortCtxs (cs : List Ctx) : List Ctx := cs.mergeSort (fun a b => nameLe a.name b.name)

def sortEntries (es : List Entry) : List Entry := es.mergeSort (fun a b => nameLe a.name b.name)

def sortNames (ns : List Name) : List Name := ns.mergeSort nameLe

/-- `idx >= 0 and name[0:idx] in {"file","apps","modules","scripts"}` -/
def isScriptCtx (n : Name) : Bool := decide (2 ≤ n.length) && Gen.reloadPrefixes.contains (n.headD "")

def findCtx (cs : List Ctx) (n : Name) : Option Ctx := cs.find? (fun c => c.name == n)

def findEntry (es : List Entry) (n : Name) : Option Entry := es.find? (fun e => e.name == n)

/-! ## the planner (`load_scripts`, "figure out what to reload") -/

inductive Only where
  | default               -- `global_ctx_only is None`
  | all                   -- `"*"`
  | ctx (n : Name)        -- a context name
deriving Repr, DecidableEq

structure Plan where
  del : List Name         -- `ctx_delete`
  ents : List Entry       -- `ctx2files` with the `force` flags
deriving Repr

/-- `src_info.force = b` -/
def Entry.setF (e : Entry) (b : Bool) : Entry := { e with force := b }

/-- assign the flag `b e` to the entries selected by `p` -/
def upd (p b : Entry → Bool) (e : Entry) : Entry := if p e then e.setF (b e) else e

def setForce (es : List Entry) (p : Entry → Bool) (b : Entry → Bool) : List Entry := es.map (upd p b)

def differs (c : Ctx) (e : Entry) : Bool := e.src != c.src || e.appCfg != c.appCfg || e.mtime != c.mtime

/-- names of loaded contexts that are no longer present in the current files -/
def goneNames (loaded : List Ctx) (ents : List Entry) : List Name :=
  (loaded.filter (fun c => !hasName ents c.name)).map (·.name)

def isChanged (loaded : List Ctx) (e : Entry) : Bool :=
  match findCtx loaded e.name with
  | some c => differs c e
  | none => false

def changedNames (loaded : List Ctx) (ents : List Entry) : List Name :=
  (ents.filter (isChanged loaded)).map (·.name)

/-- the `force` flag the default branch assigns to one entry -/
def force1 (loaded : List Ctx) (e : Entry) : Bool :=
  match findCtx loaded e.name with
  | some c => differs c e
  | none => e.autoload

/-- first phase: the three branches on `global_ctx_only`; `none` = "no global context to reload" -/
def phase1 (loaded : List Ctx) (ents : List Entry) : Only → Option Plan
  | .default => some { del := goneNames loaded ents ++ changedNames loaded ents,
                       ents := ents.map (fun e => e.setF (force1 loaded e)) }
  | .all => some { del := loaded.map (·.name), ents := ents.map (fun e => e.setF true) }
  | .ctx n =>
    if !(loaded.any (fun c => c.name == n)) && !hasName ents n then none
    else if !hasName ents n then some { del := [n], ents := ents }
    else some { del := [], ents := setForce ents (fun e => e.name == n) (fun _ => true) }

def root2 (n : Name) : Name := n.take 2

/-- `name.startswith(pre + ".")` -/
def isUnder (pre : String) (n : Name) : Bool := decide (2 ≤ n.length) && n.head? == some pre

def willReload (p : Plan) : List Name :=
  (p.ents.filter (fun e => isUnder "modules" e.name && (p.del.contains e.name || e.force))).map (fun e => root2 e.name)

/-- `visited` and `ctx2imports` of `import_recurse` -/
structure Memo where
  visited : List Name
  tbl : List (Name × List Name)
deriving Repr

def memoGet (t : List (Name × List Name)) (n : Name) : List Name := (t.lookup n).getD []

def memoHas (t : List (Name × List Name)) (n : Name) : Bool := t.any (fun kv => kv.1 == n)

/-- `ctx2imports[n].update(xs)` -/
def memoAdd (t : List (Name × List Name)) (n : Name) (xs : List Name) : List (Name × List Name) :=
  t.map (fun kv => if kv.1 == n then (kv.1, kv.2 ++ xs) else kv)

/-- one iteration of `for imp_name in ctx.get_imports()` given the recursive call -/
def recStep (rec : Name → Memo → List Name × Memo) (n : Name) (m : Memo) (imp : Name) : Memo :=
  let r := rec imp { m with tbl := memoAdd m.tbl n [imp] }
  { r.2 with tbl := memoAdd r.2.tbl n r.1 }

/-- `import_recurse(ctx_name, visited, ctx2imports)`; fuel bounds the recursion depth only -/
def importRecurse (loaded : List Ctx) : Nat → Name → Memo → List Name × Memo
  | 0, _, m => ([], m)
  | fuel + 1, n, m =>
    if m.visited.contains n || memoHas m.tbl n then (memoGet m.tbl n, m)
    else
      match findCtx loaded n with
      | none => ([], { m with visited := n :: m.visited })
      | some c =>
        let m1 : Memo := { visited := n :: m.visited, tbl := m.tbl ++ [(n, [])] }
        let m2 := c.imports.foldl (recStep (importRecurse loaded fuel) n) m1
        (memoGet m2.tbl n, m2)

/-- state of the loop `for global_ctx_name, global_ctx in ctx_all.items()` of the import phase -/
structure P2 where
  tbl : List (Name × List Name)
  del : List Name
  ents : List Entry

def importsReloaded (wr : List Name) (mods : List Name) : Bool := mods.any (fun m => wr.contains (root2 m))

def phase2Step (loaded : List Ctx) (fuel : Nat) (wr : List Name) (s : P2) (c : Ctx) : P2 :=
  let tbl := if memoHas s.tbl c.name then s.tbl
             else (importRecurse loaded fuel c.name { visited := [], tbl := s.tbl }).2.tbl
  if importsReloaded wr (memoGet tbl c.name) then
    { tbl := tbl, del := s.del ++ [c.name], ents := setForce s.ents (fun e => e.name == c.name) (fun _ => true) }
  else { s with tbl := tbl }

def phase2 (loaded : List Ctx) (fuel : Nat) (p : Plan) : Plan :=
  let wr := willReload p
  if wr.isEmpty then p
  else
    let s := loaded.foldl (phase2Step loaded fuel wr) { tbl := [], del := p.del, ents := p.ents }
    { del := s.del, ents := s.ents }

/-- `ctx_name == root or ctx_name.startswith(f"{root}.")` -/
def underRoot (root n : Name) : Bool := root.isPrefixOf n

def isRootFile (root : Name) (e : Entry) : Bool := e.path == root ++ ["__init__"] || e.path == root

structure P3 where
  done : List Name
  del : List Name
  ents : List Entry

/-- one iteration of the package-widening loop (`for global_ctx_name, src_info in ctx2files.items()`);
the flags are read from the table as it is at that moment -/
def phase3Step (s : P3) (n : Name) : P3 :=
  match findEntry s.ents n with
  | none => s
  | some e =>
    if !e.force then s
    else if !(isUnder "apps" n) && !(isUnder "modules" n) then s
    else if s.done.contains (root2 n) then s
    else
      { done := root2 n :: s.done,
        del := s.del ++ (s.ents.filter (fun x => underRoot (root2 n) x.name)).map (·.name),
        ents := setForce s.ents (fun x => underRoot (root2 n) x.name) (isRootFile (root2 n)) }

def phase3 (p : Plan) : Plan :=
  let s := (p.ents.map (·.name)).foldl phase3Step { done := [], del := p.del, ents := p.ents }
  { del := s.del, ents := s.ents }

/-- the whole decision part of `load_scripts`; `loaded` = `ctx_all` in sorted order -/
def plan (fuel : Nat) (loaded : List Ctx) (ents : List Entry) (only : Only) : Option Plan :=
  (phase1 loaded ents only).map (fun p => phase3 (phase2 loaded fuel p))

/-! ## the loader (`load_file`, `module_import`) -/

/-- `import a.b` ↦ `⟨0, ["a","b"]⟩`, `from . import s` ↦ `⟨1, ["s"]⟩`, `from ..x import y` ↦ `⟨2, ["x"]⟩` -/
structure Imp where
  level : Nat
  mod : List String
deriving Repr, DecidableEq

/-- an element of `file_paths`: context name, file, `rel_import_path` of the context to create -/
structure Cand where
  name : Name
  file : Path
  relImport : Option Path
deriving Repr, DecidableEq

/-- the `for _ in range(import_level - 1)` loop -/
def climb : Nat → Path → Name → Option (Path × Name)
  | 0, p, n => some (p, n)
  | k + 1, p, n =>
    if p.dropLast.length < 2 || n.length < 2 then none
    else climb k p.dropLast n.dropLast

/-- "first build a list of potential import files"; `none` = `ImportError`.  Two deviation flags:
`relPkg` – a relative import executed by a plain member of a package (context name ≠ its `rel_import_path`) starts at
the member's PACKAGE (`fix:` C11-F1; before it the member's own name was used: `modules.p.s.t` for `modules/p/t.py`,
finding C10-F4); `submod` – a submodule file reached by its dotted name (`import p.s`) gets its package directory as
`rel_import_path` (`fix:` C11-F4; before it `None` under `modules/`, the non-existent `apps/p/s` under `apps/`). -/
def candidatesCfg (relPkg submod : Bool) (self : Name) (rel : Option Path) (i : Imp) : Option (List Cand) :=
  if 0 < i.level then
    match rel with
    | none => none
    | some r =>
      match climb (i.level - 1) (modParts r) (if relPkg && !(self == modParts r) then self.dropLast else self) with
      | none => none
      | some (p, n) =>
        some [ { name := n ++ i.mod, file := p ++ i.mod ++ ["__init__"], relImport := some (p ++ i.mod) },
               { name := n ++ i.mod, file := p ++ i.mod, relImport := some p } ]
  else
    let isSub : Bool := submod && 1 < i.mod.length
    let apps : List Cand :=
      match rel with
      | some r =>
        if isUnder "apps" r then
          [ { name := "apps" :: i.mod, file := "apps" :: i.mod ++ ["__init__"], relImport := some ("apps" :: i.mod) },
            { name := "apps" :: i.mod, file := "apps" :: i.mod,
              relImport := if isSub then some ("apps" :: i.mod).dropLast else some ("apps" :: i.mod) } ]
        else []
      | none => []
    some (apps ++
      [ { name := "modules" :: i.mod, file := "modules" :: i.mod ++ ["__init__"], relImport := some ("modules" :: i.mod) },
        { name := "modules" :: i.mod, file := "modules" :: i.mod,
          relImport := if isSub then some ("modules" :: i.mod).dropLast else none } ])

/-- **current configuration of the two flags**: /repo with the `fix:` patches C11-F1 and C11-F4 (builder H's
`notes/fixes_pending/`); the correspondence check certifies the values (against the unrepaired tree impl ≠ model on
every sibling-relative import). -/
def relFromPackageNow : Bool := true
def submodKnowsDirNow : Bool := true

/-- `module_import`'s candidate list as the code builds it today -/
def candidates (self : Name) (rel : Option Path) (i : Imp) : Option (List Cand) :=
  candidatesCfg relFromPackageNow submodKnowsDirNow self rel i

/-- the contexts table, the load events so far (context name, source id), in order -/
structure St where
  ctxs : List Ctx
  events : List (Name × Nat)
deriving Repr

/-- what `load_file` is given -/
structure Pending where
  name : Name
  path : Path
  relImport : Option Path
  appCfg : Option Nat
  src : Nat
  mtime : Nat
deriving Repr

def loadedModule (cs : List Ctx) (n : Name) : Bool := cs.any (fun c => c.name == n && c.isModule)

def findFile (disk : List File) (p : Path) : Option File := disk.find? (fun f => f.path == p)

/-- `find_first_file` -/
def firstFile (disk : List File) : List Cand → Option (Cand × File)
  | [] => none
  | c :: cs =>
    match findFile disk c.file with
    | some f => some (c, f)
    | none => firstFile disk cs

def addImport (acc : List Name) (n : Name) : List Name := if acc.contains n then acc else acc ++ [n]

def markModule (st : St) (n : Name) : St :=
  { st with ctxs := st.ctxs.map (fun c => if c.name == n then { c with isModule := true } else c) }

/-- the import statements of one script executed in order; `none` = the script raised -/
def runImps (load : St → Pending → Bool × St) (disk : List File) (self : Name) (rel : Option Path) :
    List Imp → St → List Name → Option (List Name) × St
  | [], st, acc => (some acc, st)
  | i :: is, st, acc =>
    match candidates self rel i with
    | none => (none, st)
    | some cands =>
      match cands.find? (fun c => loadedModule st.ctxs c.name) with
      | some c => runImps load disk self rel is st (addImport acc c.name)
      | none =>
        match firstFile disk cands with
        | none => (none, st)
        | some (c, f) =>
          let r := load st { name := c.name, path := c.file, relImport := c.relImport, appCfg := none,
                             src := f.src, mtime := f.mtime }
          if r.1 then runImps load disk self rel is (markModule r.2 c.name) (addImport acc c.name)
          else (none, r.2)

/-- `GlobalContextMgr.load_file`: drop a context of the same name, run the script (its imports), register.
`prog src` = the import statements the source text `src` executes.  Fuel = recursion depth
(exhaustion stands for Python's `RecursionError`). -/
def loadCtx (disk : List File) (prog : Nat → List Imp) : Nat → St → Pending → Bool × St
  | 0, st, _ => (false, st)
  | fuel + 1, st, p =>
    let st1 : St := { ctxs := st.ctxs.filter (fun c => !(c.name == p.name)), events := st.events ++ [(p.name, p.src)] }
    let r := runImps (loadCtx disk prog fuel) disk p.name p.relImport (prog p.src) st1 []
    match r.1 with
    | none => (false, r.2)
    | some imps =>
      (true, { r.2 with ctxs := r.2.ctxs.filter (fun c => !(c.name == p.name)) ++
                [{ name := p.name, path := p.path, relImport := p.relImport, src := p.src, mtime := p.mtime,
                   appCfg := p.appCfg, imports := imps, isModule := false, oid := st.events.length }] })

def pendingOf (e : Entry) : Pending :=
  { name := e.name, path := e.path, relImport := e.relImport, appCfg := e.appCfg, src := e.src, mtime := e.mtime }

def deleteCtxs (st : St) (del : List Name) : St :=
  { st with ctxs := st.ctxs.filter (fun c => !del.contains c.name) }

/-- "delete contexts that are no longer needed", then "load the requested files" in sorted order -/
def applyPlan (fuel : Nat) (disk : List File) (prog : Nat → List Imp) (st : St) (p : Plan) : St :=
  ((sortEntries p.ents).filter (fun e => e.autoload && e.force)).foldl
    (fun s e => (loadCtx disk prog fuel s (pendingOf e)).2) (deleteCtxs st p.del)

/-- one `pyscript.reload` call.  `disk` = all `.py` files in sorted path order. -/
def reload (fuelR fuelL : Nat) (rows : List Row) (apps : AppsCfg) (disk : List File) (prog : Nat → List Imp)
    (only : Only) (st : St) : St :=
  match plan fuelR (sortCtxs (st.ctxs.filter (fun c => isScriptCtx c.name))) (globRead rows apps disk) only with
  | none => st
  | some p => applyPlan fuelL disk prog st p

end PsModel.C10
