/-!
# C03 model (b) – static name resolution of `EvalFunc.resolve_nonlocals`

A function `S` nested in functions `E₁ … Eₙ` (innermost first) mentions a name `x`.  `resolve_nonlocals` (eval.py) decides
at definition time of `S` where `x` lives:

* `x` declared `global` in `S` → looked up in the global symbol table at run time;
* `x` assigned in `S` (parameter, assignment-like statement, def/class name, …) and not declared `nonlocal` → a local of `S`;
* otherwise the variables of the enclosing function's running call (`ast_ctx.curr_func_sym_table`) are searched for an
  `EvalLocalVar` cell named `x`; a hit is shared; no hit → the name is resolved at run time among globals / builtins.

The table of an enclosing function `E` holds a cell for `x` when `x` is a local of `E` (every function with an inner `def`
wraps its locals in cells) or when `E` itself resolved `x` to an outer cell at *its* definition time – which it does for every
name it mentions, and `get_names_set` makes it mention every name that is free in a function nested in it.  A name that `E`
declares `global` never gets a cell in `E`'s table.

Before commit "scoping is lexical" the search went on through further tables (`sym_table_stack`, the callers' tables);
`ScopeCfg.lexicalOnly = false` keeps that shape with the lexical chain standing in for the stack.
-/
namespace PsModel.C03

structure FnScope where
  params : List String
  binds : List String          -- names bound by the body's assignment-like statements
  globals : List String
  nonlocals : List String
  mentions : List String       -- names the function's OWN body mentions (not counting nested functions)
deriving Repr, DecidableEq

/-- where a name mentioned in a function lives -/
inductive Where where
  | local                      -- a local of the function itself
  | cell (depth : Nat)         -- the local of the enclosing function `depth` levels out (1 = parent)
  | global                     -- resolved at run time in the module globals / builtins
deriving Repr, DecidableEq

structure ScopeCfg where
  lexicalOnly : Bool           -- only the enclosing function's table is searched
  nonlocalPropagates : Bool    -- a name a nested function declares nonlocal counts as mentioned by the enclosing function
deriving Repr, DecidableEq

def ScopeCfg.preFix : ScopeCfg := ⟨false, false⟩

namespace Current
def scopeCfg : ScopeCfg := ⟨true, true⟩
end Current

def FnScope.isLocal (s : FnScope) (x : String) : Bool :=
  (s.params.contains x || s.binds.contains x) && !s.globals.contains x && !s.nonlocals.contains x

namespace PS
/-- `get_names_set` on a nested def: is `x` handed up to the enclosing function as one of the names it mentions?
`ment` = the nested function mentions `x` (itself or through its own nested functions) -/
def handsUp (cfg : ScopeCfg) (s : FnScope) (x : String) (ment : Bool) : Bool :=
  ment && !s.globals.contains x &&
    !(if cfg.nonlocalPropagates then s.isLocal x
      else (s.params.contains x || s.binds.contains x) && !s.globals.contains x)   -- the nonlocal declaration was not seen

/-- the entry for `x` in the symbol table of enclosing function `e` (at depth `d`); `ment`: does `e` mention `x`;
`outer` is what `e` itself found for `x` when it was defined -/
def entry (x : String) (d : Nat) (e : FnScope) (ment : Bool) (outer : Option Nat) : Option Nat :=
  if e.globals.contains x then none                      -- `if var_name in global_names: continue`
  else if e.isLocal x then some d                        -- a cell owned by this call of e
  else if ment then outer                                -- e captured an outer cell when IT was defined
  else none

/-- what the search yields: depth of the owner of the cell found for `x`; `up` = the function just inside handed `x` up -/
def lookup (cfg : ScopeCfg) (x : String) : Nat → Bool → List FnScope → Option Nat
  | _, _, [] => none
  | d, up, e :: rest =>
    let ment := e.mentions.contains x || up
    let outer := lookup cfg x (d + 1) (handsUp cfg e x ment) rest
    match entry x d e ment outer with
    | some o => some o
    | none => if cfg.lexicalOnly then none else outer

/-- `resolve_nonlocals` for a name mentioned in `s` -/
def resolve (cfg : ScopeCfg) (s : FnScope) (chain : List FnScope) (x : String) : Where :=
  if s.globals.contains x then .global
  else if s.isLocal x then .local
  else match lookup cfg x 1 (handsUp cfg s x true) chain with
    | some d => .cell d
    | none => .global
end PS

end PsModel.C03

/-! ## (c) which statements make a name a local of the function (`get_names_set` / `get_target_names`) -/
namespace PsModel.C03

inductive Tgt where
  | name (x : String)
  | tuple (ts : List Tgt)
  | list (ts : List Tgt)
  | starred (t : Tgt)
  | other                        -- attribute / subscript target: binds no name
deriving Repr

/-- the statement / expression kinds that carry targets -/
inductive Kind where
  | assign | aug | ann | forT | withT | walrus | handler | defName | className | del | importN | compVar
  | plain                        -- anything else (if / while / try bodies …): only its nested statements matter
deriving Repr, DecidableEq

/-- a function body in normal form: every node is (kind, its targets, the statements nested in it, not crossing a def) -/
inductive Stmt where
  | node (kind : Kind) (ts : List Tgt) (body : List Stmt)
deriving Repr

structure BindCfg where
  annAssignBinds : Bool          -- fixed by 98e0127
  listTargets : Bool             -- fixed by 98e0127 ([a, b] = …, nested *rest)
  compVarNotLocal : Bool         -- fixed by cc1c3b5
  importBinds : Bool             -- fixed by 232f02b
deriving Repr, DecidableEq

def BindCfg.preFix : BindCfg := ⟨false, false, false, false⟩

namespace Current
def bindCfg : BindCfg := ⟨true, true, true, true⟩
end Current

namespace PS
mutual
/-- `get_target_names` -/
def targetNames (cfg : BindCfg) : Tgt → List String
  | .name x => [x]
  | .tuple ts => elemNames cfg ts
  | .list ts => if cfg.listTargets then elemNames cfg ts else []
  | .starred _ => []                                  -- a starred target only occurs as a tuple/list element
  | .other => []
def elemNames (cfg : BindCfg) : List Tgt → List String
  | [] => []
  | .starred t :: rest =>
    (if cfg.listTargets then targetNames cfg t
     else match t with | .name x => [x] | _ => []) ++ elemNames cfg rest      -- was `lhs_elt.value.id`
  | t :: rest => targetNames cfg t ++ elemNames cfg rest
end

/-- does `get_names_set` record the targets of this node kind in `local_names`? -/
def kindBinds (cfg : BindCfg) : Kind → Bool
  | .assign | .aug | .forT | .withT | .walrus | .handler | .defName | .className => true
  | .ann => cfg.annAssignBinds
  | .compVar => !cfg.compVarNotLocal
  | .del => true                                      -- only for a plain name, see `nodeNames`
  | .importN => cfg.importBinds
  | .plain => false

def nodeNames (cfg : BindCfg) (k : Kind) (ts : List Tgt) : List String :=
  if !kindBinds cfg k then []
  else if k = .del then ts.flatMap fun t => match t with | .name x => [x] | _ => []   -- `isinstance(arg1, ast.Name)`
  else ts.flatMap (targetNames cfg)

mutual
def locals (cfg : BindCfg) : Stmt → List String
  | .node k ts body => nodeNames cfg k ts ++ localsL cfg body
def localsL (cfg : BindCfg) : List Stmt → List String
  | [] => []
  | s :: rest => locals cfg s ++ localsL cfg rest
end
end PS

end PsModel.C03
