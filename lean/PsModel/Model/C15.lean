/-!
# C15 – executable model of `task.wait_until` (core Lean only), both subsystems

* legacy: `trigger.py` `TrigTime.wait_until` – subscribe in code order (state check-now, `State.notify_add`,
  `Event.notify_add`, `Mqtt.notify_add`, with the partial unsubscribe on expression parse errors), the wait loop
  (deadline = next time-trigger instant / timeout, recomputed on every wake-up), unsubscribe AFTER the loop;
* new: `decorator.py` `DecoratorRegistry.wait_until` + `WaitUntilDecoratorManager` – build (timeout decorator only
  when `timeout` is truthy), `validate` (all expressions parsed first), `start` every decorator in registry order
  (a check-now hit or a time trigger without future instant resolves the future during start), await the future,
  `stop` on the first dispatch / exception.

Time is `Nat` milliseconds.  The history after the call is a list of timed items that can reach the waiter: a change
of the watched state variable, an event of the awaited type, or the cancellation of the waiting task (what
`task.unique` / `task.cancel` do).  State triggers are modelled without `state_hold` / `state_hold_false` (C05).
-/
namespace PsModel.C15


/-- a time trigger as `wait_until` sees it: nothing, an absolute instant, or `once(now + d)` -/
inductive TimeSpec where
  | none
  | abs (t : Nat)
  | rel (d : Nat)
deriving DecidableEq, Repr

/-- state trigger expression over the value of the watched variable: `none` = evaluation raises -/
structure StateTrig where
  expr : Nat → Option Bool
  checkNow : Bool
  parseOK : Bool

/-- event trigger: optional filter over the event's payload (`none` = raises), and whether the filter text parses -/
structure EvTrig where
  filt : Option (Nat → Option Bool)
  parseOK : Bool

/-- MQTT (and, identically, webhook) trigger: only its subscription life cycle matters here (delivery is C08) -/
structure MqTrig where
  parseOK : Bool

structure Cfg where
  state : Option StateTrig
  time : TimeSpec
  event : Option EvTrig
  mqtt : Option MqTrig
  timeout : Option Nat

inductive Item where
  | state (v : Nat)
  | event (d : Nat)
  | cancel
deriving DecidableEq, Repr

abbrev Hist := List (Nat × Item)

inductive Ret where
  | state (v : Option Nat)      -- `none`: the check-now return `{"trigger_type": "state"}`
  | time (t : Nat)
  | event (d : Nat)
  | timeout
  | none
deriving DecidableEq, Repr

inductive ExcKind where
  | parse | eval | runtime
deriving DecidableEq, Repr

inductive Exit where
  | ret (t : Nat) (r : Ret)
  | exc (t : Nat) (k : ExcKind)
  | cancelled (t : Nat)
  | waiting
deriving DecidableEq, Repr

def Exit.leavesRunning : Exit → Bool
  | .cancelled _ => true
  | .waiting => true
  | _ => false

/-- what stays registered: `State.notify[var]`, `Event.notify[type]` + bus listeners of the type,
`Mqtt.notify[topic]` + MQTT subscriptions, live background tasks of decorators (new subsystem) -/
structure Tables where
  stSubs : List Nat
  evSubs : List Nat
  evListeners : Nat
  mqSubs : List Nat
  mqListeners : Nat
  tasks : Nat
deriving DecidableEq, Repr

namespace Tables
/-- `State.notify_add` -/
def stAdd (tb : Tables) (q : Nat) : Tables := { tb with stSubs := tb.stSubs ++ [q] }
/-- `State.notify_del` -/
def stDel (tb : Tables) (q : Nat) : Tables := { tb with stSubs := tb.stSubs.erase q }
/-- `Event.notify_add`: first subscriber of the type registers the bus listener -/
def evAdd (tb : Tables) (q : Nat) : Tables :=
  { tb with evListeners := if tb.evSubs = [] then tb.evListeners + 1 else tb.evListeners,
            evSubs := if q ∈ tb.evSubs then tb.evSubs else tb.evSubs ++ [q] }
/-- `Event.notify_del`: last subscriber removes the bus listener -/
def evDel (tb : Tables) (q : Nat) : Tables :=
  if q ∈ tb.evSubs then
    { tb with evSubs := tb.evSubs.erase q,
              evListeners := if tb.evSubs.erase q = [] then tb.evListeners - 1 else tb.evListeners }
  else tb
def mqAdd (tb : Tables) (q : Nat) : Tables :=
  { tb with mqListeners := if tb.mqSubs = [] then tb.mqListeners + 1 else tb.mqListeners,
            mqSubs := if q ∈ tb.mqSubs then tb.mqSubs else tb.mqSubs ++ [q] }
def mqDel (tb : Tables) (q : Nat) : Tables :=
  if q ∈ tb.mqSubs then
    { tb with mqSubs := tb.mqSubs.erase q,
              mqListeners := if tb.mqSubs.erase q = [] then tb.mqListeners - 1 else tb.mqListeners }
  else tb
end Tables

/-! ## deviation flags

Each flag selects between the shape the code had before a `fix:` commit of /repo (`true`) and the repaired shape
(`false`).  `Flags.current` is what the correspondence check ties to the working tree; `Flags.preFix` is the tree
before the three commits (kept for the `_regress_` theorems). -/
structure Flags where
  /-- legacy: `startup_time` reset inside the wait loop, so `once(now + d)` is re-anchored by every wake-up
  (repaired by 28f0376: `startup_time = None` moved before `while True`) -/
  reanchor : Bool
  /-- new: `if timeout := kwargs.get("timeout")` – 0 counts as "no timeout" (repaired by 74d9745: `is not None`) -/
  timeout0Absent : Bool
  /-- new: a cancelled waiter does not stop its `WaitUntilDecoratorManager` (repaired by d8d17a4: `try … finally:
  if dm.status is RUNNING: await dm.stop()`) -/
  cancelNoStop : Bool
  /-- new: a time trigger without future instant dispatches `none` whatever else the manager holds (repaired by
  3b0ef9c: only when it is the ONLY trigger decorator of the manager – no other trigger, no timeout decorator) -/
  noneEager : Bool
  /-- legacy: the unsubscribe block comes after the wait loop and a filter parse error removes only the state
  subscription (repaired by a3cf272: registration of event/mqtt/webhook and the whole loop inside `try`, the four
  `notify_del` calls in its `finally`) -/
  legacyNoFinally : Bool
deriving DecidableEq, Repr

def Flags.current : Flags := { reanchor := false, timeout0Absent := false, cancelNoStop := false, noneEager := false,
                                 legacyNoFinally := false }
def Flags.preFix : Flags := { reanchor := true, timeout0Absent := true, cancelNoStop := true, noneEager := true,
                                legacyNoFinally := true }

/-! ## shared pieces -/

/-- `timer_trigger_next` for the three shapes: the next instant strictly after `anchor` -/
def timeNext : TimeSpec → Nat → Option Nat
  | .none, _ => Option.none
  | .abs t, anchor => if anchor < t then some t else Option.none
  | .rel d, anchor => some (anchor + d)

inductive DKind where
  | time | timeout
deriving DecidableEq, Repr

/-- the wait deadline: the time instant unless the timeout is strictly sooner -/
def deadline (tn to : Option Nat) : Option (Nat × DKind) :=
  match tn, to with
  | Option.none, Option.none => Option.none
  | some t, Option.none => some (t, .time)
  | Option.none, some o => some (o, .timeout)
  | some t, some o => if o < t then some (o, .timeout) else some (t, .time)

def retOf (d : Nat) : DKind → Exit
  | .time => .ret d (.time d)
  | .timeout => .ret d .timeout

def callFilt (f : Option (Nat → Option Bool)) (d : Nat) : Option Bool :=
  match f with
  | Option.none => some true
  | some g => g d

/-- what one item does to the waiter: ends the wait, wakes the loop without ending it, or never reaches it -/
inductive Act where
  | stop (e : Exit)
  | wake
  | skip

def react (cfg : Cfg) (t : Nat) : Item → Act
  | .cancel => .stop (.cancelled t)
  | .state v =>
    match cfg.state with
    | Option.none => .skip
    | some s =>
      match s.expr v with
      | Option.none => .stop (.exc t .eval)
      | some true => .stop (.ret t (.state (some v)))
      | some false => .wake
  | .event d =>
    match cfg.event with
    | Option.none => .skip
    | some e =>
      match callFilt e.filt d with
      | Option.none => .stop (.exc t .eval)
      | some true => .stop (.ret t (.event d))
      | some false => .wake

/-- handle one delivered item: end the wait, or continue (woken / not even woken) -/
def onItem (cfg : Cfg) (t : Nat) (it : Item) (contWake contSkip : Exit) : Exit :=
  match react cfg t it with
  | .stop e => e
  | .wake => contWake
  | .skip => contSkip

def hasListen (cfg : Cfg) : Bool := cfg.state.isSome || cfg.event.isSome || cfg.mqtt.isSome

def hasTime (cfg : Cfg) : Bool := cfg.time != .none

/-! ## legacy -/
namespace Legacy

/-- `timer_trigger_next(time_trigger, now, startup_time)` inside the loop.  Pre-fix: `startup_time = now` on every
iteration, i.e. `timeNext` at the current anchor.  Repaired: `startup_time` is the first `now` (= the call), so
`once(now + d)` denotes the instant `call + d`, still offered while `now < call + d` (or at the very first iteration) -/
def tnext (fl : Flags) (ts : TimeSpec) (call anchor : Nat) : Option Nat :=
  if fl.reanchor then timeNext ts anchor
  else
    match ts with
    | .rel d => if anchor = call ∨ anchor < call + d then some (call + d) else Option.none
    | other => timeNext other anchor

/-- decided at the top of a loop iteration without waiting: timeout already over / nothing to wait for -/
def pre (fl : Flags) (cfg : Cfg) (call anchor : Nat) : Option Exit :=
  if (match cfg.timeout with | some T => decide (call + T ≤ anchor) | Option.none => false) then
    some (.ret anchor .timeout)
  else if (tnext fl cfg.time call anchor).isNone && cfg.timeout.isNone && !hasListen cfg then
    some (.ret anchor .none)
  else Option.none

def dl (fl : Flags) (cfg : Cfg) (call anchor : Nat) : Option (Nat × DKind) :=
  deadline (tnext fl cfg.time call anchor) (cfg.timeout.map (call + ·))

/-- the `while True` loop: `anchor` = `now` of the current iteration (every wake-up re-evaluates the time trigger
with `startup_time = now`) -/
def loop (fl : Flags) (cfg : Cfg) (call : Nat) : Hist → Nat → Exit
  | [], anchor =>
    match pre fl cfg call anchor with
    | some e => e
    | Option.none =>
      match dl fl cfg call anchor with
      | Option.none => .waiting
      | some (d, k) => retOf d k
  | (t, it) :: rest, anchor =>
    match pre fl cfg call anchor with
    | some e => e
    | Option.none =>
      match dl fl cfg call anchor with
      | Option.none => onItem cfg t it (loop fl cfg call rest t) (loop fl cfg call rest anchor)
      | some (d, k) =>
        if d < t then retOf d k
        else onItem cfg t it (loop fl cfg call rest t) (loop fl cfg call rest anchor)

/-- `await asyncio.sleep(timeout)` of the no-trigger case (cancellable) -/
def sleepExit (call T : Nat) : Hist → Exit
  | [] => .ret (call + T) .timeout
  | (t, it) :: rest =>
    if call + T < t then .ret (call + T) .timeout
    else match it with
      | .cancel => .cancelled t
      | _ => sleepExit call T rest

def stateStage (cfg : Cfg) (q : Nat) (tb : Tables) (v0 : Nat) (call : Nat) : Except (Exit × Tables) Tables :=
  match cfg.state with
  | Option.none => .ok tb
  | some s =>
    if !s.parseOK then .error (.exc call .parse, tb)
    else if s.checkNow then
      match s.expr v0 with
      | Option.none => .error (.exc call .eval, tb)
      | some true => .error (.ret call (.state Option.none), tb)
      | some false => .ok (tb.stAdd q)
    else .ok (tb.stAdd q)

/-- `if len(state_trig_ident) > 0: State.notify_del(...)` – the ONLY clean-up on a parse error -/
def stDelIf (cfg : Cfg) (q : Nat) (tb : Tables) : Tables := if cfg.state.isSome then tb.stDel q else tb

/-- the unsubscribe block: pre-fix after the loop, repaired in the `finally` of the `try` that starts right after
the state subscription (every `notify_del` is a no-op when the queue is not subscribed) -/
def cleanup (cfg : Cfg) (q : Nat) (tb : Tables) : Tables :=
  let t1 := stDelIf cfg q tb
  let t2 := if cfg.event.isSome then t1.evDel q else t1
  if cfg.mqtt.isSome then t2.mqDel q else t2

/-- tables after a filter of event/mqtt/webhook did not parse: the `except:` branch removes the state subscription;
repaired: the enclosing `finally` then removes whatever else was registered before -/
def onParseError (fl : Flags) (cfg : Cfg) (q : Nat) (tb : Tables) : Tables :=
  if fl.legacyNoFinally then stDelIf cfg q tb else cleanup cfg q (stDelIf cfg q tb)

def eventStage (fl : Flags) (cfg : Cfg) (q : Nat) (tb : Tables) (call : Nat) : Except (Exit × Tables) Tables :=
  match cfg.event with
  | Option.none => .ok tb
  | some e => if !e.parseOK then .error (.exc call .parse, onParseError fl cfg q tb) else .ok (tb.evAdd q)

def mqttStage (fl : Flags) (cfg : Cfg) (q : Nat) (tb : Tables) (call : Nat) : Except (Exit × Tables) Tables :=
  match cfg.mqtt with
  | Option.none => .ok tb
  | some m => if !m.parseOK then .error (.exc call .parse, onParseError fl cfg q tb) else .ok (tb.mqAdd q)

def setup (fl : Flags) (cfg : Cfg) (q : Nat) (tb : Tables) (v0 : Nat) (call : Nat) : Except (Exit × Tables) Tables := do
  let t1 ← stateStage cfg q tb v0 call
  let t2 ← eventStage fl cfg q t1 call
  mqttStage fl cfg q t2 call

/-- do the subscriptions stay when the wait ends this way?  Still waiting: yes.  Cancelled waiter: pre-fix yes (the
unsubscribe block is skipped), repaired no (`finally`).  Return / exception: never. -/
def keeps (fl : Flags) : Exit → Bool
  | .waiting => true
  | .cancelled _ => fl.legacyNoFinally
  | _ => false

/-- one call of `task.wait_until`: `q` = its fresh queue, `tb` = the tables before, `v0` = current value of the
watched variable, `call` = instant of the call, `hist` = what happens afterwards -/
def run (fl : Flags) (cfg : Cfg) (q : Nat) (tb : Tables) (v0 : Nat) (call : Nat) (hist : Hist) : Exit × Tables :=
  if !(hasListen cfg || hasTime cfg) then
    match cfg.timeout with
    | some T => (sleepExit call T hist, tb)
    | Option.none => (.ret call .none, tb)
  else
    match setup fl cfg q tb v0 call with
    | .error r => r
    | .ok tb1 =>
      let e := loop fl cfg call hist call
      (e, if keeps fl e then tb1 else cleanup cfg q tb1)

end Legacy

/-! ## new -/
namespace New

/-- the timeout the manager acts on.  Pre-fix `if timeout := kwargs.get("timeout")`: 0 counts as absent;
repaired `is not None`: every given timeout -/
def effTimeout (fl : Flags) (cfg : Cfg) : Option Nat :=
  if fl.timeout0Absent then
    match cfg.timeout with
    | some 0 => Option.none
    | x => x
  else cfg.timeout

/-- deadlines are fixed when the decorators start (`dm.startup_time`) -/
def dl (fl : Flags) (cfg : Cfg) (call : Nat) : Option (Nat × DKind) :=
  deadline (timeNext cfg.time call) ((effTimeout fl cfg).map (call + ·))

def loop (fl : Flags) (cfg : Cfg) (call : Nat) : Hist → Exit
  | [] =>
    match dl fl cfg call with
    | Option.none => .waiting
    | some (d, k) => retOf d k
  | (t, it) :: rest =>
    match dl fl cfg call with
    | Option.none => onItem cfg t it (loop fl cfg call rest) (loop fl cfg call rest)
    | some (d, k) =>
      if d < t then retOf d k
      else onItem cfg t it (loop fl cfg call rest) (loop fl cfg call rest)

/-- which decorators of the temporary manager have been started -/
structure Started where
  to : Bool := false
  st : Bool := false
  tm : Bool := false
  ev : Bool := false
  mq : Bool := false
deriving DecidableEq, Repr

/-- `DecoratorManager.stop`: every started decorator releases what its `start` took -/
def stopAll (q : Nat) (s : Started) (tb : Tables) : Tables :=
  let t1 := if s.to then { tb with tasks := tb.tasks - 1 } else tb
  let t2 := if s.st then { t1 with tasks := t1.tasks - 1, stSubs := t1.stSubs.erase q } else t1
  let t3 := if s.tm then { t2 with tasks := t2.tasks - 1 } else t2
  let t4 := if s.ev then { t3 with evListeners := t3.evListeners - 1 } else t3
  if s.mq then { t4 with mqListeners := t4.mqListeners - 1 } else t4

abbrev Stage := Except (Exit × Tables) (Started × Tables)

def timeoutStart (fl : Flags) (cfg : Cfg) (s : Started) (tb : Tables) : Stage :=
  if (effTimeout fl cfg).isSome then .ok ({ s with to := true }, { tb with tasks := tb.tasks + 1 }) else .ok (s, tb)

/-- `StateTriggerDecorator.start`: `notify_add`, background `_cycle` task whose check-now may dispatch at once -/
def stateStart (cfg : Cfg) (q : Nat) (v0 : Nat) (call : Nat) (s : Started) (tb : Tables) : Stage :=
  match cfg.state with
  | Option.none => .ok (s, tb)
  | some st =>
    let s1 := { s with st := true }
    let tb1 := { tb with stSubs := tb.stSubs ++ [q], tasks := tb.tasks + 1 }
    if st.checkNow then
      match st.expr v0 with
      | Option.none => .error (.exc call .eval, stopAll q s1 tb1)
      | some true => .error (.ret call (.state Option.none), stopAll q s1 tb1)
      | some false => .ok (s1, tb1)
    else .ok (s1, tb1)

/-- does an expired time trigger end the wait with `none`?  Pre-fix: always (`isinstance(self.dm,
WaitUntilDecoratorManager)`).  Repaired: only when `len(dm.get_decorators(TriggerDecorator)) == 1`, i.e. no state /
event / MQTT decorator and no timeout decorator were added to the manager. -/
def noneNow (fl : Flags) (cfg : Cfg) : Bool :=
  fl.noneEager || (!hasListen cfg && (effTimeout fl cfg).isNone)

/-- `TimeTriggerDecorator.start`: background `_cycle`.  Without a future instant it either dispatches `none` at
once (`noneNow`) or just ends – the finished cycle task holds nothing, so nothing is recorded as started. -/
def timeStart (fl : Flags) (cfg : Cfg) (q : Nat) (call : Nat) (s : Started) (tb : Tables) : Stage :=
  if hasTime cfg then
    let s1 := { s with tm := true }
    let tb1 := { tb with tasks := tb.tasks + 1 }
    if (timeNext cfg.time call).isNone then
      (if noneNow fl cfg then .error (.ret call .none, stopAll q s1 tb1) else .ok (s, tb))
    else .ok (s1, tb1)
  else .ok (s, tb)

def eventStart (cfg : Cfg) (s : Started) (tb : Tables) : Stage :=
  if cfg.event.isSome then .ok ({ s with ev := true }, { tb with evListeners := tb.evListeners + 1 }) else .ok (s, tb)

def mqttStart (cfg : Cfg) (s : Started) (tb : Tables) : Stage :=
  if cfg.mqtt.isSome then .ok ({ s with mq := true }, { tb with mqListeners := tb.mqListeners + 1 }) else .ok (s, tb)

def Stage.andThen (r : Stage) (f : Started → Tables → Stage) : Stage :=
  match r with
  | .error e => .error e
  | .ok p => f p.1 p.2

/-- the decorators after the state trigger, in registry order: time, event, mqtt -/
def afterState (fl : Flags) (cfg : Cfg) (q : Nat) (call : Nat) (s1 : Started) (t1 : Tables) : Stage :=
  (timeStart fl cfg q call s1 t1).andThen fun s2 t2 =>
  (eventStart cfg s2 t2).andThen fun s3 t3 => mqttStart cfg s3 t3

/-- `dm.start()`: timeout decorator (added in `__init__`), then registry order state, time, event, mqtt -/
def start (fl : Flags) (cfg : Cfg) (q : Nat) (tb : Tables) (v0 : Nat) (call : Nat) : Stage :=
  (timeoutStart fl cfg {} tb).andThen fun s0 t0 =>
  (stateStart cfg q v0 call s0 t0).andThen (afterState fl cfg q call)

def parseAll (cfg : Cfg) : Bool :=
  (match cfg.state with | some s => s.parseOK | Option.none => true) &&
  (match cfg.event with | some e => e.parseOK | Option.none => true) &&
  (match cfg.mqtt with | some m => m.parseOK | Option.none => true)

def noKwargs (cfg : Cfg) : Bool := !(hasListen cfg || hasTime cfg) && cfg.timeout.isNone

def noDecorators (fl : Flags) (cfg : Cfg) : Bool := !(hasListen cfg || hasTime cfg) && (effTimeout fl cfg).isNone

/-- does the manager stay as it is when the wait ends this way?  Still waiting: yes.  Cancelled waiter: pre-fix
yes (nothing stops it), repaired no (`finally: await dm.stop()`).  Return / exception: never. -/
def keeps (fl : Flags) : Exit → Bool
  | .waiting => true
  | .cancelled _ => fl.cancelNoStop
  | _ => false

/-- `await dm.wait_until()`: the first dispatch / exception stops everything; see `keeps` for a cancelled waiter -/
def finish (fl : Flags) (cfg : Cfg) (q : Nat) (call : Nat) (hist : Hist) : Stage → Exit × Tables
  | .error r => r
  | .ok p => (loop fl cfg call hist, if keeps fl (loop fl cfg call hist) then p.2 else stopAll q p.1 p.2)

def run (fl : Flags) (cfg : Cfg) (q : Nat) (tb : Tables) (v0 : Nat) (call : Nat) (hist : Hist) : Exit × Tables :=
  if noKwargs cfg then (.ret call .none, tb)
  else if !parseAll cfg then (.exc call .parse, tb)
  else if noDecorators fl cfg then (.exc call .runtime, tb)
  else finish fl cfg q call hist (start fl cfg q tb v0 call)

end New

/-! ## the call inside a whole timeline -/

/-- value of the watched variable at the call: the last change not after it -/
def valueAt (v : Nat) (call : Nat) : Hist → Nat
  | [] => v
  | (t, it) :: rest =>
    if t ≤ call then
      (match it with
       | .state w => valueAt w call rest
       | _ => valueAt v call rest)
    else v

def after (call : Nat) (h : Hist) : Hist := h.filter (fun p => decide (call < p.1))

def Legacy.runAt (fl : Flags) (cfg : Cfg) (q : Nat) (tb : Tables) (v : Nat) (call : Nat) (full : Hist) : Exit × Tables :=
  Legacy.run fl cfg q tb (valueAt v call full) call (after call full)

def New.runAt (fl : Flags) (cfg : Cfg) (q : Nat) (tb : Tables) (v : Nat) (call : Nat) (full : Hist) : Exit × Tables :=
  New.run fl cfg q tb (valueAt v call full) call (after call full)

end PsModel.C15
