/-!
# C15 – executable model of `task.wait_until` (core Lean only), both subsystems

* legacy: `trigger.py` `TrigTime.wait_until` – subscribe in code order (state check-now, `State.notify_add`,
  `Event.notify_add`, `Mqtt.notify_add`, with the partial unsubscribe on expression parse errors), the wait loop
  (deadline = next time-trigger instant / timeout, recomputed on every wake-up), unsubscribe AFTER the loop;
* new: `decorator.py` `DecoratorRegistry.wait_until` + `WaitUntilDecoratorManager` – build (timeout decorator only
  when `timeout` is truthy), `validate` (all expressions parsed first), `start` every decorator in registry order
  (a check-now hit or a time trigger without future instant resolves the future during start), await the future,
  `stop` on the first dispatch / exception.

Time is `Nat` milliseconds.  The history after the call is a list of timed items that can reach the waiter: a change
of the watched state variable, an event of the awaited type, or the cancellation of the waiting task (what
`task.unique` / `task.cancel` do).  `state_hold` / `state_hold_false` are modelled by separate executable hold
machines (`Legacy.loopH`, `New.loopH`, used when the state trigger has a hold) that are tied to the code by the
correspondence check; the first-of theorems speak about calls without holds.
-/
namespace PsModel.C15


/-- a time trigger as `wait_until` sees it: nothing, an absolute instant, or `once(now + d)` -/
inductive TimeSpec where
  | none
  | abs (t : Nat)
  | rel (d : Nat)
deriving DecidableEq, Repr

/-- state trigger expression over the value of the watched variable: `none` = evaluation raises -/
structure StateTrig where
  expr : Nat → Option Bool
  checkNow : Bool
  parseOK : Bool
  /-- `state_hold` (ms): the expression has to stay true that long -/
  hold : Option Nat := Option.none
  /-- `state_hold_false` (ms): the expression has to have been false that long before it turns true -/
  holdFalse : Option Nat := Option.none

/-- is the start-up check allowed to end the call at once?  (`state_check_now` without `state_hold`; with
`state_hold` a true check only starts the hold, and `state_hold_false` alone only records the initial value) -/
def StateTrig.immediate (s : StateTrig) : Bool := s.checkNow && s.hold.isNone

/-- `check_state_expr_on_start = state_check_now or state_hold_false is not None` -/
def StateTrig.checkOnStart (s : StateTrig) : Bool := s.checkNow || s.holdFalse.isSome

/-- event trigger: optional filter over the event's payload (`none` = raises), and whether the filter text parses -/
structure EvTrig where
  filt : Option (Nat → Option Bool)
  parseOK : Bool

/-- MQTT (and, identically, webhook) trigger: only its subscription life cycle matters here (delivery is C08) -/
structure MqTrig where
  parseOK : Bool

structure Cfg where
  state : Option StateTrig
  time : TimeSpec
  event : Option EvTrig
  mqtt : Option MqTrig
  timeout : Option Nat

inductive Item where
  | state (v : Nat)
  | event (d : Nat)
  | cancel
deriving DecidableEq, Repr

abbrev Hist := List (Nat × Item)

inductive Ret where
  | state (v : Option Nat)      -- `none`: the check-now return `{"trigger_type": "state"}`
  | time (t : Nat)
  | event (d : Nat)
  | timeout
  | none
deriving DecidableEq, Repr

inductive ExcKind where
  | parse | eval | runtime
deriving DecidableEq, Repr

inductive Exit where
  | ret (t : Nat) (r : Ret)
  | exc (t : Nat) (k : ExcKind)
  | cancelled (t : Nat)
  | waiting
deriving DecidableEq, Repr

def Exit.leavesRunning : Exit → Bool
  | .cancelled _ => true
  | .waiting => true
  | _ => false

/-- what stays registered: `State.notify[var]`, `Event.notify[type]` + bus listeners of the type,
`Mqtt.notify[topic]` + MQTT subscriptions, live background tasks of decorators (new subsystem) -/
structure Tables where
  stSubs : List Nat
  evSubs : List Nat
  evListeners : Nat
  mqSubs : List Nat
  mqListeners : Nat
  tasks : Nat
deriving DecidableEq, Repr

namespace Tables
/-- `State.notify_add` -/
def stAdd (tb : Tables) (q : Nat) : Tables := { tb with stSubs := tb.stSubs ++ [q] }
/-- `State.notify_del` -/
def stDel (tb : Tables) (q : Nat) : Tables := { tb with stSubs := tb.stSubs.erase q }
/-- `Event.notify_add`: first subscriber of the type registers the bus listener -/
def evAdd (tb : Tables) (q : Nat) : Tables :=
  { tb with evListeners := if tb.evSubs = [] then tb.evListeners + 1 else tb.evListeners,
            evSubs := if q ∈ tb.evSubs then tb.evSubs else tb.evSubs ++ [q] }
/-- `Event.notify_del`: last subscriber removes the bus listener -/
def evDel (tb : Tables) (q : Nat) : Tables :=
  if q ∈ tb.evSubs then
    { tb with evSubs := tb.evSubs.erase q,
              evListeners := if tb.evSubs.erase q = [] then tb.evListeners - 1 else tb.evListeners }
  else tb
def mqAdd (tb : Tables) (q : Nat) : Tables :=
  { tb with mqListeners := if tb.mqSubs = [] then tb.mqListeners + 1 else tb.mqListeners,
            mqSubs := if q ∈ tb.mqSubs then tb.mqSubs else tb.mqSubs ++ [q] }
def mqDel (tb : Tables) (q : Nat) : Tables :=
  if q ∈ tb.mqSubs then
    { tb with mqSubs := tb.mqSubs.erase q,
              mqListeners := if tb.mqSubs.erase q = [] then tb.mqListeners - 1 else tb.mqListeners }
  else tb
end Tables

/-! ## deviation flags

Each flag selects between the shape the code had before a `fix:` commit of /repo (`true`) and the repaired shape
(`false`).  `Flags.current` is what the correspondence check ties to the working tree; `Flags.preFix` is the tree
before the three commits (kept for the `_regress_` theorems). -/
structure Flags where
  /-- legacy: `startup_time` reset inside the wait loop, so `once(now + d)` is re-anchored by every wake-up
  (repaired by 28f0376: `startup_time = None` moved before `while True`) -/
  reanchor : Bool
  /-- new: `if timeout := kwargs.get("timeout")` – 0 counts as "no timeout" (repaired by 74d9745: `is not None`) -/
  timeout0Absent : Bool
  /-- new: a cancelled waiter does not stop its `WaitUntilDecoratorManager` (repaired by d8d17a4: `try … finally:
  if dm.status is RUNNING: await dm.stop()`) -/
  cancelNoStop : Bool
  /-- new: a time trigger without future instant dispatches `none` whatever else the manager holds (repaired by
  3b0ef9c: only when it is the ONLY trigger decorator of the manager – no other trigger, no timeout decorator) -/
  noneEager : Bool
  /-- legacy: the unsubscribe block comes after the wait loop and a filter parse error removes only the state
  subscription (repaired by a3cf272: registration of event/mqtt/webhook and the whole loop inside `try`, the four
  `notify_del` calls in its `finally`) -/
  legacyNoFinally : Bool
deriving DecidableEq, Repr

def Flags.current : Flags := { reanchor := false, timeout0Absent := false, cancelNoStop := false, noneEager := false,
                                 legacyNoFinally := false }
def Flags.preFix : Flags := { reanchor := true, timeout0Absent := true, cancelNoStop := true, noneEager := true,
                                legacyNoFinally := true }

/-! ## shared pieces -/

/-- `timer_trigger_next` for the three shapes: the next instant strictly after `anchor` -/
def timeNext : TimeSpec → Nat → Option Nat
  | .none, _ => Option.none
  | .abs t, anchor => if anchor < t then some t else Option.none
  | .rel d, anchor => some (anchor + d)

inductive DKind where
  | time | timeout
deriving DecidableEq, Repr

/-- the wait deadline: the time instant unless the timeout is strictly sooner -/
def deadline (tn to : Option Nat) : Option (Nat × DKind) :=
  match tn, to with
  | Option.none, Option.none => Option.none
  | some t, Option.none => some (t, .time)
  | Option.none, some o => some (o, .timeout)
  | some t, some o => if o < t then some (o, .timeout) else some (t, .time)

def retOf (d : Nat) : DKind → Exit
  | .time => .ret d (.time d)
  | .timeout => .ret d .timeout

def callFilt (f : Option (Nat → Option Bool)) (d : Nat) : Option Bool :=
  match f with
  | Option.none => some true
  | some g => g d

/-- what one item does to the waiter: ends the wait, wakes the loop without ending it, or never reaches it -/
inductive Act where
  | stop (e : Exit)
  | wake
  | skip

def react (cfg : Cfg) (t : Nat) : Item → Act
  | .cancel => .stop (.cancelled t)
  | .state v =>
    match cfg.state with
    | Option.none => .skip
    | some s =>
      match s.expr v with
      | Option.none => .stop (.exc t .eval)
      | some true => .stop (.ret t (.state (some v)))
      | some false => .wake
  | .event d =>
    match cfg.event with
    | Option.none => .skip
    | some e =>
      match callFilt e.filt d with
      | Option.none => .stop (.exc t .eval)
      | some true => .stop (.ret t (.event d))
      | some false => .wake

/-- handle one delivered item: end the wait, or continue (woken / not even woken) -/
def onItem (cfg : Cfg) (t : Nat) (it : Item) (contWake contSkip : Exit) : Exit :=
  match react cfg t it with
  | .stop e => e
  | .wake => contWake
  | .skip => contSkip

def hasListen (cfg : Cfg) : Bool := cfg.state.isSome || cfg.event.isSome || cfg.mqtt.isSome

def hasTime (cfg : Cfg) : Bool := cfg.time != .none

/-! ## legacy -/
namespace Legacy

/-- `timer_trigger_next(time_trigger, now, startup_time)` inside the loop.  Pre-fix: `startup_time = now` on every
iteration, i.e. `timeNext` at the current anchor.  Repaired: `startup_time` is the first `now` (= the call), so
`once(now + d)` denotes the instant `call + d`, still offered while `now < call + d` (or at the very first iteration) -/
def tnext (fl : Flags) (ts : TimeSpec) (call anchor : Nat) : Option Nat :=
  if fl.reanchor then timeNext ts anchor
  else
    match ts with
    | .rel d => if anchor = call ∨ anchor < call + d then some (call + d) else Option.none
    | other => timeNext other anchor

/-- decided at the top of a loop iteration without waiting: timeout already over / nothing to wait for -/
def pre (fl : Flags) (cfg : Cfg) (call anchor : Nat) : Option Exit :=
  if (match cfg.timeout with | some T => decide (call + T ≤ anchor) | Option.none => false) then
    some (.ret anchor .timeout)
  else if (tnext fl cfg.time call anchor).isNone && cfg.timeout.isNone && !hasListen cfg then
    some (.ret anchor .none)
  else Option.none

def dl (fl : Flags) (cfg : Cfg) (call anchor : Nat) : Option (Nat × DKind) :=
  deadline (tnext fl cfg.time call anchor) (cfg.timeout.map (call + ·))

/-- the `while True` loop: `anchor` = `now` of the current iteration (every wake-up re-evaluates the time trigger
with `startup_time = now`) -/
def loop (fl : Flags) (cfg : Cfg) (call : Nat) : Hist → Nat → Exit
  | [], anchor =>
    match pre fl cfg call anchor with
    | some e => e
    | Option.none =>
      match dl fl cfg call anchor with
      | Option.none => .waiting
      | some (d, k) => retOf d k
  | (t, it) :: rest, anchor =>
    match pre fl cfg call anchor with
    | some e => e
    | Option.none =>
      match dl fl cfg call anchor with
      | Option.none => onItem cfg t it (loop fl cfg call rest t) (loop fl cfg call rest anchor)
      | some (d, k) =>
        if d < t then retOf d k
        else onItem cfg t it (loop fl cfg call rest t) (loop fl cfg call rest anchor)

/-- `await asyncio.sleep(timeout)` of the no-trigger case (cancellable) -/
def sleepExit (call T : Nat) : Hist → Exit
  | [] => .ret (call + T) .timeout
  | (t, it) :: rest =>
    if call + T < t then .ret (call + T) .timeout
    else match it with
      | .cancel => .cancelled t
      | _ => sleepExit call T rest

def stateStage (cfg : Cfg) (q : Nat) (tb : Tables) (v0 : Nat) (call : Nat) : Except (Exit × Tables) Tables :=
  match cfg.state with
  | Option.none => .ok tb
  | some s =>
    if !s.parseOK then .error (.exc call .parse, tb)
    else if s.checkOnStart then
      match s.expr v0 with
      | Option.none => .error (.exc call .eval, tb)
      | some true => if s.immediate then .error (.ret call (.state Option.none), tb) else .ok (tb.stAdd q)
      | some false => .ok (tb.stAdd q)
    else .ok (tb.stAdd q)

/-- `if len(state_trig_ident) > 0: State.notify_del(...)` – the ONLY clean-up on a parse error -/
def stDelIf (cfg : Cfg) (q : Nat) (tb : Tables) : Tables := if cfg.state.isSome then tb.stDel q else tb

/-- the unsubscribe block: pre-fix after the loop, repaired in the `finally` of the `try` that starts right after
the state subscription (every `notify_del` is a no-op when the queue is not subscribed) -/
def cleanup (cfg : Cfg) (q : Nat) (tb : Tables) : Tables :=
  let t1 := stDelIf cfg q tb
  let t2 := if cfg.event.isSome then t1.evDel q else t1
  if cfg.mqtt.isSome then t2.mqDel q else t2

/-- tables after a filter of event/mqtt/webhook did not parse: the `except:` branch removes the state subscription;
repaired: the enclosing `finally` then removes whatever else was registered before -/
def onParseError (fl : Flags) (cfg : Cfg) (q : Nat) (tb : Tables) : Tables :=
  if fl.legacyNoFinally then stDelIf cfg q tb else cleanup cfg q (stDelIf cfg q tb)

def eventStage (fl : Flags) (cfg : Cfg) (q : Nat) (tb : Tables) (call : Nat) : Except (Exit × Tables) Tables :=
  match cfg.event with
  | Option.none => .ok tb
  | some e => if !e.parseOK then .error (.exc call .parse, onParseError fl cfg q tb) else .ok (tb.evAdd q)

def mqttStage (fl : Flags) (cfg : Cfg) (q : Nat) (tb : Tables) (call : Nat) : Except (Exit × Tables) Tables :=
  match cfg.mqtt with
  | Option.none => .ok tb
  | some m => if !m.parseOK then .error (.exc call .parse, onParseError fl cfg q tb) else .ok (tb.mqAdd q)

def setup (fl : Flags) (cfg : Cfg) (q : Nat) (tb : Tables) (v0 : Nat) (call : Nat) : Except (Exit × Tables) Tables := do
  let t1 ← stateStage cfg q tb v0 call
  let t2 ← eventStage fl cfg q t1 call
  mqttStage fl cfg q t2 call

/-- do the subscriptions stay when the wait ends this way?  Still waiting: yes.  Cancelled waiter: pre-fix yes (the
unsubscribe block is skipped), repaired no (`finally`).  Return / exception: never. -/
def keeps (fl : Flags) : Exit → Bool
  | .waiting => true
  | .cancelled _ => fl.legacyNoFinally
  | _ => false

/-! ### the wait loop with `state_hold` / `state_hold_false` (executable mirror, tied by correspondence) -/

/-- the hold variables of the loop: `state_trig_waiting`, `last_state_trig_time`, the value of the change that
started the pending hold (`state_trig_notify_info`; `none` = the start-up check), `state_false_time` -/
structure HSt where
  waiting : Bool
  last : Nat
  info : Option Nat
  falseTime : Option Nat
deriving DecidableEq, Repr

/-- hold variables after the start-up check -/
def initH (s : StateTrig) (v0 call : Nat) : HSt :=
  if s.checkOnStart then
    let ok := (s.expr v0).getD false
    let ft := if s.holdFalse.isSome then (if ok then Option.none else some call) else Option.none
    if s.holdFalse.isSome && !s.checkNow then { waiting := false, last := 0, info := Option.none, falseTime := ft }
    else if s.hold.isSome && ok then { waiting := true, last := call, info := Option.none, falseTime := ft }
    else { waiting := false, last := 0, info := Option.none, falseTime := ft }
  else { waiting := false, last := 0, info := Option.none, falseTime := Option.none }

/-- what a state notification does to the hold variables: end the wait, or continue with new variables -/
inductive HAct where
  | stop (e : Exit)
  | cont (h : HSt)

def stateItemH (s : StateTrig) (t v : Nat) (h : HSt) : HAct :=
  match s.expr v with
  | Option.none => .stop (.exc t .eval)
  | some ok =>
    -- state_hold_false: `none` = ignore this notification altogether
    let afterFalse : Option HSt :=
      match s.holdFalse with
      | Option.none => some h
      | some n =>
        match h.falseTime with
        | Option.none => if ok then Option.none else some { h with falseTime := some t }
        | some ft =>
          if ok then (if t - ft < n then Option.none else some { h with falseTime := Option.none })
          else some h
    match afterFalse with
    | Option.none =>
      -- "wasn't False, so ignore" / "not False for long enough, start over" (the latter forgets the false time)
      .cont (match s.holdFalse, h.falseTime with
             | some _, some _ => if ok then { h with falseTime := Option.none } else h
             | _, _ => h)
    | some h1 =>
      match s.hold with
      | some _ =>
        if ok then
          .cont (if h1.waiting then h1 else { h1 with waiting := true, last := t, info := some v })
        else if h1.waiting then .cont { h1 with waiting := false }
        else .cont h1
      | Option.none => if ok then .stop (.ret t (.state (some v))) else .cont h1

/-- the loop with the hold deadline: a pending hold fires at `last + hold` when that is STRICTLY sooner than the
time / timeout deadline -/
def loopH (fl : Flags) (cfg : Cfg) (s : StateTrig) (call : Nat) : Hist → Nat → HSt → Exit
  | [], anchor, h =>
    match pre fl cfg call anchor with
    | some e => e
    | Option.none =>
      match dl fl cfg call anchor, h.waiting with
      | Option.none, false => .waiting
      | Option.none, true => .ret (h.last + s.hold.getD 0) (.state h.info)
      | some (d, k), false => retOf d k
      | some (d, k), true => if h.last + s.hold.getD 0 < d then .ret (h.last + s.hold.getD 0) (.state h.info) else retOf d k
  | (t, it) :: rest, anchor, h =>
    match pre fl cfg call anchor with
    | some e => e
    | Option.none =>
      let hd := h.last + s.hold.getD 0
      let fired : Option Exit :=
        match dl fl cfg call anchor, h.waiting with
        | Option.none, false => Option.none
        | Option.none, true => if hd < t then some (.ret hd (.state h.info)) else Option.none
        | some (d, k), false => if d < t then some (retOf d k) else Option.none
        | some (d, k), true =>
          if hd < d then (if hd < t then some (.ret hd (.state h.info)) else Option.none)
          else (if d < t then some (retOf d k) else Option.none)
      match fired with
      | some e => e
      | Option.none =>
        match it with
        | .state v =>
          (match stateItemH s t v h with
           | .stop e => e
           | .cont h' => loopH fl cfg s call rest t h')
        | other => onItem cfg t other (loopH fl cfg s call rest t h) (loopH fl cfg s call rest anchor h)

/-- the state trigger with a hold, if any -/
def holdTrig (cfg : Cfg) : Option StateTrig :=
  match cfg.state with
  | some s => if s.hold.isSome || s.holdFalse.isSome then some s else Option.none
  | Option.none => Option.none

/-- the wait of the call: the plain loop, or the hold loop when `state_hold` / `state_hold_false` is given -/
def waitLoop (fl : Flags) (cfg : Cfg) (v0 call : Nat) (hist : Hist) : Exit :=
  match holdTrig cfg with
  | Option.none => loop fl cfg call hist call
  | some s => loopH fl cfg s call hist call (initH s v0 call)

/-- one call of `task.wait_until`: `q` = its fresh queue, `tb` = the tables before, `v0` = current value of the
watched variable, `call` = instant of the call, `hist` = what happens afterwards -/
def run (fl : Flags) (cfg : Cfg) (q : Nat) (tb : Tables) (v0 : Nat) (call : Nat) (hist : Hist) : Exit × Tables :=
  if !(hasListen cfg || hasTime cfg) then
    match cfg.timeout with
    | some T => (sleepExit call T hist, tb)
    | Option.none => (.ret call .none, tb)
  else
    match setup fl cfg q tb v0 call with
    | .error r => r
    | .ok tb1 =>
      let e := waitLoop fl cfg v0 call hist
      (e, if keeps fl e then tb1 else cleanup cfg q tb1)

end Legacy

/-! ## new -/
namespace New

/-- the timeout the manager acts on.  Pre-fix `if timeout := kwargs.get("timeout")`: 0 counts as absent;
repaired `is not None`: every given timeout -/
def effTimeout (fl : Flags) (cfg : Cfg) : Option Nat :=
  if fl.timeout0Absent then
    match cfg.timeout with
    | some 0 => Option.none
    | x => x
  else cfg.timeout

/-- deadlines are fixed when the decorators start (`dm.startup_time`) -/
def dl (fl : Flags) (cfg : Cfg) (call : Nat) : Option (Nat × DKind) :=
  deadline (timeNext cfg.time call) ((effTimeout fl cfg).map (call + ·))

def loop (fl : Flags) (cfg : Cfg) (call : Nat) : Hist → Exit
  | [] =>
    match dl fl cfg call with
    | Option.none => .waiting
    | some (d, k) => retOf d k
  | (t, it) :: rest =>
    match dl fl cfg call with
    | Option.none => onItem cfg t it (loop fl cfg call rest) (loop fl cfg call rest)
    | some (d, k) =>
      if d < t then retOf d k
      else onItem cfg t it (loop fl cfg call rest) (loop fl cfg call rest)

/-- which decorators of the temporary manager have been started -/
structure Started where
  to : Bool := false
  st : Bool := false
  tm : Bool := false
  ev : Bool := false
  mq : Bool := false
deriving DecidableEq, Repr

/-- `DecoratorManager.stop`: every started decorator releases what its `start` took -/
def stopAll (q : Nat) (s : Started) (tb : Tables) : Tables :=
  let t1 := if s.to then { tb with tasks := tb.tasks - 1 } else tb
  let t2 := if s.st then { t1 with tasks := t1.tasks - 1, stSubs := t1.stSubs.erase q } else t1
  let t3 := if s.tm then { t2 with tasks := t2.tasks - 1 } else t2
  let t4 := if s.ev then { t3 with evListeners := t3.evListeners - 1 } else t3
  if s.mq then { t4 with mqListeners := t4.mqListeners - 1 } else t4

abbrev Stage := Except (Exit × Tables) (Started × Tables)

def timeoutStart (fl : Flags) (cfg : Cfg) (s : Started) (tb : Tables) : Stage :=
  if (effTimeout fl cfg).isSome then .ok ({ s with to := true }, { tb with tasks := tb.tasks + 1 }) else .ok (s, tb)

/-- `StateTriggerDecorator.start`: `notify_add`, background `_cycle` task whose check-now may dispatch at once -/
def stateStart (cfg : Cfg) (q : Nat) (v0 : Nat) (call : Nat) (s : Started) (tb : Tables) : Stage :=
  match cfg.state with
  | Option.none => .ok (s, tb)
  | some st =>
    let s1 := { s with st := true }
    let tb1 := { tb with stSubs := tb.stSubs ++ [q], tasks := tb.tasks + 1 }
    if st.checkOnStart then
      match st.expr v0 with
      | Option.none => .error (.exc call .eval, stopAll q s1 tb1)
      | some true =>
        if st.immediate then .error (.ret call (.state Option.none), stopAll q s1 tb1) else .ok (s1, tb1)
      | some false => .ok (s1, tb1)
    else .ok (s1, tb1)

/-- does an expired time trigger end the wait with `none`?  Pre-fix: always (`isinstance(self.dm,
WaitUntilDecoratorManager)`).  Repaired: only when `len(dm.get_decorators(TriggerDecorator)) == 1`, i.e. no state /
event / MQTT decorator and no timeout decorator were added to the manager. -/
def noneNow (fl : Flags) (cfg : Cfg) : Bool :=
  fl.noneEager || (!hasListen cfg && (effTimeout fl cfg).isNone)

/-- `TimeTriggerDecorator.start`: background `_cycle`.  Without a future instant it either dispatches `none` at
once (`noneNow`) or just ends – the finished cycle task holds nothing, so nothing is recorded as started. -/
def timeStart (fl : Flags) (cfg : Cfg) (q : Nat) (call : Nat) (s : Started) (tb : Tables) : Stage :=
  if hasTime cfg then
    let s1 := { s with tm := true }
    let tb1 := { tb with tasks := tb.tasks + 1 }
    if (timeNext cfg.time call).isNone then
      (if noneNow fl cfg then .error (.ret call .none, stopAll q s1 tb1) else .ok (s, tb))
    else .ok (s1, tb1)
  else .ok (s, tb)

def eventStart (cfg : Cfg) (s : Started) (tb : Tables) : Stage :=
  if cfg.event.isSome then .ok ({ s with ev := true }, { tb with evListeners := tb.evListeners + 1 }) else .ok (s, tb)

def mqttStart (cfg : Cfg) (s : Started) (tb : Tables) : Stage :=
  if cfg.mqtt.isSome then .ok ({ s with mq := true }, { tb with mqListeners := tb.mqListeners + 1 }) else .ok (s, tb)

def Stage.andThen (r : Stage) (f : Started → Tables → Stage) : Stage :=
  match r with
  | .error e => .error e
  | .ok p => f p.1 p.2

/-- the decorators after the state trigger, in registry order: time, event, mqtt -/
def afterState (fl : Flags) (cfg : Cfg) (q : Nat) (call : Nat) (s1 : Started) (t1 : Tables) : Stage :=
  (timeStart fl cfg q call s1 t1).andThen fun s2 t2 =>
  (eventStart cfg s2 t2).andThen fun s3 t3 => mqttStart cfg s3 t3

/-- `dm.start()`: timeout decorator (added in `__init__`), then registry order state, time, event, mqtt -/
def start (fl : Flags) (cfg : Cfg) (q : Nat) (tb : Tables) (v0 : Nat) (call : Nat) : Stage :=
  (timeoutStart fl cfg {} tb).andThen fun s0 t0 =>
  (stateStart cfg q v0 call s0 t0).andThen (afterState fl cfg q call)

def parseAll (cfg : Cfg) : Bool :=
  (match cfg.state with | some s => s.parseOK | Option.none => true) &&
  (match cfg.event with | some e => e.parseOK | Option.none => true) &&
  (match cfg.mqtt with | some m => m.parseOK | Option.none => true)

def noKwargs (cfg : Cfg) : Bool := !(hasListen cfg || hasTime cfg) && cfg.timeout.isNone

def noDecorators (fl : Flags) (cfg : Cfg) : Bool := !(hasListen cfg || hasTime cfg) && (effTimeout fl cfg).isNone

/-- does the manager stay as it is when the wait ends this way?  Still waiting: yes.  Cancelled waiter: pre-fix
yes (nothing stops it), repaired no (`finally: await dm.stop()`).  Return / exception: never. -/
def keeps (fl : Flags) : Exit → Bool
  | .waiting => true
  | .cancelled _ => fl.cancelNoStop
  | _ => false

/-! ### the state decorator's `_cycle` with `state_hold` / `state_hold_false` (executable mirror) -/

/-- `true_entered_at`, `false_entered_at`, value of `last_func_args` (`none` = the initial `{"trigger_type": "state"}`) -/
structure CSt where
  trueAt : Option Nat
  falseAt : Option Nat
  info : Option Nat
deriving DecidableEq, Repr

/-- `_check_new_state(trig_ok, initial)` at instant `now`: new variables and whether it dispatches -/
def checkNewState (s : StateTrig) (now : Nat) (ok initial : Bool) (c : CSt) : CSt × Bool :=
  if ok then
    let passedC : Bool × CSt :=
      if s.holdFalse.isNone || initial then (true, c)
      else
        match c.falseAt with
        | some fa => (decide (s.holdFalse.getD 0 ≤ now - fa), { c with falseAt := Option.none })
        | Option.none => (false, c)
    if passedC.1 then
      match s.hold with
      | Option.none => ({ passedC.2 with trueAt := Option.none }, true)
      | some hl =>
        match passedC.2.trueAt with
        | some ta => if hl ≤ now - ta then ({ passedC.2 with trueAt := Option.none }, true) else (passedC.2, false)
        | Option.none => ({ passedC.2 with trueAt := some now }, false)
    else (passedC.2, false)
  else
    ({ c with trueAt := Option.none,
              falseAt := if s.holdFalse.isSome && c.falseAt.isNone then some now else c.falseAt }, false)

/-- the cycle's variables after its start-up part (the immediate dispatch is decided in `stateStart`) -/
def initC (s : StateTrig) (v0 call : Nat) : CSt :=
  let c0 : CSt := { trueAt := Option.none, falseAt := Option.none, info := Option.none }
  if s.checkOnStart then
    let ok := (s.expr v0).getD false
    if s.checkNow then (checkNewState s call ok true c0).1
    else if !ok && s.holdFalse.isSome then { c0 with falseAt := some call } else c0
  else c0

/-- the wait with a hold: deadlines of the manager (`dl`) and the cycle's own hold timer `trueAt + hold` -/
def loopH (fl : Flags) (cfg : Cfg) (s : StateTrig) (call : Nat) : Hist → CSt → Exit
  | [], c =>
    match dl fl cfg call, c.trueAt with
    | Option.none, Option.none => .waiting
    | Option.none, some ta => .ret (ta + s.hold.getD 0) (.state c.info)
    | some (d, k), Option.none => retOf d k
    | some (d, k), some ta => if ta + s.hold.getD 0 < d then .ret (ta + s.hold.getD 0) (.state c.info) else retOf d k
  | (t, it) :: rest, c =>
    let fired : Option Exit :=
      match dl fl cfg call, c.trueAt with
      | Option.none, Option.none => Option.none
      | Option.none, some ta => if ta + s.hold.getD 0 < t then some (.ret (ta + s.hold.getD 0) (.state c.info)) else Option.none
      | some (d, k), Option.none => if d < t then some (retOf d k) else Option.none
      | some (d, k), some ta =>
        if ta + s.hold.getD 0 < d then
          (if ta + s.hold.getD 0 < t then some (.ret (ta + s.hold.getD 0) (.state c.info)) else Option.none)
        else (if d < t then some (retOf d k) else Option.none)
    match fired with
    | some e => e
    | Option.none =>
      match it with
      | .state v =>
        (match s.expr v with
         | Option.none => .exc t .eval
         | some ok =>
           let c1 := if c.trueAt.isNone then { c with info := some v } else c
           let r := checkNewState s t ok false c1
           if r.2 then .ret t (.state r.1.info) else loopH fl cfg s call rest r.1)
      | other => onItem cfg t other (loopH fl cfg s call rest c) (loopH fl cfg s call rest c)

def waitLoop (fl : Flags) (cfg : Cfg) (v0 call : Nat) (hist : Hist) : Exit :=
  match Legacy.holdTrig cfg with
  | Option.none => loop fl cfg call hist
  | some s => loopH fl cfg s call hist (initC s v0 call)

/-- `await dm.wait_until()`: the first dispatch / exception stops everything; see `keeps` for a cancelled waiter -/
def finish (fl : Flags) (cfg : Cfg) (q : Nat) (v0 call : Nat) (hist : Hist) : Stage → Exit × Tables
  | .error r => r
  | .ok p => (waitLoop fl cfg v0 call hist,
              if keeps fl (waitLoop fl cfg v0 call hist) then p.2 else stopAll q p.1 p.2)

def run (fl : Flags) (cfg : Cfg) (q : Nat) (tb : Tables) (v0 : Nat) (call : Nat) (hist : Hist) : Exit × Tables :=
  if noKwargs cfg then (.ret call .none, tb)
  else if !parseAll cfg then (.exc call .parse, tb)
  else if noDecorators fl cfg then (.exc call .runtime, tb)
  else finish fl cfg q v0 call hist (start fl cfg q tb v0 call)

end New

/-! ## the call inside a whole timeline -/

/-- value of the watched variable at the call: the last change not after it -/
def valueAt (v : Nat) (call : Nat) : Hist → Nat
  | [] => v
  | (t, it) :: rest =>
    if t ≤ call then
      (match it with
       | .state w => valueAt w call rest
       | _ => valueAt v call rest)
    else v

def after (call : Nat) (h : Hist) : Hist := h.filter (fun p => decide (call < p.1))

/-! ## `"startup"` / `"shutdown"` entries of the `time_trigger` list (finding C15-F8)

A `time_trigger` list may hold the words `"startup"` and `"shutdown"` next to (or instead of) time specifications.
For `task.wait_until` they denote no instant.  Legacy: `timer_trigger_next` skips them ("Can't parse"), the list
counts as a time trigger whose remaining specifications decide.  New subsystem: `TimeTriggerDecorator.validate`
strips them from `timespec` and sets `run_on_startup` / `run_on_shutdown` (an EMPTY list also sets `run_on_startup`);
repaired shape: both flags are cleared again when the manager is a `WaitUntilDecoratorManager`, so only the
remaining specifications count; pre-fix shape (`acted = true`): `_cycle` dispatches `trigger_time: "startup"` as
soon as the decorator's task runs, and `stop()` dispatches `trigger_time: "shutdown"` – re-entering
`WaitUntilDecoratorManager.dispatch` before the real result is stored, so the caller gets the bogus time result. -/
structure Entries where
  /-- `"startup"` among the entries, or the list is empty -/
  startup : Bool
  shutdown : Bool
deriving DecidableEq, Repr

def Entries.none : Entries := { startup := false, shutdown := false }

/-- is the `wait_until` shape of `TimeTriggerDecorator` the pre-fix one (entries acted upon)? -/
def entriesActedCurrent : Bool := false
def entriesActedPreFix : Bool := true

/-- the exit the caller sees.  Pre-fix: a start-up entry ends the wait at the call with a `time` result unless the
call already ended at that instant before the time decorator's task ran (check-now hit, exception of the start-up
check: the state decorator's task is created first); otherwise a shut-down entry replaces whatever result ends the
wait by a `time` result at the same instant.  (Only the exit of the pre-fix shape is modelled, not its tables.) -/
def New.exitWithEntries (acted : Bool) (en : Entries) (call : Nat) (e : Exit) : Exit :=
  if !acted then e
  else
    match e with
    | .ret t r =>
      if t = call && r == Ret.state Option.none then e
      else if en.startup then .ret call (.time call)
      else if en.shutdown then .ret t (.time t)
      else e
    | .exc t _ => if en.startup && decide (call < t) then .ret call (.time call) else e
    | .cancelled _ => if en.startup then .ret call (.time call) else e
    | .waiting => if en.startup then .ret call (.time call) else e

def Legacy.runAt (fl : Flags) (cfg : Cfg) (q : Nat) (tb : Tables) (v : Nat) (call : Nat) (full : Hist) : Exit × Tables :=
  Legacy.run fl cfg q tb (valueAt v call full) call (after call full)

def New.runAt (fl : Flags) (cfg : Cfg) (q : Nat) (tb : Tables) (v : Nat) (call : Nat) (full : Hist) : Exit × Tables :=
  New.run fl cfg q tb (valueAt v call full) call (after call full)

/-- legacy with entries: they are never looked at -/
def Legacy.runAtE (_en : Entries) (fl : Flags) (cfg : Cfg) (q : Nat) (tb : Tables) (v : Nat) (call : Nat) (full : Hist) :
    Exit × Tables :=
  Legacy.runAt fl cfg q tb v call full

/-- new subsystem with entries -/
def New.runAtE (acted : Bool) (en : Entries) (fl : Flags) (cfg : Cfg) (q : Nat) (tb : Tables) (v : Nat) (call : Nat)
    (full : Hist) : Exit × Tables :=
  (New.exitWithEntries acted en call (New.runAt fl cfg q tb v call full).1, (New.runAt fl cfg q tb v call full).2)

end PsModel.C15
