import PsModel.Model.C16
import PsModel.Gen.ServiceTbl
/-!
# C12 model – `@service` registration by reference counting, and the two life-cycles that drive it

* `Reg`, `register`, `remove` mirror `function.py` `Function.service_register` / `service_remove` literally
  (`service_cnt`, `service2global_ctx`, the Home Assistant registry as `handler`; `remove` ignores its context
  argument and un-registers whenever the count is ≤ 1 – also for a key that was never counted: `underflow`).
* One life-cycle machine, parameterised by what differs between the subsystems (`Cfg`):
  - **legacy** (`eval.py`: `EvalFunc.trigger_init` service part, `trigger_stop`, `ast_functiondef`,
    `EvalFuncVar.__del__`): registers at definition time under the global-context name; `trigger_service` is a
    *set*; a refused name aborts the remaining names of the function and keeps the earlier ones;
  - **new** (`decorators/service.py` + `decorator.py`/`decorator_abc.py` manager): registers when the manager is
    started – immediately for a definition executed at run time, at `GlobalContext.start()` for file-level
    definitions (in whatever order the start tasks run: the order is an *input*, observed from the real run) – under
    `dm.ast_ctx.name` (the evaluator's name: `file.x` or `file.x.func`); the started decorators are a *list*; a
    refused name rolls the manager back (`INVALID`); dropping the function variable stops the manager only when it
    is `RUNNING` (a manager that has not been started yet stays scheduled).
  A *holder* is the object whose death releases registrations: the `EvalFunc` (legacy) or the decorator manager (new).
* service call path (`pyscript_service_handler` / `_service_callback`) → `handlerKwargs`, `callOutcome`;
  outgoing `service.call` / `domain.service(...)` / `domain.entity.service(...)` → `splitCall`, `finishCall`.
-/
namespace PsModel.C12
open PsModel.C16 (aget aset adel)

abbrev Svc := String                      -- "domain.service"

/-- `str.lower()` as far as ASCII letters go – what `homeassistant.core.ServiceRegistry` does to domain and service in
`async_register` / `async_remove` / `has_service` / `async_call` -/
def lower (s : String) : String := String.ofList (s.toList.map Char.toLower)

inductive Resp | none | optional | only
deriving DecidableEq, Repr

/-- the name a registration is made under: the global context, and (new subsystem) the function whose evaluator
executed the definition -/
structure OwnerName where
  ctx : String
  fn : Option String
deriving DecidableEq, Repr

/-- what Home Assistant holds for a registered service: which definition's handler, and its `supports_response` -/
structure Handler where
  gen : Nat
  resp : Resp
deriving DecidableEq, Repr

structure Reg where
  cnt : List (Svc × Nat) := []            -- Function.service_cnt
  owner : List (Svc × OwnerName) := []    -- Function.service2global_ctx
  handler : List (Svc × Handler) := []    -- hass.services (pyscript's entries) as pyscript's key sees them
  ha : List (Svc × Handler) := []         -- hass.services itself: keyed by the LOWER-CASED name
  underflow : Bool := false               -- a `remove` was reached with count 0
deriving Repr

def cntOf (r : Reg) (k : Svc) : Nat := (aget k r.cnt).getD 0
def registered (r : Reg) (k : Svc) : Bool := (aget k r.handler).isSome

/-- `if key not in cls.service_cnt: cls.service_cnt[key] = 0` -/
def ensureCnt (c : List (Svc × Nat)) (k : Svc) : List (Svc × Nat) := if (aget k c).isNone then aset k 0 c else c
/-- `if key not in cls.service2global_ctx: cls.service2global_ctx[key] = global_ctx_name` -/
def ensureOwner (o : List (Svc × OwnerName)) (k : Svc) (n : OwnerName) : List (Svc × OwnerName) :=
  if (aget k o).isNone then aset k n o else o

/-- does `service_register` get past the ownership test? -/
def accepts (r : Reg) (o : OwnerName) (k : Svc) : Bool :=
  match aget k r.owner with
  | none => true
  | some o' => o' == o

/-- `Function.service_register(global_ctx_name, domain, service, callback, supports_response)`;
`false` = `ValueError("… can't register service …; already defined in …")` -/
def register (r : Reg) (o : OwnerName) (k : Svc) (h : Handler) : Reg × Bool :=
  if accepts r o k then
    ({ r with cnt := aset k (cntOf r k + 1) (ensureCnt r.cnt k), owner := ensureOwner r.owner k o,
              handler := aset k h r.handler, ha := aset (lower k) h r.ha }, true)
  else ({ r with cnt := ensureCnt r.cnt k }, false)

/-- `Function.service_remove(global_ctx_name, domain, service)` – the context argument is not used -/
def remove (r : Reg) (k : Svc) : Reg :=
  if cntOf r k > 1 then { r with cnt := aset k (cntOf r k - 1) r.cnt }
  else { cnt := aset k 0 r.cnt, owner := adel k r.owner, handler := adel k r.handler, ha := adel (lower k) r.ha,
         underflow := r.underflow || (cntOf r k == 0) }

/-- `for name in names: service_remove(name)` -/
def releaseList (r : Reg) : List Svc → Reg
  | [] => r
  | k :: ks => releaseList (remove r k) ks

/-! ## life-cycle -/

structure Cfg where
  trackAsSet : Bool       -- `trigger_service` is a set (legacy) / the started decorators are a list (new)
  ownerIsEval : Bool      -- register under the evaluator's name (new) / the global context's name (legacy)
  rollback : Bool         -- a refused name stops the already started decorators (new) / keeps them (legacy)
  delayTopLevel : Bool    -- file-level definitions are started by GlobalContext.start() (new) / at once (legacy)
  respEnum : Bool         -- `supports_response` reaches Home Assistant as the enum (new: `vol.Coerce`) / as the raw
                          -- string (legacy) – HA's "response required" test is an identity test on the enum
  skipDup : Bool          -- a name the holder already tracks is not registered again (legacy, since the repair of
                          -- `trigger_init`: `if srv_name in self.trigger_service: continue`)
  dropDelayed : Bool      -- a manager whose function dies before the delayed start is taken out of `dms_delay_start`
                          -- (new, since the repair of `on_func_var_deleted`); before, it stayed scheduled
  orderedStart : Bool     -- `GlobalContext.start()` creates the start tasks in definition order (`dms_order`, new since
                          -- the repair); before, in the iteration order of the set `dms_delay_start`
  foldBuiltin : Bool      -- the test that keeps `@service` off pyscript's own services (`reload`,
                          -- `jupyter_kernel_start`) looks at the lower-cased name (since the repair of C12-F10; before:
                          -- at the name as written, so `pyscript.Reload` passed and took over `pyscript.reload`)
  foldCase : Bool         -- `service_register` / `service_remove` build their key from the lower-cased name (both
                          -- subsystems, since the repair): names that differ only in case share count and owner, as
                          -- they share the Home Assistant service.  Before: `key = f"{domain}.{service}"` as written.
  regEarly : Bool         -- a legacy function is entered in `GlobalContext.triggers` with its first registration (since
                          -- the repair of C12-F11).  Before: only at the end of `trigger_init`, so a function whose
                          -- registration loop was aborted by a refused name was unknown to `GlobalContext.stop()` and the
                          -- names it had registered were not released when its file was unloaded.  (New subsystem: the
                          -- manager is in `GlobalContext.dms` from its validation on – always true.)
deriving DecidableEq, Repr

/-- the two subsystems as the source has them now: the repair switches are read off the source by the extractor -/
def legacyCfg : Cfg :=
  ⟨true, false, false, false, false, PsModel.Gen.LEGACY_SKIPS_DUPLICATE, false, false,
   PsModel.Gen.BUILTIN_TEST_FOLDS_CASE_LEGACY, PsModel.Gen.SERVICE_KEY_LOWERCASED,
   PsModel.Gen.LEGACY_KNOWN_TO_CONTEXT_AT_FIRST_REGISTRATION⟩
def newCfg : Cfg :=
  ⟨false, PsModel.Gen.SERVICE_OWNER_IS_EVALUATOR, true, true, true, false,
   PsModel.Gen.DELETED_BEFORE_START_DISCARDED, PsModel.Gen.START_IN_DEFINITION_ORDER,
   PsModel.Gen.BUILTIN_TEST_FOLDS_CASE_NEW, PsModel.Gen.SERVICE_KEY_LOWERCASED, true⟩
/-- … and as they were before the `fix:` commits (findings C12-F2, C12-F3, C12-F4, C12-F5, C12-F9, C12-F10, C12-F11) -/
def legacyPreFix : Cfg := ⟨true, false, false, false, false, false, false, false, false, false, false⟩
def newPreFix : Cfg := ⟨false, true, true, true, true, false, false, false, false, false, true⟩
/-- today's code with only the built-in name test as it was before the repair of C12-F10 -/
def builtinAsWritten (c : Cfg) : Cfg := { c with foldBuiltin := false }
/-- today's code with only the key of the count table as it was before the repair of C12-F9 -/
def caseSensitive (c : Cfg) : Cfg := { c with foldCase := false }
/-- today's code with only the entry in the context's trigger registry as late as before the repair of C12-F11 -/
def registeredLate (c : Cfg) : Cfg := { c with regEarly := false }

/-- the key `service_register` / `service_remove` compute for a name as written in `@service(...)`.  A holder of the
model remembers its names as these keys (the code remembers them as written and computes the key at every call: the
same thing, except that a legacy function naming one service twice with different case is counted twice by the code –
and gives both back – where the model counts it once). -/
def keyOf (cfg : Cfg) (k : Svc) : Svc := if cfg.foldCase then lower k else k
def foldDecl (cfg : Cfg) (decl : List (Svc × Resp)) : List (Svc × Resp) := decl.map (fun d => (keyOf cfg d.1, d.2))

inductive Status | delayed | running
deriving DecidableEq, Repr

structure Holder where
  gen : Nat                       -- which definition (generation number: later definition = larger number)
  ctx : String
  var : String                    -- the global variable the function object is bound to
  owner : OwnerName
  pending : List (Svc × Resp)     -- declarations not started yet
  tracked : List Svc              -- what a stop will remove: `trigger_service` / the decorators of a started manager
  status : Status
  bound : Bool                    -- the function variable is alive
  failed : Bool := false          -- the registration loop was aborted by a refused name and the holder kept what it had
                                  -- (legacy: `trigger_init` raised; the function never reached `trigger_register`)
deriving Repr

structure MState where
  reg : Reg := {}
  holders : List Holder := []
  inadm : Bool := false           -- the observed start order is not one the model admits
deriving Repr

def ownerFor (cfg : Cfg) (ctx : String) (fn : Option String) : OwnerName := ⟨ctx, if cfg.ownerIsEval then fn else none⟩

/-- `self.trigger_service.add(name)` / `started.append(decorator)` -/
def track (cfg : Cfg) (tr : List Svc) (k : Svc) : List Svc :=
  if cfg.trackAsSet && tr.contains k then tr else tr ++ [k]

structure Acq where
  reg : Reg
  tracked : List Svc
  ok : Bool

/-- register the declarations one after the other, stopping at the first refusal -/
def acquireAll (cfg : Cfg) (o : OwnerName) (gen : Nat) : Reg → List (Svc × Resp) → List Svc → Acq
  | r, [], tr => ⟨r, tr, true⟩
  | r, d :: ds, tr =>
    if cfg.skipDup && tr.contains d.1 then acquireAll cfg o gen r ds tr      -- named twice: registered once
    else if (register r o d.1 ⟨gen, d.2⟩).2 then
      acquireAll cfg o gen (register r o d.1 ⟨gen, d.2⟩).1 ds (track cfg tr d.1)
    else ⟨(register r o d.1 ⟨gen, d.2⟩).1, tr, false⟩

/-- registry after an immediate start of all declarations (rolled back on refusal in the new subsystem) -/
def startReg (cfg : Cfg) (a : Acq) : Reg := if a.ok || !cfg.rollback then a.reg else releaseList a.reg a.tracked
/-- the holder that results (none: the manager became INVALID) -/
def startHolder (cfg : Cfg) (h : Holder) (a : Acq) : Option Holder :=
  if a.ok || !cfg.rollback then some { h with pending := [], tracked := a.tracked, status := .running, failed := !a.ok }
  else none

/-- the function variable `(ctx, var)` loses the object `h` refers to (`__del__` / `weakref.finalize`) -/
def dropReg (cfg : Cfg) (r : Reg) (h : Holder) : Reg :=
  match h.status with
  | .running => releaseList r h.tracked
  | .delayed => if cfg.dropDelayed then releaseList r h.tracked else r     -- nothing started yet: `tracked = []`
def dropHolder (cfg : Cfg) (h : Holder) : Option Holder :=
  match h.status with
  | .running => none
  | .delayed =>
    if cfg.dropDelayed then none                       -- discarded from `dms_delay_start` / `dms`, marked STOPPED
    else some { h with bound := false }                -- (before the repair) still in `dms_delay_start`: it WILL be started

def isVar (ctx var : String) (h : Holder) : Bool := h.bound && h.ctx == ctx && h.var == var

/-- the bound holders of `(ctx, var)` are dropped -/
def unbindReg (cfg : Cfg) (r : Reg) (ctx var : String) : List Holder → Reg
  | [] => r
  | h :: hs => if isVar ctx var h then unbindReg cfg (dropReg cfg r h) ctx var hs else unbindReg cfg r ctx var hs
def unbindHolders (cfg : Cfg) (ctx var : String) : List Holder → List Holder
  | [] => []
  | h :: hs =>
    if isVar ctx var h then (dropHolder cfg h).toList ++ unbindHolders cfg ctx var hs
    else h :: unbindHolders cfg ctx var hs

inductive Op
  | define (ctx : String) (fn : Option String) (var : String) (gen : Nat) (decl : List (Svc × Resp))
      -- `@service(..) def var(..)` executed at file level (`fn = none`) or inside the running function `fn`
  | start (ctx : String) (events : List Nat)       -- GlobalContext.start(): registrations in the observed order
  | delete (ctx var : String)                      -- `del var`
  | unload (ctx : String)                          -- GlobalContext.stop() + the context is dropped (unload / reload)
deriving DecidableEq, Repr

def newHolder (cfg : Cfg) (ctx : String) (fn : Option String) (var : String) (gen : Nat) (decl : List (Svc × Resp)) : Holder :=
  ⟨gen, ctx, var, ownerFor cfg ctx fn, decl, [], .delayed, true, false⟩

def defineStep (cfg : Cfg) (st : MState) (ctx : String) (fn : Option String) (var : String) (gen : Nat)
    (decl : List (Svc × Resp)) : MState :=
  if cfg.delayTopLevel && fn.isNone then
    { st with reg := unbindReg cfg st.reg ctx var st.holders,
              holders := unbindHolders cfg ctx var st.holders ++ [newHolder cfg ctx fn var gen decl] }
  else
    -- the new definition is registered first, then the old function object dies
    { st with
      reg := unbindReg cfg (startReg cfg (acquireAll cfg (ownerFor cfg ctx fn) gen st.reg decl [])) ctx var st.holders,
      holders := unbindHolders cfg ctx var st.holders ++
        (startHolder cfg (newHolder cfg ctx fn var gen decl) (acquireAll cfg (ownerFor cfg ctx fn) gen st.reg decl [])).toList }

/-- one registration event of `GlobalContext.start()`: the next pending declaration of the delayed holder `g` -/
def eventReg (cfg : Cfg) (r : Reg) (h : Holder) : Reg :=
  match h.pending with
  | [] => r
  | d :: _ =>
    if cfg.skipDup && h.tracked.contains d.1 then r
    else if (register r h.owner d.1 ⟨h.gen, d.2⟩).2 then (register r h.owner d.1 ⟨h.gen, d.2⟩).1
    else releaseList (register r h.owner d.1 ⟨h.gen, d.2⟩).1 h.tracked
def eventHolder (cfg : Cfg) (r : Reg) (h : Holder) : Option Holder :=
  match h.pending with
  | [] => some h
  | d :: ds =>
    if cfg.skipDup && h.tracked.contains d.1 then
      some { h with pending := ds, status := if ds.isEmpty then .running else .delayed }
    else if (register r h.owner d.1 ⟨h.gen, d.2⟩).2 then
      some { h with pending := ds, tracked := track cfg h.tracked d.1,
                    status := if ds.isEmpty then .running else .delayed }
    else none

def isDelayed (ctx : String) (g : Nat) (h : Holder) : Bool :=
  h.ctx == ctx && h.gen == g && h.status == .delayed && !h.pending.isEmpty

def eventStepReg (cfg : Cfg) (r : Reg) (ctx : String) (g : Nat) : List Holder → Reg
  | [] => r
  | h :: hs => if isDelayed ctx g h then eventReg cfg r h else eventStepReg cfg r ctx g hs
def eventStepHolders (cfg : Cfg) (r : Reg) (ctx : String) (g : Nat) : List Holder → List Holder
  | [] => []
  | h :: hs => if isDelayed ctx g h then (eventHolder cfg r h).toList ++ hs else h :: eventStepHolders cfg r ctx g hs

def startEvents (cfg : Cfg) (ctx : String) : MState → List Nat → MState
  | st, [] => st
  | st, g :: gs =>
    startEvents cfg ctx
      { reg := eventStepReg cfg st.reg ctx g st.holders, holders := eventStepHolders cfg st.reg ctx g st.holders,
        inadm := st.inadm || !(st.holders.any (isDelayed ctx g)) } gs

/-- after the start every manager of the context must have been started completely -/
def startDone (ctx : String) (st : MState) : MState :=
  { st with inadm := st.inadm || st.holders.any (fun h => h.ctx == ctx && h.status == .delayed) }

/-- the managers `GlobalContext.start()` has to start, in definition order -/
def delayedGens (ctx : String) (hs : List Holder) : List Nat :=
  (hs.filter (fun h => h.ctx == ctx && h.status == .delayed && !h.pending.isEmpty)).map (·.gen)

/-- with the start tasks created in definition order, the *first* registration of each manager comes in that order
(later decorators of a manager may interleave with other managers: `start()` awaits between decorators) -/
def startOrderOK (ctx : String) (hs : List Holder) (events : List Nat) : Bool := events.eraseDups == delayedGens ctx hs

/-- does `GlobalContext.stop()` of `ctx` reach the holder?  It stops what is in `self.triggers` / `self.dms`; before the
repair of C12-F11 a legacy function whose `trigger_init` had been aborted was not in `self.triggers`. -/
def leaves (cfg : Cfg) (ctx : String) (h : Holder) : Bool := h.ctx == ctx && (cfg.regEarly || !h.failed)

def unloadReg (p : Holder → Bool) : Reg → List Holder → Reg
  | r, [] => r
  | r, h :: hs =>
    -- `trigger_stop()` / `dm.stop()`: a manager that is not RUNNING has started nothing (`tracked = []`)
    if p h then unloadReg p (releaseList r h.tracked) hs else unloadReg p r hs

/-- a holder that `GlobalContext.stop()` did not reach although its context is gone: no variable refers to it any more
(nothing will ever release it) -/
def orphan (ctx : String) (h : Holder) : Holder := if h.ctx == ctx then { h with bound := false } else h

def step (cfg : Cfg) (st : MState) : Op → MState
  | .define ctx fn var gen decl => defineStep cfg st ctx fn var gen (foldDecl cfg decl)
  | .start ctx events =>
    if cfg.delayTopLevel then
      { startDone ctx (startEvents cfg ctx st events) with
        inadm := (startDone ctx (startEvents cfg ctx st events)).inadm ||
                 (cfg.orderedStart && !startOrderOK ctx st.holders events) }
    else st
  | .delete ctx var => { st with reg := unbindReg cfg st.reg ctx var st.holders, holders := unbindHolders cfg ctx var st.holders }
  | .unload ctx => { st with reg := unloadReg (leaves cfg ctx) st.reg st.holders,
                             holders := (st.holders.filter (fun h => !leaves cfg ctx h)).map (orphan ctx) }

def run (cfg : Cfg) : MState → List Op → MState
  | st, [] => st
  | st, op :: ops => run cfg (step cfg st op) ops

/-! ## pyscript's own services are off limits

`trigger_init` (legacy) tests every name inside its registration loop – `if name[.lower()] in (SERVICE_RELOAD,
SERVICE_JUPYTER_KERNEL_START): raise SyntaxError` (the exception is logged, the function stays defined with what was
registered before the offending name); `ServiceDecorator.validate` (new) tests while the manager is validated, before
anything is started: the manager becomes INVALID, the function has no service at all.  The domain is not looked at.
This is a filter in front of the life-cycle machine: `admitOp` says which operation the machine sees. -/

def BUILTIN_SERVICES : List String := ["reload", "jupyter_kernel_start"]

/-- `srv_name.split(".", 1)[1]` -/
def svcPart (k : Svc) : String := String.ofList ((k.toList.dropWhile (· != '.')).drop 1)

def builtinHit (cfg : Cfg) (k : Svc) : Bool :=
  BUILTIN_SERVICES.contains (if cfg.foldBuiltin then lower (svcPart k) else svcPart k)

def admitOp (cfg : Cfg) : Op → Op
  | .define ctx fn var gen decl =>
    if cfg.rollback then
      -- validated as a whole: one offending name and the new function object has no services; the variable is rebound,
      -- so the old function object goes as with `del`
      if decl.any (fun d => builtinHit cfg d.1) then .delete ctx var else .define ctx fn var gen decl
    else .define ctx fn var gen (decl.takeWhile (fun d => !builtinHit cfg d.1))
  | op => op

/-- the machine behind the built-in name test -/
def runB (cfg : Cfg) (st : MState) (ops : List Op) : MState := run cfg st (ops.map (admitOp cfg))

/-! ## calling a service -/

abbrev Kw := List (String × String)        -- keyword ↦ canonical value

/-- `func_args = {"trigger_type": "service", "context": call.context}; func_args.update(call.data)` -/
def handlerKwargs (ctxVal : String) (data : Kw) : Kw :=
  data.foldl (fun acc p => aset p.1 p.2 acc) [("trigger_type", "\"service\""), ("context", ctxVal)]

inductive CallOut
  | notFound                                   -- ServiceNotFound
  | invalid                                    -- ServiceValidationError (response requested/required mismatch)
  | ran (gen : Nat) (kwargs : Kw) (response : Bool)   -- the definition `gen` ran; its result is returned or not
  | lookupError                                -- KeyError out of `ServiceRegistry.supports_response` (script-side call only)
  | bindError                                  -- the data does not fit the function's parameters: the TypeError is logged,
                                               -- the function does not run (no response: HA refuses a requested one)
  | badResponse                                -- the function ran but its result is not a dict and a response was requested:
                                               -- Home Assistant raises `service_reponse_invalid`
deriving DecidableEq, Repr

/-- `hass.services.async_call(domain, service, data, blocking=True, return_response=rr)` on a pyscript service -/
def callOutcome (cfg : Cfg) (r : Reg) (k : Svc) (ctxVal : String) (data : Kw) (rr : Bool) : CallOut :=
  match aget k r.handler with
  | none => .notFound
  | some h =>
    if rr && h.resp == .none then .invalid                        -- `none` is declared by omission: the enum default
    else if !rr && h.resp == .only && cfg.respEnum then .invalid
    else .ran h.gen (handlerKwargs ctxVal data) rr

/-- the parameters of a service function, as far as binding keyword arguments is concerned -/
structure Sig where
  required : List String        -- positional-or-keyword parameters without default
  params : List String          -- all parameters that a keyword can bind
  extra : Bool                  -- `**kwargs` present
deriving Repr

/-- python's keyword binding of `func(**kwargs)`: every required parameter is given, and every keyword is a parameter
unless `**kwargs` collects the rest -/
def bindOK (s : Sig) (kw : Kw) : Bool :=
  s.required.all (fun p => (aget p kw).isSome) && (s.extra || kw.all (fun q => s.params.contains q.1))

/-- the answers of the generated test functions that are not dictionaries (`ret` in the call data selects the answer) -/
def answerIsDict (kw : Kw) : Bool := !(["\"none\"", "\"list\""].contains ((aget "ret" kw).getD ""))

/-- what becomes of a call that reached the handler of definition `g`, given the signatures of the definitions -/
def bound (sigs : List (Nat × Sig)) : CallOut → CallOut
  | .ran g kw rr =>
    if (match aget g sigs with | some s => bindOK s kw | none => true) then
      (if rr && !answerIsDict kw then .badResponse else .ran g kw rr)
    else .bindError
  | o => o

/-- a call made by a script (`service.call(...)` / `domain.service(...)`) goes through
`Function.hass_services_async_call`: a response-only target is asked for its response even when the script did not say
`return_response=True` (`supports_response(domain, service) == SupportsResponse.ONLY` – an equality test, so it also
sees the legacy subsystem's plain string) -/
def scriptRr (r : Reg) (k : Svc) (rr : Bool) : Bool :=
  rr || (match aget k r.handler with
         | some h => h.resp == .only
         | none => false)

/-- the two shape switches of the script-side call path (`function.py` `hass_services_async_call`, `state.py` `State.get`),
read off the source -/
structure OutCfg where
  entityViaHelper : Bool  -- the entity-method form calls `Function.hass_services_async_call` like the other two forms
                          -- (since the repair of C12-F8); before: `hass.services.async_call` directly
  lookupGuarded : Bool    -- the helper asks `supports_response` only for a service that exists (same repair); before, the
                          -- look-up of a missing service raised `KeyError`
deriving DecidableEq, Repr

def outCfg : OutCfg := ⟨PsModel.Gen.ENTITY_METHOD_USES_CALL_HELPER, PsModel.Gen.RESPONSE_LOOKUP_ONLY_IF_SERVICE_EXISTS⟩
def outPreFix : OutCfg := ⟨false, false⟩

/-- `service.call(domain, name, …)` from a script.  For a service that does not exist, the look-up
`hass.services.supports_response(domain, service)` – made when the script did not pass `return_response` – raises
`KeyError` before Home Assistant gets to raise `ServiceNotFound`. -/
def scriptCallOutcome (oc : OutCfg) (cfg : Cfg) (r : Reg) (k : Svc) (ctxVal : String) (data : Kw) (rr : Bool) : CallOut :=
  match aget k r.handler with
  | none => if rr || oc.lookupGuarded then .notFound else .lookupError
  | some _ => callOutcome cfg r k ctxVal data (scriptRr r k rr)

/-- several calls of one service that overlap in time (the function suspends, e.g. in `task.sleep`, and the next call
arrives before the first has finished).  Both handlers (`pyscript_service_handler`, `_service_callback`) build a fresh
`AstEval` evaluation context **per call** – the callee's symbol table, `curr_func`, the symbol-table stack live in that
object – so the calls do not see each other: every call is answered as if it were alone. -/
def overlapOutcome (cfg : Cfg) (r : Reg) (k : Svc) (ctxVal : String) (datas : List Kw) (rr : Bool) : List CallOut :=
  datas.map (fun d => callOutcome cfg r k ctxVal d rr)

/-! ## outgoing calls: splitting the keyword arguments -/

/-- the python type of a keyword value, as far as the splitting looks at it -/
inductive Ty | context | bool | int | float | other
deriving DecidableEq, Repr

structure Arg where
  key : String
  ty : Ty
  val : String
deriving DecidableEq, Repr

inductive Entry | serviceCall | domainService | entityMethod
deriving DecidableEq, Repr

def tyOf : String → Option Ty
  | "context" => some .context | "bool" => some .bool | "int" => some .int | "float" => some .float | _ => none

/-- the `(keyword, types, default)` table of the entry point as the extractor reads it off the `for keyword, typ, default in
[...]` loop of `Function.service_call` / `Function.get` / `State.get`; the default of `context` is the task's context -/
def controlTable (e : Entry) : List (String × List Ty) :=
  (match e with
   | .serviceCall => PsModel.Gen.CONTROL_TABLE_SERVICE_CALL
   | .domainService => PsModel.Gen.CONTROL_TABLE_DOMAIN_SERVICE
   | .entityMethod => PsModel.Gen.CONTROL_TABLE_ENTITY_METHOD).map
    (fun (r : String × List String) => (r.1, r.2.filterMap tyOf))

def findArg (k : String) : List Arg → Option Arg
  | [] => none
  | a :: as => if a.key = k then some a else findArg k as

/-- one round of `if keyword in kwargs and type(kwargs[keyword]) in typ: hass_args[keyword] = kwargs.pop(keyword)
elif default: hass_args[keyword] = default` -/
def splitOne (taskCtx : Option String) (row : String × List Ty) (acc : List Arg × List Arg) : List Arg × List Arg :=
  match findArg row.1 acc.2 with
  | some a =>
    if row.2.contains a.ty then (acc.1 ++ [a], acc.2.filter (fun b => b.key != row.1))
    else (match taskCtx with
          | some c => if row.1 = "context" then (acc.1 ++ [⟨"context", .context, c⟩], acc.2) else acc
          | none => acc)
  | none =>
    (match taskCtx with
     | some c => if row.1 = "context" then (acc.1 ++ [⟨"context", .context, c⟩], acc.2) else acc
     | none => acc)

/-- (hass_args, service data) -/
def splitCall (e : Entry) (taskCtx : Option String) (kwargs : List Arg) : List Arg × List Arg :=
  (controlTable e).foldl (fun acc row => splitOne taskCtx row acc) ([], kwargs)

def hasTrue (k : String) (as : List Arg) : Bool :=
  match findArg k as with
  | some a => a.val == "true"
  | none => false
def has (k : String) (as : List Arg) : Bool := (findArg k as).isSome

/-- `Function.hass_services_async_call`: response handling added on top of the split (before the repair of C12-F8 not
used by entity methods) -/
def finishCall (oc : OutCfg) (e : Entry) (only : Bool) (hassArgs : List Arg) : List Arg :=
  if e = .entityMethod && !oc.entityViaHelper then hassArgs
  else if hasTrue "return_response" hassArgs && !has "blocking" hassArgs then hassArgs ++ [⟨"blocking", .bool, "true"⟩]
  else if !has "return_response" hassArgs && only then
    (hassArgs ++ [⟨"return_response", .bool, "true"⟩]) ++
      (if has "blocking" hassArgs then [] else [⟨"blocking", .bool, "true"⟩])
  else hassArgs

/-- the service data finally passed on: an entity method sets `kwargs["entity_id"] = entity_id` after the split -/
def callData (e : Entry) (entity : String) (data : List Arg) : List Arg :=
  if e = .entityMethod then data.filter (fun a => a.key != "entity_id") ++ [⟨"entity_id", .other, entity⟩] else data

inductive OutResult
  | delivered (returned : Bool)       -- the target service ran; its response is returned or not
  | typeError                         -- `ServiceRegistry.async_call()` has no parameter of that name
  | refused                           -- Home Assistant's ServiceValidationError
deriving DecidableEq, Repr

/-- what `hass.services.async_call(domain, service, data, **hass_args)` then does (Home Assistant's own rules):
an unknown keyword is a TypeError; a response can only be requested from a blocking call to a service that supports
one; a response-only service must be asked for its response -/
def outResult (target : Resp) (hassArgs : List Arg) : OutResult :=
  if has "limit" hassArgs then .typeError
  else if hasTrue "return_response" hassArgs then
    (if !hasTrue "blocking" hassArgs || target == .none then .refused else .delivered true)
  else if target == .only then .refused
  else .delivered false

end PsModel.C12
