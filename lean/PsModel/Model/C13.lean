import PsModel.Gen.TaskTbl
/-!
# C13 model – `task.unique` bookkeeping of `function.py` as a transition system

asyncio is cooperative, so the code between two suspension points runs atomically.  The atomic steps are exactly
the await-free segments of `function.py`:

* `spawn t fg`      – a task starts running: `run_coro` does `our_tasks.add(task)` (`fg = false`); `fg = true` is a
                      task that was *not* created by `Function.create_task` (it is never in `our_tasks`)
* `unique t k km`   – `task_unique(name, kill_me)` called by task `t` (closure of `task_unique_factory`); `k` is the
                      key `(global_ctx, name)` (pre-fix: the string `f"{global_ctx}.{name}"`).  The kill-me arm enqueues the caller itself and
                      parks it in `sleep(100000)`; otherwise the previous owner is enqueued if it is one of ours and
                      the caller claims if it is one of ours.
* `reap`            – one iteration of `task_reaper`: `cmd = await q.get(); cmd[1].cancel(); await cmd[1]`
                      (the reaper then waits for that task to end before it takes the next command)
* `endBody t`       – the coroutine awaited by `run_coro` has ended (returned, raised, or a delivered cancel was thrown
                      into it – also into the kill-me `sleep`): the `finally` begins.  NOTHING is released yet: the
                      done-callbacks run first, as further segments of the same, still running task – they may suspend
                      (so every other task's steps interleave with them) and may call `task.unique` themselves.
* `exit t`          – the release block at the END of the `finally` of `run_coro` (after the done-callbacks, whose
                      bookkeeping is C14's): delete every name of `unique_task2name[t]` – read at that moment – from
                      `unique_name2task`, delete the entry, `our_tasks.discard(t)`
* `decoNew t k km`  – new subsystem `TaskUniqueDecorator.handle_call`, first segment of the new task:
                      `if kill_me and unique_name_used(..): return False` else `task_unique(name)`

The legacy `@task_unique` is two steps (`unique_name_used` inside the trigger loop's `call_action`, then
`task_unique(name, kill_me=…)` as first segment of the new task – `decoLegacyStep`, a `unique` step) and is therefore
expressed with `nameUsed` + `spawn` + `unique`.

The maps are function valued (`upd` = dictionary store); `names`/`entry` together are `unique_task2name`
(`entry t` = "t is a key of the dict", `names t` = the set, kept duplicate free as a list).
Ghost fields (`claimed`, `selfEnq`, `keyErr`) only record history for the theorems; no step reads them.
The key type is a parameter: theorems hold for every key type, the driver uses strings, witnesses use `Nat`.
-/
namespace PsModel.C13

abbrev Task := Nat

/-- dictionary store -/
def upd {κ α : Type} [DecidableEq κ] (f : κ → α) (k : κ) (v : α) : κ → α := fun x => if x = k then v else f x

structure St (κ : Type) where
  owner     : κ → Option Task      -- Function.unique_name2task
  names     : Task → List κ        -- Function.unique_task2name[t]  (set as duplicate-free list)
  entry     : Task → Bool          -- t in Function.unique_task2name
  ours      : Task → Bool          -- t in Function.our_tasks
  live      : Task → Bool          -- started and its coroutine has not finished
  started   : Task → Bool          -- task ids are never reused
  foreign   : Task → Bool          -- not created through Function.create_task
  parked    : Task → Bool          -- inside the kill-me `await asyncio.sleep(100000)`
  reaperQ   : List Task            -- pending ["cancel", task] commands of Function.task_reaper_q (FIFO)
  reaping   : Option Task          -- the task the reaper is currently awaiting
  cancelReq : Task → Bool          -- Task.cancel() has been called on the (then unfinished) task
  keyErr    : Bool                 -- ghost: a `del unique_name2task[name]` of the finally raised KeyError
  claimed   : κ → Task → Bool      -- ghost: t has completed a claim of k
  selfEnq   : Task → Bool          -- ghost: t has put itself on the reaper queue (kill-me)

inductive Op (κ : Type) where
  | spawn (t : Task) (fg : Bool)
  | unique (t : Task) (k : κ) (killMe : Bool)
  | reap
  | exit (t : Task)
  | decoNew (t : Task) (k : κ) (killMe : Bool)
  | endBody (t : Task)

variable {κ : Type} [DecidableEq κ]

def init : St κ :=
  { owner := fun _ => none, names := fun _ => [], entry := fun _ => false, ours := fun _ => false,
    live := fun _ => false, started := fun _ => false, foreign := fun _ => false, parked := fun _ => false,
    reaperQ := [], reaping := none, cancelReq := fun _ => false, keyErr := false,
    claimed := fun _ _ => false, selfEnq := fun _ => false }

/-- `run_coro` entry: `our_tasks.add(task)`; a foreign task just starts -/
def spawnStep (s : St κ) (t : Task) (fg : Bool) : St κ :=
  if s.started t then s else
  { s with started := upd s.started t true, live := upd s.live t true, ours := upd s.ours t (!fg),
           foreign := upd s.foreign t fg }

/-- `reaper_cancel(o)`: `task_reaper_q.put_nowait(["cancel", o])` -/
def enqueue (s : St κ) (o : Task) : St κ := { s with reaperQ := s.reaperQ ++ [o] }

/-- kill-me arm: `reaper_cancel(curr_task); await asyncio.sleep(100000)` -/
def park (s : St κ) (t : Task) : St κ :=
  { enqueue s t with parked := upd s.parked t true, selfEnq := upd s.selfEnq t true }

/-- `elif task != curr_task and task in cls.our_tasks: cls.reaper_cancel(task)` -/
def killPrev (s : St κ) (t o : Task) : St κ :=
  if o ≠ t ∧ s.ours o = true then enqueue s o else s

/-- `unique_task2name[task].discard(name)` guarded by `if task in unique_task2name` -/
def discard (s : St κ) (o : Task) (k : κ) : St κ :=
  if s.entry o then { s with names := upd s.names o ((s.names o).filter (fun x => x ≠ k)) } else s

/-- `unique_name2task[name] = curr_task; unique_task2name.setdefault(curr_task, set()).add(name)` -/
def setOwner (s : St κ) (t : Task) (k : κ) : St κ :=
  { s with owner := upd s.owner k (some t),
           entry := upd s.entry t true,
           names := upd s.names t (if k ∈ s.names t then s.names t else k :: s.names t),
           claimed := upd s.claimed k (upd (s.claimed k) t true) }

/-- the block `if curr_task in cls.our_tasks: …` at the end of `task_unique` -/
def claim (s : St κ) (t : Task) (k : κ) : St κ :=
  if s.ours t then
    match s.owner k with
    | some o => setOwner (discard s o k) t k
    | none => setOwner s t k
  else s

/-- a task can execute a segment iff it is running and not blocked in the kill-me sleep -/
def canStep (s : St κ) (t : Task) : Bool := s.live t && !s.parked t

/-- `task_unique(name, kill_me)` -/
def uniqueStep (s : St κ) (t : Task) (k : κ) (km : Bool) : St κ :=
  if !canStep s t then s else
  match s.owner k with
  | some o =>
    if km then (if o ≠ t then park s t else claim s t k)
    else claim (killPrev s t o) t k
  | none => claim s t k

/-- is the reaper blocked in `await cmd[1]`? -/
def busy (s : St κ) : Bool :=
  match s.reaping with
  | some r => s.live r
  | none => false

/-- deviation flags (DESIGN §4); every flag is `true` for the code as it is now (`current`) and `false` for the code
before the corresponding `fix:` commit of /repo (`preFix`, kept for the regression theorems):

* `legacyClaimKillMe` – a7d4ccd: the legacy `do_func_call` passes the decorator's `kill_me` on to the claim,
  `await task_unique_func(name, **kwargs)` (was: `task_unique_func(name)` after the dispatcher's check)
* `reaperDetached`    – 32185a9: `task_reaper` only calls `cmd[1].cancel()` (was: `…; await cmd[1]`, which made every
  later cancellation wait for the cancelled task's clean-up)
* `tupleKeys`         – ef1f444: the unique-name maps are keyed by the tuple `(ctx_name, name)` and `name2id` compares
  the context component (was: the string `f"{ctx_name}.{name}"` and a `startswith` test)
* `legacyClaimsEmptyName` – dc7ca82: the legacy `do_func_call` guards the decorator's claim with
  `if task_unique is not None and …` (was: `if task_unique and …`, the truthiness of the name, so `@task_unique("")`
  never claimed) -/
structure Cfg where
  legacyClaimKillMe : Bool
  reaperDetached : Bool
  tupleKeys : Bool
  legacyClaimsEmptyName : Bool

/-- the code as it is now: every flag is READ OFF THE SOURCE on every run (`tools/extractors/C13.py` →
`Gen/TaskTbl.lean`); the theorems about `current` only build while the extracted values are the repaired shapes -/
def current : Cfg :=
  { legacyClaimKillMe := PsModel.Gen.LEGACY_CLAIM_PASSES_KILL_ME, reaperDetached := PsModel.Gen.REAPER_DETACHED,
    tupleKeys := PsModel.Gen.UNIQUE_KEYS_ARE_TUPLES, legacyClaimsEmptyName := PsModel.Gen.LEGACY_CLAIM_GUARD_IS_NOT_NONE }
theorem current_eq : current = ⟨true, true, true, true⟩ := rfl
def preFix : Cfg :=
  { legacyClaimKillMe := false, reaperDetached := false, tupleKeys := false, legacyClaimsEmptyName := false }

/-- one reaper iteration: pop, `cancel()`; when `awaits` (pre-fix shape) it then awaits that task and takes no further
command while it runs -/
def reapStepCfg (awaits : Bool) (s : St κ) : St κ :=
  if awaits && busy s then s else
  match s.reaperQ with
  | [] => s
  | h :: q =>
    if s.live h then
      { s with reaperQ := q, cancelReq := upd s.cancelReq h true, reaping := if awaits then some h else none }
    else { s with reaperQ := q, reaping := none }       -- cancel() of a finished task is a no-op

/-- the reaper of the code as it is now: it never waits -/
def reapStep (s : St κ) : St κ := reapStepCfg (!current.reaperDetached) s

/-- `for name in unique_task2name[task]: del unique_name2task[name]` – stops at the first KeyError -/
def delStop (owner : κ → Option Task) : List κ → κ → Option Task
  | [] => owner
  | k :: ks => if (owner k).isNone then owner else delStop (upd owner k none) ks

/-- does that loop raise KeyError? -/
def delErr (owner : κ → Option Task) : List κ → Bool
  | [] => false
  | k :: ks => (owner k).isNone || delErr (upd owner k none) ks

/-- the `finally` of `run_coro` (a foreign task simply ends; it owns nothing) -/
def exitStep (s : St κ) (t : Task) : St κ :=
  if !s.live t then s else
  if s.entry t then
    if delErr s.owner (s.names t) then
      -- KeyError leaves the finally: nothing after the loop runs (proved unreachable, `C13_release`)
      { s with owner := delStop s.owner (s.names t), live := upd s.live t false, keyErr := true }
    else
      { s with owner := delStop s.owner (s.names t), names := upd s.names t [], entry := upd s.entry t false,
               ours := upd s.ours t false, live := upd s.live t false, parked := upd s.parked t false }
  else { s with ours := upd s.ours t false, live := upd s.live t false, parked := upd s.parked t false }

/-- `Function.unique_name_used(ctx, name)` -/
def nameUsed (s : St κ) (k : κ) : Bool := (s.owner k).isSome

/-- does the new-subsystem decorator let the function body run? -/
def decoRuns (s : St κ) (k : κ) (km : Bool) : Bool := !(km && nameUsed s k)

/-- `TaskUniqueDecorator.handle_call` -/
def decoNewStep (s : St κ) (t : Task) (k : κ) (km : Bool) : St κ :=
  if decoRuns s k km then uniqueStep s t k false else s

/-- legacy `@task_unique`: first segment of the task that `call_action` created (the dispatcher's
`unique_name_used` check is `nameUsed` in the state in which the trigger loop ran) -/
def decoLegacyStep (cfg : Cfg) (s : St κ) (t : Task) (k : κ) (km : Bool) : St κ :=
  uniqueStep s t k (cfg.legacyClaimKillMe && km)

/-- the same with the guard in front of it: `nonEmpty` says whether the decorator's name is a non-empty string -/
def decoLegacyNamed (cfg : Cfg) (s : St κ) (t : Task) (k : κ) (km nonEmpty : Bool) : St κ :=
  if cfg.legacyClaimsEmptyName || nonEmpty then decoLegacyStep cfg s t k km else s

/-- the awaited coroutine ended, the `finally` of `run_coro` begins: the task is no longer blocked in the kill-me
`sleep`; it keeps every registry entry and goes on running segments (its done-callbacks) until `exit` -/
def endBodyStep (s : St κ) (t : Task) : St κ :=
  if s.live t then { s with parked := upd s.parked t false } else s

def step (s : St κ) : Op κ → St κ
  | .spawn t fg => spawnStep s t fg
  | .unique t k km => uniqueStep s t k km
  | .reap => reapStep s
  | .exit t => exitStep s t
  | .decoNew t k km => decoNewStep s t k km
  | .endBody t => endBodyStep s t

def run (ops : List (Op κ)) : St κ := ops.foldl step init

/-! ### the same steps, DEFINED FROM THE SHAPE TABLES extracted from function.py

`Shape` says how `task_unique` and the release block of `run_coro` are put together: which guards exist, in which order
the blocks come, which maps a claim stores into, which registries the release block clears in which order.
`Shape.extracted` is read off the source on every run (`Gen/TaskTbl.lean`); `Shape.proved` is the hand-written shape the
theorems are proved for.  The driver replays observed runs with `stepSh Shape.extracted current`; the property theorems
`C13_shape_tie` / `C13_shape_step` show that this is `step`.  A change of shape that the extractor still recognises
therefore changes the model the real code is compared with AND breaks `C13_shape_tie`; one it does not recognise
withholds the table. -/

structure Shape where
  killBeforeClaim : Bool            -- the block that hands somebody to the reaper precedes the claim block
  killmeIfOther : Bool              -- kill_me arm guarded by `task != curr_task`
  killmeParks : Bool                -- `reaper_cancel(curr_task)` is followed by `await asyncio.sleep(100000)`
  killNotSelf : Bool                -- displacing arm: conjunct `task != curr_task`
  killOnlyOurs : Bool               -- displacing arm: conjunct `task in cls.our_tasks`
  claimOnlyOurs : Bool              -- claim block guarded by `curr_task in cls.our_tasks`
  claimDiscardsOld : Bool           -- `unique_task2name[old].discard(key)`
  claimWrites : List PsModel.Gen.Reg       -- the maps a claim stores into
  releaseOrder : List PsModel.Gen.Reg      -- the registries the release block of `run_coro` clears, in order
deriving DecidableEq, Repr

def Shape.extracted : Shape :=
  { killBeforeClaim := PsModel.Gen.UNIQUE_KILL_BEFORE_CLAIM, killmeIfOther := PsModel.Gen.UNIQUE_KILLME_IF_OTHER,
    killmeParks := PsModel.Gen.UNIQUE_KILLME_PARKS, killNotSelf := PsModel.Gen.UNIQUE_KILL_NOT_SELF,
    killOnlyOurs := PsModel.Gen.UNIQUE_KILL_ONLY_OURS, claimOnlyOurs := PsModel.Gen.UNIQUE_CLAIM_ONLY_OURS,
    claimDiscardsOld := PsModel.Gen.UNIQUE_CLAIM_DISCARDS_OLD, claimWrites := PsModel.Gen.UNIQUE_CLAIM_WRITES,
    releaseOrder := PsModel.Gen.RELEASE_ORDER }

def Shape.proved : Shape :=
  { killBeforeClaim := true, killmeIfOther := true, killmeParks := true, killNotSelf := true, killOnlyOurs := true,
    claimOnlyOurs := true, claimDiscardsOld := true, claimWrites := [.unique_name2task, .unique_task2name],
    releaseOrder := [.unique_name2task, .unique_task2name, .task2context, .task2cb, .our_tasks] }

/-- shape facts that are not parameters of a step function: one FIFO reaper queue; the release block sits in a `finally`
and contains no await (it is one segment); the legacy dispatcher checks before it creates the task; the new decorator
checks, then claims without kill_me -/
def shapeFacts : List Bool :=
  [PsModel.Gen.REAPER_ONE_FIFO_QUEUE, PsModel.Gen.RELEASE_IN_FINALLY, PsModel.Gen.RELEASE_ATOMIC,
   PsModel.Gen.LEGACY_CHECK_BEFORE_TASK, PsModel.Gen.NEW_DECO_CHECK_THEN_PLAIN_CLAIM]

/-- the block `if key in unique_name2task: …`: who is handed to the reaper; `.2` = the caller goes on to the claim -/
def killArmSh (sh : Shape) (s : St κ) (t : Task) (k : κ) (km : Bool) : St κ × Bool :=
  match s.owner k with
  | none => (s, true)
  | some o =>
    if km then
      (if !sh.killmeIfOther || decide (o ≠ t) then
        (if sh.killmeParks then (park s t, false)
         else ({ enqueue s t with selfEnq := upd s.selfEnq t true }, true))
       else (s, true))
    else
      (if (!sh.killNotSelf || decide (o ≠ t)) && (!sh.killOnlyOurs || s.ours o) then (enqueue s o, true)
       else (s, true))

def setOwnerSh (sh : Shape) (s : St κ) (t : Task) (k : κ) : St κ :=
  { s with owner := if PsModel.Gen.Reg.unique_name2task ∈ sh.claimWrites then upd s.owner k (some t) else s.owner,
           entry := if PsModel.Gen.Reg.unique_task2name ∈ sh.claimWrites then upd s.entry t true else s.entry,
           names := if PsModel.Gen.Reg.unique_task2name ∈ sh.claimWrites
                    then upd s.names t (if k ∈ s.names t then s.names t else k :: s.names t) else s.names,
           claimed := upd s.claimed k (upd (s.claimed k) t true) }

def claimSh (sh : Shape) (s : St κ) (t : Task) (k : κ) : St κ :=
  if !sh.claimOnlyOurs || s.ours t then
    match s.owner k with
    | some o => setOwnerSh sh (if sh.claimDiscardsOld then discard s o k else s) t k
    | none => setOwnerSh sh s t k
  else s

def uniqueStepSh (sh : Shape) (s : St κ) (t : Task) (k : κ) (km : Bool) : St κ :=
  if !canStep s t then s else
  if sh.killBeforeClaim then
    (if (killArmSh sh s t k km).2 then claimSh sh (killArmSh sh s t k km).1 t k else (killArmSh sh s t k km).1)
  else (killArmSh sh (claimSh sh s t k) t k km).1

/-- one statement of the release block; `.2` = it raised (`del unique_name2task[name]` → KeyError) -/
def releaseOne (s : St κ) (t : Task) : PsModel.Gen.Reg → St κ × Bool
  | .unique_name2task =>
    if s.entry t then
      (if delErr s.owner (s.names t) then ({ s with owner := delStop s.owner (s.names t), keyErr := true }, true)
       else ({ s with owner := delStop s.owner (s.names t) }, false))
    else (s, false)
  | .unique_task2name =>
    (if s.entry t then { s with names := upd s.names t [], entry := upd s.entry t false } else s, false)
  | .our_tasks => ({ s with ours := upd s.ours t false }, false)
  | .task2context => (s, false)       -- C14's registries
  | .task2cb => (s, false)

def releaseAll : List PsModel.Gen.Reg → St κ → Task → St κ × Bool
  | [], s, _ => (s, false)
  | r :: rs, s, t => if (releaseOne s t r).2 then ((releaseOne s t r).1, true) else releaseAll rs (releaseOne s t r).1 t

def exitStepSh (sh : Shape) (s : St κ) (t : Task) : St κ :=
  if !s.live t then s else
  if (releaseAll sh.releaseOrder s t).2 then { (releaseAll sh.releaseOrder s t).1 with live := upd s.live t false }
  else { (releaseAll sh.releaseOrder s t).1 with live := upd s.live t false, parked := upd s.parked t false }

def stepSh (sh : Shape) (cfg : Cfg) (s : St κ) : Op κ → St κ
  | .spawn t fg => spawnStep s t fg
  | .unique t k km => uniqueStepSh sh s t k km
  | .reap => reapStepCfg (!cfg.reaperDetached) s
  | .exit t => exitStepSh sh s t
  | .decoNew t k km => if decoRuns s k km then uniqueStepSh sh s t k false else s
  | .endBody t => endBodyStep s t

/-- a cancel is pending (queued) or delivered -/
def Pending (s : St κ) (t : Task) : Prop := t ∈ s.reaperQ ∨ s.cancelReq t = true

/-! ### keys: the tuple `(ctx_name, name)` (pre-fix: the string `f"{ctx_name}.{name}"`) and `task.name2id()` -/

abbrev Str := List Char

/-- pre-fix key -/
def mkKey (ctx name : Str) : Str := ctx ++ '.' :: name

/-- pre-fix `task.name2id()`: `if task_name.startswith(prefix): ret[task_name[len(prefix):]] = task_id` -/
def viewName (ctx key : Str) : Option Str :=
  if (ctx ++ ['.']).isPrefixOf key then some (key.drop (ctx.length + 1)) else none

/-- two context names whose dotted prefixes are not nested -/
def Sep (c c' : Str) : Prop := ¬ (c ++ ['.']) <+: (c' ++ ['.']) ∧ ¬ (c' ++ ['.']) <+: (c ++ ['.'])

/-- keys of the unique-name maps; the pre-fix string key is embedded as `(string, "")` -/
abbrev Key := Str × Str

/-- the key `task_unique` / `unique_name_used` build from the context name and the user's name -/
def keyOf (tuple : Bool) (ctx name : Str) : Key := if tuple then (ctx, name) else (mkKey ctx name, [])

/-- `task.name2id()` of context `ctx`: under which name (if at all) it lists key `k` -/
def viewOf (tuple : Bool) (ctx : Str) (k : Key) : Option Str :=
  if tuple then (if k.1 = ctx then some k.2 else none) else viewName ctx k.1

/-- one reaper delivery followed, under the runtime assumption that a cancelled task ends at its next suspension
point, by the `finally` of the task it was delivered to -/
def reapCycle (s : St κ) : St κ :=
  match s.reaperQ with
  | [] => s
  | h :: _ => exitStep (reapStep s) h

def drain : Nat → St κ → St κ
  | 0, s => s
  | n+1, s => drain n (reapCycle s)

end PsModel.C13
