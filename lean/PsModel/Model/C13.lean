/-!
# C13 model – `task.unique` bookkeeping of `function.py` as a transition system

asyncio is cooperative, so the code between two suspension points runs atomically.  The atomic steps are exactly
the await-free segments of `function.py`:

* `spawn t fg`      – a task starts running: `run_coro` does `our_tasks.add(task)` (`fg = false`); `fg = true` is a
                      task that was *not* created by `Function.create_task` (it is never in `our_tasks`)
* `unique t k km`   – `task_unique(name, kill_me)` called by task `t` (closure of `task_unique_factory`); `k` is the
                      key `(global_ctx, name)` (pre-fix: the string `f"{global_ctx}.{name}"`).  The kill-me arm enqueues the caller itself and
                      parks it in `sleep(100000)`; otherwise the previous owner is enqueued if it is one of ours and
                      the caller claims if it is one of ours.
* `reap`            – one iteration of `task_reaper`: `cmd = await q.get(); cmd[1].cancel(); await cmd[1]`
                      (the reaper then waits for that task to end before it takes the next command)
* `exit t`          – the `finally` of `run_coro` (no done-callbacks here – those are C14): delete every name of
                      `unique_task2name[t]` from `unique_name2task`, delete the entry, `our_tasks.discard(t)`
* `decoNew t k km`  – new subsystem `TaskUniqueDecorator.handle_call`, first segment of the new task:
                      `if kill_me and unique_name_used(..): return False` else `task_unique(name)`

The legacy `@task_unique` is two steps (`unique_name_used` inside the trigger loop's `call_action`, then
`task_unique(name, kill_me=…)` as first segment of the new task – `decoLegacyStep`, a `unique` step) and is therefore
expressed with `nameUsed` + `spawn` + `unique`.

The maps are function valued (`upd` = dictionary store); `names`/`entry` together are `unique_task2name`
(`entry t` = "t is a key of the dict", `names t` = the set, kept duplicate free as a list).
Ghost fields (`claimed`, `selfEnq`, `keyErr`) only record history for the theorems; no step reads them.
The key type is a parameter: theorems hold for every key type, the driver uses strings, witnesses use `Nat`.
-/
namespace PsModel.C13

abbrev Task := Nat

/-- dictionary store -/
def upd {κ α : Type} [DecidableEq κ] (f : κ → α) (k : κ) (v : α) : κ → α := fun x => if x = k then v else f x

structure St (κ : Type) where
  owner     : κ → Option Task      -- Function.unique_name2task
  names     : Task → List κ        -- Function.unique_task2name[t]  (set as duplicate-free list)
  entry     : Task → Bool          -- t in Function.unique_task2name
  ours      : Task → Bool          -- t in Function.our_tasks
  live      : Task → Bool          -- started and its coroutine has not finished
  started   : Task → Bool          -- task ids are never reused
  foreign   : Task → Bool          -- not created through Function.create_task
  parked    : Task → Bool          -- inside the kill-me `await asyncio.sleep(100000)`
  reaperQ   : List Task            -- pending ["cancel", task] commands of Function.task_reaper_q (FIFO)
  reaping   : Option Task          -- the task the reaper is currently awaiting
  cancelReq : Task → Bool          -- Task.cancel() has been called on the (then unfinished) task
  keyErr    : Bool                 -- ghost: a `del unique_name2task[name]` of the finally raised KeyError
  claimed   : κ → Task → Bool      -- ghost: t has completed a claim of k
  selfEnq   : Task → Bool          -- ghost: t has put itself on the reaper queue (kill-me)

inductive Op (κ : Type) where
  | spawn (t : Task) (fg : Bool)
  | unique (t : Task) (k : κ) (killMe : Bool)
  | reap
  | exit (t : Task)
  | decoNew (t : Task) (k : κ) (killMe : Bool)

variable {κ : Type} [DecidableEq κ]

def init : St κ :=
  { owner := fun _ => none, names := fun _ => [], entry := fun _ => false, ours := fun _ => false,
    live := fun _ => false, started := fun _ => false, foreign := fun _ => false, parked := fun _ => false,
    reaperQ := [], reaping := none, cancelReq := fun _ => false, keyErr := false,
    claimed := fun _ _ => false, selfEnq := fun _ => false }

/-- `run_coro` entry: `our_tasks.add(task)`; a foreign task just starts -/
def spawnStep (s : St κ) (t : Task) (fg : Bool) : St κ :=
  if s.started t then s else
  { s with started := upd s.started t true, live := upd s.live t true, ours := upd s.ours t (!fg),
           foreign := upd s.foreign t fg }

/-- `reaper_cancel(o)`: `task_reaper_q.put_nowait(["cancel", o])` -/
def enqueue (s : St κ) (o : Task) : St κ := { s with reaperQ := s.reaperQ ++ [o] }

/-- kill-me arm: `reaper_cancel(curr_task); await asyncio.sleep(100000)` -/
def park (s : St κ) (t : Task) : St κ :=
  { enqueue s t with parked := upd s.parked t true, selfEnq := upd s.selfEnq t true }

/-- `elif task != curr_task and task in cls.our_tasks: cls.reaper_cancel(task)` -/
def killPrev (s : St κ) (t o : Task) : St κ :=
  if o ≠ t ∧ s.ours o = true then enqueue s o else s

/-- `unique_task2name[task].discard(name)` guarded by `if task in unique_task2name` -/
def discard (s : St κ) (o : Task) (k : κ) : St κ :=
  if s.entry o then { s with names := upd s.names o ((s.names o).filter (fun x => x ≠ k)) } else s

/-- `unique_name2task[name] = curr_task; unique_task2name.setdefault(curr_task, set()).add(name)` -/
def setOwner (s : St κ) (t : Task) (k : κ) : St κ :=
  { s with owner := upd s.owner k (some t),
           entry := upd s.entry t true,
           names := upd s.names t (if k ∈ s.names t then s.names t else k :: s.names t),
           claimed := upd s.claimed k (upd (s.claimed k) t true) }

/-- the block `if curr_task in cls.our_tasks: …` at the end of `task_unique` -/
def claim (s : St κ) (t : Task) (k : κ) : St κ :=
  if s.ours t then
    match s.owner k with
    | some o => setOwner (discard s o k) t k
    | none => setOwner s t k
  else s

/-- a task can execute a segment iff it is running and not blocked in the kill-me sleep -/
def canStep (s : St κ) (t : Task) : Bool := s.live t && !s.parked t

/-- `task_unique(name, kill_me)` -/
def uniqueStep (s : St κ) (t : Task) (k : κ) (km : Bool) : St κ :=
  if !canStep s t then s else
  match s.owner k with
  | some o =>
    if km then (if o ≠ t then park s t else claim s t k)
    else claim (killPrev s t o) t k
  | none => claim s t k

/-- is the reaper blocked in `await cmd[1]`? -/
def busy (s : St κ) : Bool :=
  match s.reaping with
  | some r => s.live r
  | none => false

/-- deviation flags (DESIGN §4); every flag is `true` for the code as it is now (`current`) and `false` for the code
before the corresponding `fix:` commit of /repo (`preFix`, kept for the regression theorems):

* `legacyClaimKillMe` – a7d4ccd: the legacy `do_func_call` passes the decorator's `kill_me` on to the claim,
  `await task_unique_func(name, **kwargs)` (was: `task_unique_func(name)` after the dispatcher's check)
* `reaperDetached`    – 32185a9: `task_reaper` only calls `cmd[1].cancel()` (was: `…; await cmd[1]`, which made every
  later cancellation wait for the cancelled task's clean-up)
* `tupleKeys`         – ef1f444: the unique-name maps are keyed by the tuple `(ctx_name, name)` and `name2id` compares
  the context component (was: the string `f"{ctx_name}.{name}"` and a `startswith` test)
* `legacyClaimsEmptyName` – dc7ca82: the legacy `do_func_call` guards the decorator's claim with
  `if task_unique is not None and …` (was: `if task_unique and …`, the truthiness of the name, so `@task_unique("")`
  never claimed) -/
structure Cfg where
  legacyClaimKillMe : Bool
  reaperDetached : Bool
  tupleKeys : Bool
  legacyClaimsEmptyName : Bool

def current : Cfg :=
  { legacyClaimKillMe := true, reaperDetached := true, tupleKeys := true, legacyClaimsEmptyName := true }
def preFix : Cfg :=
  { legacyClaimKillMe := false, reaperDetached := false, tupleKeys := false, legacyClaimsEmptyName := false }

/-- one reaper iteration: pop, `cancel()`; when `awaits` (pre-fix shape) it then awaits that task and takes no further
command while it runs -/
def reapStepCfg (awaits : Bool) (s : St κ) : St κ :=
  if awaits && busy s then s else
  match s.reaperQ with
  | [] => s
  | h :: q =>
    if s.live h then
      { s with reaperQ := q, cancelReq := upd s.cancelReq h true, reaping := if awaits then some h else none }
    else { s with reaperQ := q, reaping := none }       -- cancel() of a finished task is a no-op

/-- the reaper of the code as it is now: it never waits -/
def reapStep (s : St κ) : St κ := reapStepCfg (!current.reaperDetached) s

/-- `for name in unique_task2name[task]: del unique_name2task[name]` – stops at the first KeyError -/
def delStop (owner : κ → Option Task) : List κ → κ → Option Task
  | [] => owner
  | k :: ks => if (owner k).isNone then owner else delStop (upd owner k none) ks

/-- does that loop raise KeyError? -/
def delErr (owner : κ → Option Task) : List κ → Bool
  | [] => false
  | k :: ks => (owner k).isNone || delErr (upd owner k none) ks

/-- the `finally` of `run_coro` (a foreign task simply ends; it owns nothing) -/
def exitStep (s : St κ) (t : Task) : St κ :=
  if !s.live t then s else
  if s.entry t then
    if delErr s.owner (s.names t) then
      -- KeyError leaves the finally: nothing after the loop runs (proved unreachable, `C13_release`)
      { s with owner := delStop s.owner (s.names t), live := upd s.live t false, keyErr := true }
    else
      { s with owner := delStop s.owner (s.names t), names := upd s.names t [], entry := upd s.entry t false,
               ours := upd s.ours t false, live := upd s.live t false, parked := upd s.parked t false }
  else { s with ours := upd s.ours t false, live := upd s.live t false, parked := upd s.parked t false }

/-- `Function.unique_name_used(ctx, name)` -/
def nameUsed (s : St κ) (k : κ) : Bool := (s.owner k).isSome

/-- does the new-subsystem decorator let the function body run? -/
def decoRuns (s : St κ) (k : κ) (km : Bool) : Bool := !(km && nameUsed s k)

/-- `TaskUniqueDecorator.handle_call` -/
def decoNewStep (s : St κ) (t : Task) (k : κ) (km : Bool) : St κ :=
  if decoRuns s k km then uniqueStep s t k false else s

/-- legacy `@task_unique`: first segment of the task that `call_action` created (the dispatcher's
`unique_name_used` check is `nameUsed` in the state in which the trigger loop ran) -/
def decoLegacyStep (cfg : Cfg) (s : St κ) (t : Task) (k : κ) (km : Bool) : St κ :=
  uniqueStep s t k (cfg.legacyClaimKillMe && km)

/-- the same with the guard in front of it: `nonEmpty` says whether the decorator's name is a non-empty string -/
def decoLegacyNamed (cfg : Cfg) (s : St κ) (t : Task) (k : κ) (km nonEmpty : Bool) : St κ :=
  if cfg.legacyClaimsEmptyName || nonEmpty then decoLegacyStep cfg s t k km else s

def step (s : St κ) : Op κ → St κ
  | .spawn t fg => spawnStep s t fg
  | .unique t k km => uniqueStep s t k km
  | .reap => reapStep s
  | .exit t => exitStep s t
  | .decoNew t k km => decoNewStep s t k km

def run (ops : List (Op κ)) : St κ := ops.foldl step init

/-- a cancel is pending (queued) or delivered -/
def Pending (s : St κ) (t : Task) : Prop := t ∈ s.reaperQ ∨ s.cancelReq t = true

/-! ### keys: the tuple `(ctx_name, name)` (pre-fix: the string `f"{ctx_name}.{name}"`) and `task.name2id()` -/

abbrev Str := List Char

/-- pre-fix key -/
def mkKey (ctx name : Str) : Str := ctx ++ '.' :: name

/-- pre-fix `task.name2id()`: `if task_name.startswith(prefix): ret[task_name[len(prefix):]] = task_id` -/
def viewName (ctx key : Str) : Option Str :=
  if (ctx ++ ['.']).isPrefixOf key then some (key.drop (ctx.length + 1)) else none

/-- two context names whose dotted prefixes are not nested -/
def Sep (c c' : Str) : Prop := ¬ (c ++ ['.']) <+: (c' ++ ['.']) ∧ ¬ (c' ++ ['.']) <+: (c ++ ['.'])

/-- keys of the unique-name maps; the pre-fix string key is embedded as `(string, "")` -/
abbrev Key := Str × Str

/-- the key `task_unique` / `unique_name_used` build from the context name and the user's name -/
def keyOf (tuple : Bool) (ctx name : Str) : Key := if tuple then (ctx, name) else (mkKey ctx name, [])

/-- `task.name2id()` of context `ctx`: under which name (if at all) it lists key `k` -/
def viewOf (tuple : Bool) (ctx : Str) (k : Key) : Option Str :=
  if tuple then (if k.1 = ctx then some k.2 else none) else viewName ctx k.1

/-- one reaper delivery followed, under the runtime assumption that a cancelled task ends at its next suspension
point, by the `finally` of the task it was delivered to -/
def reapCycle (s : St κ) : St κ :=
  match s.reaperQ with
  | [] => s
  | h :: _ => exitStep (reapStep s) h

def drain : Nat → St κ → St κ
  | 0, s => s
  | n+1, s => drain n (reapCycle s)

end PsModel.C13
