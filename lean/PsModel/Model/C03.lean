import PsModel.Gen.TriggerKwargs
/-!
# C03 model (a) – argument binding of `EvalFunc.call`

`PS.bind` mirrors `eval.py` l.707-763: one index loop over `posonlyargs + args` that takes the i-th positional
argument, else *pops* a same-named keyword (remembering positional-only names in `bad_kwargs`), else a default by
offset, else raises; then the keyword-only loop, `**kwarg` / the `TRIGGER_KWARGS` exemption, `*vararg`.
All failures are `TypeError` (result `none`).  Values are opaque ids.
-/
namespace PsModel.C03

abbrev KW := List (String × Nat)

def KW.has (kw : KW) (k : String) : Bool := kw.any (fun p => p.1 == k)
def KW.get (kw : KW) (k : String) : Option Nat := (kw.find? (fun p => p.1 == k)).map (·.2)
def KW.erase (kw : KW) (k : String) : KW := kw.filter (fun p => p.1 != k)
def KW.keys (kw : KW) : List String := kw.map (·.1)

structure Sig where
  posonly : List String
  args : List String
  ndefaults : Nat                       -- trailing defaults among posonly ++ args
  kwonly : List (String × Bool)         -- name, has a default
  vararg : Bool
  kwarg : Bool
deriving Repr, DecidableEq

inductive ArgVal where
  | given (v : Nat)                     -- supplied by the caller
  | dflt (i : Nat)                      -- i-th entry of `defaults`
  | kwdflt (i : Nat)                    -- default of the i-th keyword-only parameter
deriving Repr, DecidableEq

structure Bound where
  slots : List (String × ArgVal)        -- named parameters in definition order
  var : Option (List Nat)               -- `*vararg`
  kw : Option KW                        -- `**kwarg` (call order preserved)
deriving Repr, DecidableEq

def Sig.params (s : Sig) : List String := s.posonly ++ s.args
def Sig.nposn (s : Sig) : Nat := s.params.length - s.ndefaults       -- `num_posn_arg`

structure Cfg where
  posonlyKwToKwargs : Bool      -- a keyword named like a positional-only parameter goes to **kwargs (today: consumed / error)
deriving Repr, DecidableEq

namespace PS

/-- the index loop over `posonlyargs + args`; returns the bindings, the keywords left, and whether `bad_kwargs` is non-empty -/
def posLoop (cfg : Cfg) (s : Sig) (args : List Nat) : Nat → List String → KW → Bool →
    Option (List (String × ArgVal) × KW × Bool)
  | _, [], kw, bad => some ([], kw, bad)
  | i, p :: ps, kw, bad =>
    let skipKw := cfg.posonlyKwToKwargs && s.kwarg && i < s.posonly.length     -- repaired shape: leave it for **kwargs
    if i < args.length then
      if kw.has p && !skipKw then none                                         -- "got multiple values for argument"
      else (posLoop cfg s args (i + 1) ps kw bad).map fun r => ((p, .given (args.getD i 0)) :: r.1, r.2)
    else if kw.has p && !skipKw then
      (posLoop cfg s args (i + 1) ps (kw.erase p) (bad || i < s.posonly.length)).map fun r =>
        ((p, .given ((kw.get p).getD 0)) :: r.1, r.2)
    else if s.nposn ≤ i then
      (posLoop cfg s args (i + 1) ps kw bad).map fun r => ((p, .dflt (i - s.nposn)) :: r.1, r.2)
    else none                                                                  -- "missing required positional arguments"

/-- the loop over `kwonlyargs` -/
def kwonlyLoop : Nat → List (String × Bool) → KW → Option (List (String × ArgVal) × KW)
  | _, [], kw => some ([], kw)
  | i, (k, hasD) :: ks, kw =>
    if kw.has k then (kwonlyLoop (i + 1) ks (kw.erase k)).map fun r => ((k, .given ((kw.get k).getD 0)) :: r.1, r.2)
    else if hasD then (kwonlyLoop (i + 1) ks kw).map fun r => ((k, .kwdflt i) :: r.1, r.2)
    else none

def bind (cfg : Cfg) (trig : List String) (s : Sig) (args : List Nat) (kw : KW) : Option Bound :=
  match posLoop cfg s args 0 s.params kw false with
  | none => none
  | some (slots1, kw1, bad) =>
    if bad then none                                       -- "positional-only arguments passed as keyword arguments"
    else match kwonlyLoop 0 s.kwonly kw1 with
      | none => none
      | some (slots2, kw2) =>
        if !s.kwarg && !(kw2.keys.all fun k => trig.contains k) then none     -- unexpected keyword arguments
        else if !s.vararg && args.length > s.params.length then none          -- too many positional arguments
        else some { slots := slots1 ++ slots2,
                    var := if s.vararg then some (args.drop s.params.length) else none,
                    kw := if s.kwarg then some kw2 else none }

end PS

def Current.cfg : Cfg := { posonlyKwToKwargs := true }

/-- before the `fix:` commit -/
def Cfg.preFix : Cfg := { posonlyKwToKwargs := false }

end PsModel.C03
