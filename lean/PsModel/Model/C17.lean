import PsModel.Gen.Const
import PsModel.Gen.C17Tables
/-!
# C17 model – import statements and builtin lookup of the interpreter (`eval.py`, `global_ctx.py`)

Mirrors the code as it is:
* `GlobalContext.module_import(name, 0)` l.197–221 → `pysCandidates` / `pysLookup` (candidate files in the code's
  order: `apps/…` only for a context inside `apps/`, then `modules/<path>/__init__.py`, `modules/<path>.py`)
* `module_import(name, level > 0)` → `relLookup`: no parent package → `ImportError`; the `/__init__` suffix of the
  loader's `rel_import_path` is dropped; `level - 1` times `dirname` on the path and one component off the context
  name, `ImportError` ("above parent package") as soon as the path has no `/` left or the name no `.`
* `AstEval.ast_import` l.951–965 → `execImport` (pyscript lookup first; then the allow test on the WHOLE dotted
  name; then `sys.modules` / `importlib`; binding key = dotted name or `asname`; names are processed left to right,
  earlier bindings stay when a later name fails)
* `AstEval.ast_importfrom` l.967–1002 → `execImportFrom` (`from . import x`; the `stubs` / `stubs.*` skip, which
  rejects `as`; the same resolution; `*` binds every name not starting with `_`; otherwise `getattr`)
* `ast_eval_exec_factory` → `Prog.exec` / `run` (a new `AstEval` over the same global context and config entry)
* `AstEval.ast_name` l.1535–1560 (plain names) → `lookupName`.

Module contents are abstract (`ModInfo`: an identity and the keys of `__dict__`).  The allow-list, the exclude set and
the names of pyscript's own `eval`/`exec`/`globals`/`locals` come from `PsModel.Gen`.
-/
namespace PsModel.C17
open PsModel

structure ModInfo where
  id : String                 -- which module object this is
  attrs : List String         -- keys of its `__dict__`, in order
deriving DecidableEq, Repr

/-- everything an import statement can observe of its surroundings -/
structure Env where
  allowAll : Bool                         -- CONF_ALLOW_ALL_IMPORTS of the config entry
  relPath : Option String                 -- `global_ctx.rel_import_path` (`none` for a plain script file)
  ctxName : String                        -- `global_ctx.name` (`apps.app1.sub`, `file.t`, …)
  files : List (String × ModInfo)         -- files below the pyscript folder that load as modules (path ↦ module)
  host : String → Option ModInfo          -- `sys.modules` / `importlib.import_module`; `none` = ModuleNotFoundError

inductive Err where
  | notAllowed      -- ModuleNotFoundError "import of X not allowed" / "import from X not allowed"
  | notFound        -- ModuleNotFoundError raised by importlib ("No module named …")
  | stubsAs         -- ModuleNotFoundError "… *as y* not supported for stubs"
  | relNoParent     -- ImportError "attempted relative import with no known parent package"
  | relAbove        -- ImportError "attempted relative import above parent package"
  | relNotFound     -- ModuleNotFoundError "module 'x' not found" (from . import x)
  | attrMissing     -- AttributeError from `getattr(mod, name)`
deriving DecidableEq, Repr

/-- what a name gets bound to -/
inductive Val where
  | mod (m : String)                      -- a module object
  | attr (m : String) (a : String)        -- `getattr(module m, a)`
deriving DecidableEq, Repr

abbrev Bindings := List (String × Val)    -- writes to `self.sym_table`, oldest first

/-- `module_name.replace(".", "/")` -/
def modPath (name : String) : String := String.ofList (name.toList.map (fun c => if c = '.' then '/' else c))

/-- `self.rel_import_path is not None and self.rel_import_path.startswith("apps/")` -/
def Env.inApp (env : Env) : Bool :=
  match env.relPath with
  | some p => p.startsWith "apps/"
  | none => false

/-- candidate files of `module_import(name, 0)` in the order they are tried -/
def pysCandidates (inApp : Bool) (name : String) : List String :=
  (if inApp then ["apps/" ++ modPath name ++ "/__init__.py", "apps/" ++ modPath name ++ ".py"] else []) ++
  ["modules/" ++ modPath name ++ "/__init__.py", "modules/" ++ modPath name ++ ".py"]

def lookupFile (files : List (String × ModInfo)) (p : String) : Option ModInfo :=
  match files with
  | [] => none
  | (q, m) :: rest => if q = p then some m else lookupFile rest p

def firstFile (files : List (String × ModInfo)) : List String → Option ModInfo
  | [] => none
  | p :: ps => match lookupFile files p with
    | some m => some m
    | none => firstFile files ps

/-- `await self.global_ctx.module_import(name, 0)` -/
def pysLookup (env : Env) (name : String) : Option ModInfo := firstFile env.files (pysCandidates env.inApp name)

/-- `os.path.dirname` on a relative path: everything before the last `/` (empty when there is none) -/
def dirnameL (l : List Char) : List Char :=
  match l.reverse.dropWhile (fun c => c != '/') with
  | [] => []
  | _ :: r => r.reverse

def dirname (p : String) : String := String.ofList (dirnameL p.toList)

/-- `if path.endswith("/__init__"): path = os.path.dirname(path)` -/
def stripInit (p : String) : String := if p.endsWith "/__init__" then dirname p else p

/-- `ctx_name[0:ctx_name.rfind(".")]`; `none` when there is no dot -/
def dropLastDot (s : String) : Option String :=
  match s.toList.reverse.dropWhile (fun c => c != '.') with
  | [] => none
  | _ :: r => some (String.ofList r.reverse)

/-- the `for _ in range(import_level - 1)` loop on (path, ctx_name); `none` = "above parent package" -/
def relUp : Nat → String → String → Option (String × String)
  | 0, path, ctx => some (path, ctx)
  | k + 1, path, ctx =>
    match dropLastDot ctx with
    | none => none
    | some ctx' => if (dirname path).contains '/' then relUp k (dirname path) ctx' else none

inductive RelRes where
  | noParent                  -- `rel_import_path is None`
  | above                     -- climbed out of the package
  | found (m : ModInfo)
  | missing                   -- no such file: `module_import` returns `None`
deriving DecidableEq, Repr

/-- `module_import(name, level)` for `level ≥ 1` -/
def relLookup (env : Env) (level : Nat) (name : String) : RelRes :=
  match env.relPath with
  | none => .noParent
  | some rp =>
    match relUp (level - 1) (stripInit rp) env.ctxName with
    | none => .above
    | some (path, _) =>
      match firstFile env.files [path ++ "/" ++ modPath name ++ "/__init__.py", path ++ "/" ++ modPath name ++ ".py"] with
      | some m => .found m
      | none => .missing

/-- `imp.name not in ALLOWED_IMPORTS` – membership of the whole dotted name -/
def allowListed (name : String) : Bool := Gen.ALLOWED_IMPORTS.contains name

/-- allow test and host import on a bare module name (second half of `resolve`) -/
def hostImport (env : Env) (name : String) : Except Err ModInfo :=
  if !env.allowAll && !allowListed name then .error .notAllowed
  else match env.host name with
    | some m => .ok m
    | none => .error .notFound

/-- pyscript module, else allow test, else the host's import (l.954–964 and l.989–999) -/
def resolve (env : Env) (name : String) : Except Err ModInfo :=
  match pysLookup env name with
  | some m => .ok m
  | none => hostImport env name

structure Alias where
  name : String
  asname : Option String
deriving DecidableEq, Repr

def Alias.key (a : Alias) : String := a.asname.getD a.name

/-- result of a statement: the writes that happened, and the exception if one ended it -/
structure Res where
  binds : Bindings
  err : Option Err
deriving DecidableEq, Repr

/-- `ast_import`: names left to right -/
def execImport (env : Env) : List Alias → Bindings → Res
  | [], σ => { binds := σ, err := none }
  | a :: rest, σ =>
    match resolve env a.name with
    | .error e => { binds := σ, err := some e }
    | .ok m => execImport env rest (σ ++ [(a.key, .mod m.id)])

/-- `arg.module == "stubs" or arg.module.startswith("stubs.")` -/
def isStubs (module : String) : Bool := module == "stubs" || module.startsWith "stubs."

/-- the `for imp in arg.names` loop of a from-import over the resolved module -/
def bindFrom (m : ModInfo) : List Alias → Bindings → Res
  | [], σ => { binds := σ, err := none }
  | a :: rest, σ =>
    if a.name = "*" then
      bindFrom m rest (σ ++ (m.attrs.filter (fun n => n.front != '_')).map (fun n => (n, Val.attr m.id n)))
    else if m.attrs.contains a.name then bindFrom m rest (σ ++ [(a.key, .attr m.id a.name)])
    else { binds := σ, err := some .attrMissing }

/-- `from . import a, b` (`from .. import a`, …) without a module name: every name is a relative module import -/
def execFromDot (env : Env) (level : Nat) : List Alias → Bindings → Res
  | [], σ => { binds := σ, err := none }
  | a :: rest, σ =>
    match relLookup env level a.name with
    | .noParent => { binds := σ, err := some .relNoParent }
    | .above => { binds := σ, err := some .relAbove }
    | .found m => execFromDot env level rest (σ ++ [(a.key, .mod m.id)])
    | .missing => { binds := σ, err := some .relNotFound }

/-- how the module of a `from [.…]module import …` is found; `level` = number of leading dots (0 = absolute) -/
def findFrom (env : Env) (mname : String) (level : Nat) : Except Err ModInfo :=
  if level = 0 then resolve env mname
  else match relLookup env level mname with
    | .noParent => .error .relNoParent
    | .above => .error .relAbove
    | .found m => .ok m
    | .missing => hostImport env mname     -- not found relatively: the bare name goes through the allow test

/-- `ast_importfrom` -/
def execImportFrom (env : Env) (module : Option String) (level : Nat) (names : List Alias) (σ : Bindings) : Res :=
  match module with
  | none => execFromDot env level names σ
  | some mname =>
    if isStubs mname then
      if names.any (fun a => a.asname.isSome) then { binds := σ, err := some .stubsAs }
      else { binds := σ, err := none }
    else
      match findFrom env mname level with
      | .error e => { binds := σ, err := some e }
      | .ok m => bindFrom m names σ

inductive Stmt where
  | imp (names : List Alias)
  | impFrom (module : Option String) (level : Nat) (names : List Alias)
deriving Repr

def execStmt (env : Env) (s : Stmt) (σ : Bindings) : Res :=
  match s with
  | .imp names => execImport env names σ
  | .impFrom m l names => execImportFrom env m l names σ

/-- where a statement can stand without changing what it does -/
inductive Where where
  | func        -- body of a function that is called (the bound names are declared `global`)
  | cls         -- class body (the bindings land in the class namespace)
  | tryExcept   -- `try: … except ImportError as e:` (the error is caught afterwards; `Res.err` is what was raised)
  | evalExec    -- `eval("exec('…')")`
deriving DecidableEq, Repr

/-- a statement, possibly wrapped in `exec("…")` any number of times, or standing in a function / class body /
`try`.  `ast_eval_exec_factory` builds a new `AstEval` over the SAME global context (hence the same pyscript modules,
the same config entry) and, at module level, the same symbol table; `ast_import`/`ast_importfrom` do not look at the
enclosing construct at all. -/
inductive Prog where
  | stmt (s : Stmt)
  | exec (p : Prog)
  | within (w : Where) (p : Prog)
deriving Repr

def run (env : Env) : Prog → Bindings → Res
  | .stmt s, σ => execStmt env s σ
  | .exec p, σ => run env p σ
  | .within _ p, σ => run env p σ

/-- a long-lived evaluator (a function that survives a reload, a Jupyter session): statements executed one after the
other over the same symbol table, the `allow_all_imports` option of the config entry possibly changed in between.  The
option is an input of every STEP, not of the context: `ast_import` / `ast_importfrom` read the live config entry
(`self.config_entry.data.get(CONF_ALLOW_ALL_IMPORTS, False)`, l.957 / l.992) each time they execute. -/
def runSeq (env : Env) : List (Bool × Prog) → Bindings → List Res
  | [], _ => []
  | (a, p) :: rest, σ => run { env with allowAll := a } p σ :: runSeq env rest (run { env with allowAll := a } p σ).binds

/-- the symbol table after the steps -/
def seqBinds (env : Env) : List (Bool × Prog) → Bindings → Bindings
  | [], σ => σ
  | (a, p) :: rest, σ => seqBinds env rest (run { env with allowAll := a } p σ).binds

def Prog.inner : Prog → Stmt
  | .stmt s => s
  | .exec p => p.inner
  | .within _ p => p.inner

/-! ## plain-name lookup (`ast_name`, Load context, no dots) -/

structure NameEnv where
  user : String → Bool          -- defined in the symbol tables the lookup goes through first
  hostBuiltin : String → Bool   -- `hasattr(builtins, x)`
  func : String → Bool          -- `Function.get(x)`: registered pyscript function (print, …)

inductive Resolved where
  | user            -- the script's own binding
  | astFactory      -- pyscript's eval / exec / globals / locals
  | host            -- `getattr(builtins, x)`
  | pyscriptFunc    -- `Function.get(x)` (for `print`: the context logger's `debug`)
  | evalName        -- unresolved: `EvalName(x)` (a NameError when used as a value)
deriving DecidableEq, Repr

def lookupName (ne : NameEnv) (x : String) : Resolved :=
  if ne.user x then .user
  else if Gen.BUILTIN_AST_FUNCS.contains x then .astFactory
  else if ne.hostBuiltin x && !Gen.BUILTIN_EXCLUDE.contains x && x.front != '_' then .host
  else if ne.func x then .pyscriptFunc
  else .evalName

/-- `ast_name` for a name the enclosing function declares `global`: only the global symbol table is consulted
(l.~1545 `if self.curr_func and arg.id in self.curr_func.global_names`), never the builtins -/
def lookupGlobalDeclared (ne : NameEnv) (x : String) : Resolved :=
  if ne.user x then .user else .evalName

end PsModel.C17
