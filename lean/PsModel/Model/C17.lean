import PsModel.Gen.Const
import PsModel.Gen.C17Tables
/-!
# C17 model – import statements and builtin lookup of the interpreter (`eval.py`, `global_ctx.py`)

Mirrors the code as it is:
* `GlobalContext.module_import(name, 0)` l.197–221 → `pysCandidates` / `pysLookup` (candidate files in the code's
  order: `apps/…` only for a context inside `apps/`, then `modules/<path>/__init__.py`, `modules/<path>.py`)
* `module_import(name, level > 0)` without a parent package → `ImportError`
* `AstEval.ast_import` l.951–965 → `execImport` (pyscript lookup first; then the allow test on the WHOLE dotted
  name; then `sys.modules` / `importlib`; binding key = dotted name or `asname`; names are processed left to right,
  earlier bindings stay when a later name fails)
* `AstEval.ast_importfrom` l.967–1002 → `execImportFrom` (`from . import x`; the `stubs` / `stubs.*` skip, which
  rejects `as`; the same resolution; `*` binds every name not starting with `_`; otherwise `getattr`)
* `ast_eval_exec_factory` → `Prog.exec` / `run` (a new `AstEval` over the same global context and config entry)
* `AstEval.ast_name` l.1535–1560 (plain names) → `lookupName`.

Module contents are abstract (`ModInfo`: an identity and the keys of `__dict__`).  The allow-list, the exclude set and
the names of pyscript's own `eval`/`exec`/`globals`/`locals` come from `PsModel.Gen`.
-/
namespace PsModel.C17
open PsModel

structure ModInfo where
  id : String                 -- which module object this is
  attrs : List String         -- keys of its `__dict__`, in order
deriving DecidableEq, Repr

/-- everything an import statement can observe of its surroundings -/
structure Env where
  allowAll : Bool                         -- CONF_ALLOW_ALL_IMPORTS of the config entry
  relPath : Option String                 -- `global_ctx.rel_import_path` (`none` for a plain script file)
  files : List (String × ModInfo)         -- files below the pyscript folder that load as modules (path ↦ module)
  host : String → Option ModInfo          -- `sys.modules` / `importlib.import_module`; `none` = ModuleNotFoundError

inductive Err where
  | notAllowed      -- ModuleNotFoundError "import of X not allowed" / "import from X not allowed"
  | notFound        -- ModuleNotFoundError raised by importlib ("No module named …")
  | stubsAs         -- ModuleNotFoundError "… *as y* not supported for stubs"
  | relNoParent     -- ImportError "attempted relative import with no known parent package"
  | relNotFound     -- ModuleNotFoundError "module 'x' not found" (from . import x)
  | attrMissing     -- AttributeError from `getattr(mod, name)`
deriving DecidableEq, Repr

/-- what a name gets bound to -/
inductive Val where
  | mod (m : String)                      -- a module object
  | attr (m : String) (a : String)        -- `getattr(module m, a)`
deriving DecidableEq, Repr

abbrev Bindings := List (String × Val)    -- writes to `self.sym_table`, oldest first

/-- `module_name.replace(".", "/")` -/
def modPath (name : String) : String := String.ofList (name.toList.map (fun c => if c = '.' then '/' else c))

/-- `self.rel_import_path is not None and self.rel_import_path.startswith("apps/")` -/
def Env.inApp (env : Env) : Bool :=
  match env.relPath with
  | some p => p.startsWith "apps/"
  | none => false

/-- candidate files of `module_import(name, 0)` in the order they are tried -/
def pysCandidates (inApp : Bool) (name : String) : List String :=
  (if inApp then ["apps/" ++ modPath name ++ "/__init__.py", "apps/" ++ modPath name ++ ".py"] else []) ++
  ["modules/" ++ modPath name ++ "/__init__.py", "modules/" ++ modPath name ++ ".py"]

def lookupFile (files : List (String × ModInfo)) (p : String) : Option ModInfo :=
  match files with
  | [] => none
  | (q, m) :: rest => if q = p then some m else lookupFile rest p

def firstFile (files : List (String × ModInfo)) : List String → Option ModInfo
  | [] => none
  | p :: ps => match lookupFile files p with
    | some m => some m
    | none => firstFile files ps

/-- `await self.global_ctx.module_import(name, 0)` -/
def pysLookup (env : Env) (name : String) : Option ModInfo := firstFile env.files (pysCandidates env.inApp name)

/-- `module_import(name, 1)`: `none` = ImportError (no parent package), `some none` = no such file -/
def relLookup (env : Env) (name : String) : Option (Option ModInfo) :=
  match env.relPath with
  | none => none
  | some rp => some (firstFile env.files [rp ++ "/" ++ modPath name ++ "/__init__.py", rp ++ "/" ++ modPath name ++ ".py"])

/-- `imp.name not in ALLOWED_IMPORTS` – membership of the whole dotted name -/
def allowListed (name : String) : Bool := Gen.ALLOWED_IMPORTS.contains name

/-- allow test and host import on a bare module name (second half of `resolve`) -/
def hostImport (env : Env) (name : String) : Except Err ModInfo :=
  if !env.allowAll && !allowListed name then .error .notAllowed
  else match env.host name with
    | some m => .ok m
    | none => .error .notFound

/-- pyscript module, else allow test, else the host's import (l.954–964 and l.989–999) -/
def resolve (env : Env) (name : String) : Except Err ModInfo :=
  match pysLookup env name with
  | some m => .ok m
  | none => hostImport env name

structure Alias where
  name : String
  asname : Option String
deriving DecidableEq, Repr

def Alias.key (a : Alias) : String := a.asname.getD a.name

/-- result of a statement: the writes that happened, and the exception if one ended it -/
structure Res where
  binds : Bindings
  err : Option Err
deriving DecidableEq, Repr

/-- `ast_import`: names left to right -/
def execImport (env : Env) : List Alias → Bindings → Res
  | [], σ => { binds := σ, err := none }
  | a :: rest, σ =>
    match resolve env a.name with
    | .error e => { binds := σ, err := some e }
    | .ok m => execImport env rest (σ ++ [(a.key, .mod m.id)])

/-- `arg.module == "stubs" or arg.module.startswith("stubs.")` -/
def isStubs (module : String) : Bool := module == "stubs" || module.startsWith "stubs."

/-- the `for imp in arg.names` loop of a from-import over the resolved module -/
def bindFrom (m : ModInfo) : List Alias → Bindings → Res
  | [], σ => { binds := σ, err := none }
  | a :: rest, σ =>
    if a.name = "*" then
      bindFrom m rest (σ ++ (m.attrs.filter (fun n => n.front != '_')).map (fun n => (n, Val.attr m.id n)))
    else if m.attrs.contains a.name then bindFrom m rest (σ ++ [(a.key, .attr m.id a.name)])
    else { binds := σ, err := some .attrMissing }

/-- `from . import a, b` without a module name: every name is a relative module import -/
def execFromDot (env : Env) : List Alias → Bindings → Res
  | [], σ => { binds := σ, err := none }
  | a :: rest, σ =>
    match relLookup env a.name with
    | none => { binds := σ, err := some .relNoParent }
    | some (some m) => execFromDot env rest (σ ++ [(a.key, .mod m.id)])
    | some none => { binds := σ, err := some .relNotFound }

/-- `ast_importfrom`; `relative` = the statement has leading dots (level 1) -/
def execImportFrom (env : Env) (module : Option String) (relative : Bool) (names : List Alias) (σ : Bindings) : Res :=
  match module with
  | none => execFromDot env names σ
  | some mname =>
    if isStubs mname then
      if names.any (fun a => a.asname.isSome) then { binds := σ, err := some .stubsAs }
      else { binds := σ, err := none }
    else
      let found : Except Err ModInfo :=
        if relative then
          match relLookup env mname with
          | none => .error .relNoParent
          | some (some m) => .ok m
          | some none => hostImport env mname     -- not found relatively: the bare name goes through the allow test
        else resolve env mname
      match found with
      | .error e => { binds := σ, err := some e }
      | .ok m => bindFrom m names σ

inductive Stmt where
  | imp (names : List Alias)
  | impFrom (module : Option String) (relative : Bool) (names : List Alias)
deriving Repr

def execStmt (env : Env) (s : Stmt) (σ : Bindings) : Res :=
  match s with
  | .imp names => execImport env names σ
  | .impFrom m l names => execImportFrom env m l names σ

/-- a statement, possibly wrapped in `exec("…")` any number of times.  `ast_eval_exec_factory` builds a new `AstEval`
over the SAME global context (hence the same pyscript modules, the same config entry) and, at module level, the same
symbol table. -/
inductive Prog where
  | stmt (s : Stmt)
  | exec (p : Prog)
deriving Repr

def run (env : Env) : Prog → Bindings → Res
  | .stmt s, σ => execStmt env s σ
  | .exec p, σ => run env p σ

def Prog.inner : Prog → Stmt
  | .stmt s => s
  | .exec p => p.inner

/-! ## plain-name lookup (`ast_name`, Load context, no dots) -/

structure NameEnv where
  user : String → Bool          -- defined in the symbol tables the lookup goes through first
  hostBuiltin : String → Bool   -- `hasattr(builtins, x)`
  func : String → Bool          -- `Function.get(x)`: registered pyscript function (print, …)

inductive Resolved where
  | user            -- the script's own binding
  | astFactory      -- pyscript's eval / exec / globals / locals
  | host            -- `getattr(builtins, x)`
  | pyscriptFunc    -- `Function.get(x)` (for `print`: the context logger's `debug`)
  | evalName        -- unresolved: `EvalName(x)` (a NameError when used as a value)
deriving DecidableEq, Repr

def lookupName (ne : NameEnv) (x : String) : Resolved :=
  if ne.user x then .user
  else if Gen.BUILTIN_AST_FUNCS.contains x then .astFactory
  else if ne.hostBuiltin x && !Gen.BUILTIN_EXCLUDE.contains x && x.front != '_' then .host
  else if ne.func x then .pyscriptFunc
  else .evalName

/-- `ast_name` for a name the enclosing function declares `global`: only the global symbol table is consulted
(l.~1545 `if self.curr_func and arg.id in self.curr_func.global_names`), never the builtins -/
def lookupGlobalDeclared (ne : NameEnv) (x : String) : Resolved :=
  if ne.user x then .user else .evalName

end PsModel.C17
