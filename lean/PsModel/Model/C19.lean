import PsModel.Gen.Zmtp
/-!
# C19 model – the kernel's minimal ZMTP socket and the shell request step

Mirrors `jupyter_kernel.py`:
* `ZmqSocket.send_multipart` → `encodeMultipart`, `ZmqSocket.send` → `encodeSingle`
* `ZmqSocket.read_bytes` → `readBytes` (a loop of `reader.read(k)` calls, each returning *some* non-empty
  prefix of what TCP delivered – the stream is a list of chunks)
* `ZmqSocket.recv` → `recv` (command frames parsed and skipped, last-frame test `cmd in (0, 2)`)
* `Kernel.deserialize_wire_msg` + `shell_handler` → `shellStep` over an *uninterpreted* `sign`.

Bytes are `Nat`s (`< 256` is a well-formedness hypothesis where needed).  All flag values, thresholds and length
widths come from `PsModel.Gen.Zmtp`, regenerated from the source on every run.
-/
namespace PsModel.C19
open PsModel.Gen

abbrev Bytes := List Nat

/-- `struct.pack(">Q"/">L", n)`: k-byte big endian -/
def be : Nat → Nat → Bytes
  | 0, _ => []
  | k+1, n => (n / 256 ^ k) % 256 :: be k n

/-- `struct.unpack(">Q", bs)[0]` -/
def unbe (bs : Bytes) : Nat := bs.foldl (fun acc b => acc * 256 + b) 0

/-- one part as written by `send_multipart` -/
def encFrame (last : Bool) (p : Bytes) : Bytes :=
  let cmd := if last then flagLast else flagMore
  if p.length ≤ sendMultipartShortMax then [cmd, p.length] ++ p
  else [cmd + flagLongInc] ++ be sendLongLenBytes p.length ++ p

/-- `send_multipart(parts)` -/
def encodeMultipart : List Bytes → Bytes
  | [] => []
  | [p] => encFrame true p
  | p :: q :: rest => encFrame false p ++ encodeMultipart (q :: rest)

/-- `send(msg)`: an empty MORE frame, then the message as last frame -/
def encodeSingle (m : Bytes) : Bytes :=
  if m.length ≤ sendShortMax then [1, 0, 0, m.length] ++ m
  else [1, 0, 2] ++ be 8 m.length ++ m

/-! ## the receive side over a fragmented stream -/

/-- `await reader.read(k)` for k > 0: whatever is buffered, at most k bytes; `none` = EOF.
Empty chunks never surface (asyncio ignores `feed_data(b"")`). -/
def readChunk (k : Nat) : List Bytes → Option (Bytes × List Bytes)
  | [] => none
  | c :: cs =>
    if c.length = 0 then readChunk k cs
    else if c.length ≤ k then some (c, cs)
    else some (c.take k, c.drop k :: cs)

/-- `read_bytes(n)`: `while len(data) < n: data += read(n - len(data))` – fuel bounds the number of reads -/
def readLoop : Nat → Nat → Bytes → List Bytes → Option (Bytes × List Bytes)
  | fuel, n, acc, cs =>
    if n ≤ acc.length then some (acc, cs)
    else match fuel with
      | 0 => none
      | f+1 => match readChunk (n - acc.length) cs with
        | none => none                                   -- EOFError
        | some (d, cs') => readLoop f n (acc ++ d) cs'

def readBytes (n : Nat) (cs : List Bytes) : Option (Bytes × List Bytes) := readLoop n n [] cs

/-- parameter loop of a command frame: `False` when `unpack(">L", msg_body[0:4])` would raise -/
def cmdParamsOk : Nat → Bytes → Bool
  | 0, b => b.isEmpty
  | f+1, b =>
    match b with
    | [] => true
    | plen :: r =>
      let r1 := r.drop plen
      if r1.length < 4 then false
      else cmdParamsOk f ((r1.drop 4).drop (unbe (r1.take 4)))

/-- body of a command frame: `cmd_len = msg_body[0]` raises IndexError on an empty body -/
def cmdOk (body : Bytes) : Bool :=
  match body with
  | [] => false
  | clen :: r => cmdParamsOk body.length (r.drop clen)

inductive RecvErr | eof | badCommand
deriving Repr, DecidableEq

/-- `recv(multipart=True)`; fuel bounds the number of frames read -/
def recvLoop : Nat → List Bytes → List Bytes → Except RecvErr (List Bytes × List Bytes)
  | 0, _, _ => .error .eof
  | fuel+1, parts, cs =>
    match readBytes 1 cs with
    | none => .error .eof
    | some (c, cs1) =>
      let cmd := c.headD 0
      let lenRead := if cmd / recvLongMask % 2 = 1 then readBytes recvLongLenBytes cs1 else readBytes 1 cs1
      match lenRead with
      | none => .error .eof
      | some (lb, cs2) =>
        match readBytes (unbe lb) cs2 with
        | none => .error .eof
        | some (body, cs3) =>
          if cmd / recvCmdMask % 2 = 1 then
            if cmdOk body then recvLoop fuel parts cs3 else .error .badCommand
          else
            let parts' := parts ++ [body]
            if recvLastFlags.contains cmd then .ok (parts', cs3) else recvLoop fuel parts' cs3

def totalLen (cs : List Bytes) : Nat := (cs.map List.length).sum

/-- every frame consumes at least two bytes, so this fuel is always enough -/
def recvMultipart (cs : List Bytes) : Except RecvErr (List Bytes × List Bytes) := recvLoop (totalLen cs + 1) [] cs

/-- `recv()` (heartbeat): joined parts -/
def recvSingle (cs : List Bytes) : Except RecvErr (Bytes × List Bytes) :=
  match recvMultipart cs with
  | .ok (ps, r) => .ok (ps.flatten, r)
  | .error e => .error e

/-! ## shell request step (decision logic over an uninterpreted MAC) -/

inductive MsgType | execute | kernelInfo | complete | isComplete | commInfo | history | comm | unknown
deriving Repr, DecidableEq

/-- a request after framing: identities, the signature frame, the four JSON frames, and what the JSON says -/
structure Request where
  idents : List Bytes
  sig : Bytes
  frames : List Bytes          -- header, parent_header, metadata, content (as received)
  header : Nat                 -- abstract id of the decoded header
  mtype : MsgType
  storeHistory : Bool
  cell : Nat                   -- abstract id of the code cell (execute)
deriving Repr

inductive CellResult | value (v : Nat) | none | error (e : Nat)
deriving Repr, DecidableEq

/-- one message emitted by `Kernel.send` -/
structure Out where
  stream : String              -- "shell" | "iopub"
  idents : List Bytes
  msgType : String
  parent : Nat
  count : Option Nat           -- execution_count field when present
  payload : Option Nat         -- result / error id when present
  signedWithKey : Bool := true
deriving Repr, DecidableEq

structure KState where
  count : Nat := 1
  parentHeader : Option Nat := none
  executed : List Nat := []    -- cells run, in order
deriving Repr, DecidableEq

def iopub (r : Request) (ty : String) (count : Option Nat := none) (payload : Option Nat := none) : Out :=
  { stream := "iopub", idents := [], msgType := ty, parent := r.header, count := count, payload := payload }
def reply (r : Request) (ty : String) (count : Option Nat := none) (payload : Option Nat := none) : Out :=
  { stream := "shell", idents := r.idents, msgType := ty, parent := r.header, count := count, payload := payload }

def bump (s : KState) (r : Request) : Nat := if r.storeHistory then s.count + 1 else s.count

/-- `shell_handler` once the signature check has passed; `run` is the interpreter on the session context -/
def handleValid (run : Nat → CellResult) (s : KState) (r : Request) : KState × List Out :=
  let s1 := { s with parentHeader := some r.header }
  let busy := iopub r "status:busy"
  let idle := iopub r "status:idle"
  match r.mtype with
  | .execute =>
    let s2 := { s1 with executed := s1.executed ++ [r.cell], count := bump s1 r }
    let inp := iopub r "execute_input" (some s.count)
    match run r.cell with
    | .error e =>
      (s2, [busy, inp, reply r "execute_reply:error" (some s.count) (some e), iopub r "error" none (some e), idle])
    | .value v =>
      (s2, [busy, inp, iopub r "execute_result" (some s.count) (some v), reply r "execute_reply:ok" (some s.count), idle])
    | .none =>
      (s2, [busy, inp, reply r "execute_reply:ok" (some s.count), idle])
  | .kernelInfo => (s1, [busy, reply r "kernel_info_reply", idle])
  | .complete => (s1, [busy, reply r "complete_reply", idle])
  | .isComplete => (s1, [busy, reply r "is_complete_reply", idle])
  | .commInfo => (s1, [busy, reply r "comm_info_reply", idle])
  | .history => (s1, [busy, reply r "history_reply", idle])
  | .comm => (s1, [busy, idle])
  | .unknown => (s1, [busy, idle])

inductive StepResult
  | handled (s : KState) (outs : List Out)
  | rejected                      -- ValueError("Signatures do not match"): listener logs, shuts the session down
deriving Repr

/-- `deserialize_wire_msg` + `shell_handler` -/
def shellStep (sign : List Bytes → Bytes) (run : Nat → CellResult) (s : KState) (r : Request) : StepResult :=
  if sign r.frames = r.sig then
    let (s', outs) := handleValid run s r
    .handled s' outs
  else .rejected

/-- split a received multipart message at DELIM (`wire_msg.index(DELIM)`) -/
def splitWire : List Bytes → Option (List Bytes × Bytes × List Bytes)
  | [] => none
  | f :: rest =>
    if f = DELIM then
      match rest with
      | sig :: frames => some ([], sig, frames)
      | [] => none
    else match splitWire rest with
      | some (ids, sig, frames) => some (f :: ids, sig, frames)
      | none => none

end PsModel.C19
