import PsModel.Gen.StateTbl
/-!
# C16 model – state variables: `state.py` entry points and the dotted-name routing of `eval.py`

Mirrors, as the code is today:
* Home Assistant's state machine `hass.states` as an insertion-ordered dictionary `Store` (`async_set`, `async_remove`,
  `get`, `async_entity_ids`) whose records hold the string value and the attribute dictionary;
* `StateVal.__new__` → `mkSnap` (a `str` whose `__dict__` is a *copy* of the attributes, then the fields listed in
  `Gen.STATEVAL_NEW_FIELDS` are written over it);
* `State.set` → `setCore` (the variables `value`, `new_attributes`, `state_value` of the function, in its order),
  `State.setattr` → `stateSetattr` (`cls.set(name, **{attr: value})` – python keyword binding included),
  `State.delete`, `State.get`, `State.exist`, `State.getattr`, `State.names`;
* `AstEval.ast_name` (Load) → `astNameLoad` walks `Gen.NAME_LOOKUP_ORDER`; `ast_attribute_collapse` / `ast_attribute`
  → `evalRev` / `loadDotted`; `recurse_assign` dot-count routing → `storeDotted`; `ast_delete` → `delDotted`.

A dotted name is its list of parts (string splitting itself is covered by the correspondence runs only).
Values are opaque python objects: `canon` identifies the object, `str` is python's `str(v)` (what HA stores as a state).
-/
namespace PsModel.C16
open PsModel.Gen

/-! ## python dictionaries as association lists -/

section assoc
variable {κ : Type} {α : Type} [DecidableEq κ]

/-- `d.get(k)` -/
def aget (k : κ) : List (κ × α) → Option α
  | [] => none
  | p :: r => if p.1 = k then some p.2 else aget k r

/-- `d[k] = v` (replace in place, else append) -/
def aset (k : κ) (v : α) : List (κ × α) → List (κ × α)
  | [] => [(k, v)]
  | p :: r => if p.1 = k then (k, v) :: r else p :: aset k v r

/-- `d.pop(k, None)` / `del d[k]` -/
def adel (k : κ) (d : List (κ × α)) : List (κ × α) := d.filter (fun p => !decide (p.1 = k))

end assoc

structure Val where
  canon : String
  str : String
deriving DecidableEq, Repr, Inhabited

/-- python `None` -/
def Val.none : Val := ⟨"null", "None"⟩
def Val.isNone (v : Val) : Bool := v.canon == "null"

abbrev Attrs := List (String × Val)
abbrev Ent := String × String          -- (domain, object id)

/-- `d.update(kw)` -/
def dupdate (d kw : Attrs) : Attrs := kw.foldl (fun acc p => aset p.1 p.2 acc) d
/-- `for k in ks: d.pop(k, None)` -/
def dpopAll (ks : List String) (d : Attrs) : Attrs := ks.foldl (fun acc k => adel k acc) d

structure Rec where
  value : String
  attrs : Attrs
deriving DecidableEq, Repr

abbrev Store := List (Ent × Rec)

/-- a `StateVal`: the string and its instance `__dict__` -/
structure Snap where
  value : String
  dict : Attrs
deriving DecidableEq, Repr

/-- value of a virtual field: the entity id, or a time stamp (opaque) -/
def virtVal (e : Ent) (f : String) : Val :=
  if f = "entity_id" then ⟨"\"" ++ e.1 ++ "." ++ e.2 ++ "\"", e.1 ++ "." ++ e.2⟩ else ⟨"<time>", "<time>"⟩

/-- `StateVal(state)`: `__dict__ = attributes.copy()`, then `new_var.f = state.f` for the listed fields -/
def mkSnap (e : Ent) (r : Rec) : Snap :=
  ⟨r.value, STATEVAL_NEW_FIELDS.foldl (fun d f => aset f (virtVal e f) d) r.attrs⟩

/-- `attrs = sv.__dict__.copy(); for discard in STATE_VIRTUAL_ATTRS: attrs.pop(discard, None)` -/
def snapAttrs (s : Snap) : Attrs := dpopAll STATE_VIRTUAL_ATTRS s.dict

/-- the `value` argument of `State.set` -/
inductive Arg
  | none                     -- `None` (= omitted)
  | plain (v : Val)
  | sv (s : Snap)            -- a `StateVal`
deriving DecidableEq, Repr

/-- repairs of `state.py` / `eval.py` that the model follows (deviation switches).  `current` is read off the working
tree by the extractor on every run; `preFix` is the code as it was before the `fix:` commits (findings C16-F1/F3/F4). -/
structure Fixes where
  assignNone : Bool      -- `recurse_assign`: `State.set(name, "None" if val is None else val)` instead of `State.set(name, val)`
  setattrDict : Bool     -- `State.setattr`: explicit attribute dictionary instead of `cls.set(name, **{attr: value})`
  delPyAttr : Bool       -- `ast_delete`: `delattr(obj, attr)` when the head is a Python object (collapse checks the head)
deriving DecidableEq, Repr

def Fixes.current : Fixes := ⟨ASSIGN_NONE_AS_STRING, SETATTR_EXPLICIT_DICT, DELETE_CHECKS_HEAD && DELETE_DELATTR⟩
def Fixes.preFix : Fixes := ⟨false, false, false⟩

/-! ## `State.set` -/

/-- `if isinstance(value, StateVal) and new_attributes is None: new_attributes = value.__dict__ minus virtual` -/
def svAttrs (value : Arg) (newAttrs : Option Attrs) : Option Attrs :=
  match value, newAttrs with
  | .sv s, Option.none => some (snapAttrs s)
  | _, na => na

/-- `value = str(value)` for a StateVal; a plain value is passed on (HA applies `str`); `None` stays `None` -/
def argStr? : Arg → Option String
  | .none => Option.none
  | .plain v => some v.str
  | .sv s => some s.value

/-- `state_value = hass.states.get(var_name)` – only fetched `if value is None or new_attributes is None` -/
def fetchOld (st : Store) (e : Ent) (value : Option String) (na : Option Attrs) : Option Rec :=
  if value.isNone || na.isNone then aget e st else Option.none

/-- `if value is None and state_value: value = state_value.state`; a remaining `None` is stringified by `async_set` -/
def keepValue (value : Option String) (old : Option Rec) : String :=
  match value, old with
  | some v, _ => v
  | Option.none, some r => r.value
  | Option.none, Option.none => "None"

/-- `if new_attributes is None: new_attributes = state_value.attributes.copy() if state_value else {}` -/
def keepAttrs (na : Option Attrs) (old : Option Rec) : Attrs :=
  match na, old with
  | some a, _ => a
  | Option.none, some r => r.attrs
  | Option.none, Option.none => []

/-- `if kwargs: new_attributes = new_attributes.copy(); new_attributes.update(kwargs)` -/
def mergeKw (a kw : Attrs) : Attrs := if kw.isEmpty then a else dupdate a kw

/-- body of `State.set` after the name check, ending in `hass.states.async_set(var_name, value, new_attributes)` -/
def setCore (st : Store) (e : Ent) (value : Arg) (newAttrs : Option Attrs) (kwargs : Attrs) : Store :=
  aset e ⟨keepValue (argStr? value) (fetchOld st e (argStr? value) (svAttrs value newAttrs)),
          mergeKw (keepAttrs (svAttrs value newAttrs) (fetchOld st e (argStr? value) (svAttrs value newAttrs))) kwargs⟩ st

inductive Out
  | sv (s : Snap)            -- a StateVal
  | attr (v : Val)           -- an attribute value / virtual field
  | callable                 -- a service-call closure or a helper method of StateVal
  | py (src : String)        -- ordinary Python attribute access on an object found in table `src`
  | bool (b : Bool)
  | names (es : List Ent)
  | attrs (a : Option Attrs)
  | unit
  | exc (cls : String)
  | evalName                 -- an unresolved bare name (`EvalName`)
  | unmodelled
deriving DecidableEq, Repr

/-- `State.set(var_name, value, new_attributes, **kwargs)` -/
def stateSet (st : Store) (parts : List String) (value : Arg) (na : Option Attrs) (kw : Attrs) : Store × Out :=
  match parts with
  | [d, n] => (setCore st (d, n) value na kw, .unit)
  | _ => (st, .exc "NameError")                       -- `var_name.count(".") != 1`

/-- runtime description of the interpreter at the point of evaluation (parameters of `ast_name`) -/
structure Env where
  globalDecl : List (List String) := []    -- `curr_func.global_names`
  sym : List (List String) := []           -- `self.sym_table`: local variables of the running function
  localSym : List (List String) := []      -- `self.local_sym_table`: per-context functions (`log.info`, `task.unique`, …)
  globalSym : List (List String) := []     -- `self.global_sym_table`
  localNames : List (List String) := []    -- `curr_func.local_names`
  builtinAst : List (List String) := []    -- `BUILTIN_AST_FUNCS_FACTORY`
  builtins : List (List String) := []      -- visible python builtins
  functions : List (List String) := []     -- `Function.functions`
  services : List Ent := []                -- `hass.services.has_service`
  svcMethods : List (String × String) := []  -- `State.service2args[domain]` has `service` (entity_id parameter)
deriving Repr

def Env.svcMethod (env : Env) (d a : String) : Bool := env.svcMethods.contains (d, a)

/-! ## `State.exist`, `State.get`, `State.getattr`, `State.names`, `State.delete`, `State.setattr` -/

def stateExist (env : Env) (st : Store) (parts : List String) : Bool :=
  match parts with
  | [d, n] => (aget (d, n) st).isSome
  | [d, n, a] =>
    match aget (d, n) st with
    | Option.none => false
    | some r => env.svcMethod d a || (aget a r.attrs).isSome || STATE_VIRTUAL_ATTRS.contains a
                  || STATE_CALLABLE_ATTRS.contains a
  | _ => false

/-- the public attributes of python's `str` (a `StateVal` is a `str`): `[a for a in dir(str) if a[0] != '_']` -/
def STR_ATTRS : List String :=
  ["capitalize", "casefold", "center", "count", "encode", "endswith", "expandtabs", "find", "format", "format_map", "index", "isalnum", "isalpha", "isascii", "isdecimal", "isdigit", "isidentifier", "islower", "isnumeric", "isprintable", "isspace", "istitle", "isupper", "join", "ljust", "lower", "lstrip", "maketrans", "partition", "removeprefix", "removesuffix", "replace", "rfind", "rindex", "rjust", "rpartition", "rsplit", "rstrip", "split", "splitlines", "startswith", "strip", "swapcase", "title", "translate", "upper", "zfill"]

/-- names that `getattr` finds on the class when the instance dictionary has no such key: the helper methods of
`StateVal` and the methods of `str` -/
def methodAttr (a : String) : Bool := STATE_CALLABLE_ATTRS.contains a || STR_ATTRS.contains a

/-- `getattr(state_val, a)`: instance dict first, then the methods of the class -/
def snapGetattr (s : Snap) (a : String) : Out :=
  match aget a s.dict with
  | some v => .attr v
  | Option.none => if methodAttr a then .callable else .exc "AttributeError"

def stateGet (env : Env) (st : Store) (parts : List String) : Out :=
  match parts with
  | [d, n] =>
    match aget (d, n) st with
    | Option.none => .exc "NameError"
    | some r => .sv (mkSnap (d, n) r)
  | [d, n, a] =>
    match aget (d, n) st with
    | Option.none => .exc "NameError"
    | some r => if env.svcMethod d a then .callable else snapGetattr (mkSnap (d, n) r) a
  | _ => .exc "NameError"

def stateGetattr (st : Store) (parts : List String) : Out :=
  match parts with
  | [d, n] =>
    match aget (d, n) st with
    | Option.none => .attrs Option.none
    | some r => .attrs (some r.attrs)
  | _ => .exc "NameError"

/-- `hass.states.async_entity_ids(domain)` -/
def stateNames (st : Store) (dom : Option String) : List Ent :=
  (st.map (·.1)).filter (fun e => match dom with | Option.none => true | some d => e.1 == d)

def stateDelete (st : Store) (parts : List String) : Store × Out :=
  match parts with
  | [d, n] =>
    match aget (d, n) st with                                   -- `async_remove` returns False when absent
    | Option.none => (st, .exc "NameError")
    | some _ => (adel (d, n) st, .unit)
  | [d, n, a] =>
    match aget (d, n) st with
    | Option.none => (st, .exc "NameError")
    | some r =>
      match aget a r.attrs with
      | Option.none => (st, .exc "AttributeError")
      | some _ => (setCore st (d, n) (.plain ⟨r.value, r.value⟩) (some (adel a r.attrs)) [], .unit)
  | _ => (st, .exc "NameError")

def Val.toArg (v : Val) : Arg := if v.isNone then .none else .plain v

/-- `State.setattr(name, value)`.
After the fix: `attributes = hass.states.get(name).attributes.copy(); attributes[attr] = value;
cls.set(name, new_attributes=attributes)`.
Before: `cls.set(f"{d}.{n}", **{attr: value})` – a keyword named like a positional parameter of `State.set` binds
*that parameter* (or collides with an already bound one). -/
def stateSetattr (fx : Fixes) (_env : Env) (st : Store) (parts : List String) (v : Val) : Store × Out :=
  match parts with
  | [d, n, a] =>
    match aget (d, n) st with
    | Option.none => (st, .exc "NameError")                   -- `if not cls.exist(f"{d}.{n}")`
    | some r =>
      if fx.setattrDict then (setCore st (d, n) .none (some (aset a v r.attrs)) [], .unit)
      else if !STATE_SET_PARAMS.contains a then (setCore st (d, n) .none Option.none [(a, v)], .unit)
      else if a = "value" then (setCore st (d, n) v.toArg Option.none [], .unit)
      else if a = "new_attributes" then (st, .unmodelled)     -- binds `new_attributes` to an arbitrary object
      else (st, .exc "TypeError")                             -- `cls`, `var_name`: multiple values for argument
  | _ => (st, .exc "NameError")

/-! ## name resolution (`ast_name`, Load context) -/

def lookupStep (env : Env) (st : Store) (id : List String) (tag : String) : Option Out :=
  if tag = "global_decl" then
    (if env.globalDecl.contains id then
      (if env.globalSym.contains id then some (.py "global") else some (.exc "NameError")) else Option.none)
  else if tag = "sym_table" then (if env.sym.contains id then some (.py "local") else Option.none)
  else if tag = "local_sym_table" then (if env.localSym.contains id then some (.py "astfunc") else Option.none)
  else if tag = "global_sym_table" then
    (if env.globalSym.contains id then
      (if env.localNames.contains id then some (.exc "UnboundLocalError") else some (.py "global")) else Option.none)
  else if tag = "builtin_ast" then (if env.builtinAst.contains id then some (.py "builtin") else Option.none)
  else if tag = "builtins" then (if env.builtins.contains id then some (.py "builtin") else Option.none)
  else if tag = "function" then
    (if env.functions.contains id then some .callable
     else match id with
       | [d, n] => if env.services.contains (d, n) then some .callable else Option.none
       | _ => Option.none)
  else if tag = "state" then
    (if id.length = 2 || (id.length = 3 && stateExist env st id) then some (stateGet env st id) else Option.none)
  else Option.none

def firstHit (env : Env) (st : Store) (id : List String) : List String → Out
  | [] => .evalName
  | t :: ts => match lookupStep env st id t with
    | some o => o
    | Option.none => firstHit env st id ts

def astNameLoad (env : Env) (st : Store) (id : List String) : Out := firstHit env st id NAME_LOOKUP_ORDER

/-- `isinstance(await self.ast_name(Name(head)), EvalName)` is false -/
def headDefined (env : Env) (st : Store) (h : String) : Bool := astNameLoad env st [h] != .evalName

/-- python `getattr(val, a)` on an intermediate result -/
def getattrOut (val : Out) (a : String) : Out :=
  match val with
  | .evalName => .exc "NameError"                 -- `EvalName.__getattr__`
  | .sv s => snapGetattr s a
  | .exc c => .exc c
  | .py src => .py src
  | .callable => .exc "AttributeError"          -- a service-call closure has no such attribute
  | .attr _ => .py "attr"
  | _ => .unmodelled

/-- `ast_attribute` (Load) on the reversed part list `a :: rest`; a single part is `ast_name` -/
def evalRev (env : Env) (st : Store) : List String → Out
  | [] => .unmodelled
  | [h] => astNameLoad env st [h]
  | a :: rest =>
    let full := (a :: rest).reverse
    let direct := if headDefined env st (full.headD "") then Out.evalName else astNameLoad env st full
    if direct != .evalName then direct else getattrOut (evalRev env st rest) a

/-- expression `p0.p1…` in Load context -/
def loadDotted (env : Env) (st : Store) (parts : List String) : Out := evalRev env st parts.reverse

inductive ArgRef
  | none | plain (v : Val) | snap (i : Nat)
deriving DecidableEq, Repr

/-- a `StateVal` used as an ordinary value: a `str` (its JSON rendering is the quoted string; state strings contain
no `"` or `\\` here) -/
def svVal (s : Snap) : Val := ⟨"\"" ++ s.value ++ "\"", s.value⟩

/-- the string `"None"` as an assigned value -/
def noneStr : Val := ⟨"\"None\"", "None"⟩

/-- assignment `p0.p1… = v` (`ast_attribute` in Store context, then `recurse_assign`) -/
def storeDotted (fx : Fixes) (env : Env) (st : Store) (parts : List String) (v : Arg) : Store × Out :=
  match parts with
  | [] => (st, .unmodelled)
  | [_] => (st, .unmodelled)
  | h :: _ =>
    if headDefined env st h then (st, .py "setattr")          -- `EvalAttrSet(obj, attr).setattr(val)`
    else if parts.length - 1 = ASSIGN_DOTS_SET then
      -- `State.set(var_name, "None" if val is None else val)` after the fix, `State.set(var_name, val)` before
      stateSet st parts (if fx.assignNone && v == .none then .plain noneStr else v) Option.none []
    else if parts.length - 1 = ASSIGN_DOTS_SETATTR then
      match v with
      | .none => stateSetattr fx env st parts Val.none
      | .plain x => stateSetattr fx env st parts x
      | .sv s => stateSetattr fx env st parts (svVal s)       -- the StateVal object itself becomes the attribute value
    else (st, .exc "NameError")

/-- `del p0.p1…` (`ast_delete`, Attribute branch).  After the fix `ast_attribute_collapse(arg1)` checks the head: a Python
object gets `delattr(obj, attr)`, only an unbound head makes a state name for `State.delete`.  Before the fix the head
was not checked (`check_undef=False`) and every dotted name went to `State.delete`. -/
def delDotted (fx : Fixes) (env : Env) (st : Store) (parts : List String) : Store × Out :=
  match parts with
  | [] => (st, .unmodelled)
  | [_] => (st, .unmodelled)
  | h :: _ =>
    if fx.delPyAttr && headDefined env st h then (st, .py "delattr")
    else stateDelete st parts

/-- `d.n += "sfx"` (`ast_augassign`): a Python object's attribute when the head is bound; otherwise the target is
loaded (`NameError` for a missing entity), the in-place operator is applied – a `StateVal` is a `str`, so the result is
a plain string – and the result is assigned (`recurse_assign`). -/
def augDotted (fx : Fixes) (env : Env) (st : Store) (parts : List String) (sfx : String) : Store × Out :=
  match parts with
  | [d, n] =>
    if headDefined env st d then (st, .py "aug")
    else match loadDotted env st [d, n] with
      | .sv s => storeDotted fx env st [d, n] (.plain ⟨"\"" ++ s.value ++ sfx ++ "\"", s.value ++ sfx⟩)
      | .exc c => (st, .exc c)
      | .callable => (st, .exc "TypeError")                 -- a service-call closure `+= str`
      | _ => (st, .unmodelled)
  | _ => (st, .unmodelled)

/-! ## operations issued by a script (and by the outside world) -/

inductive Op
  | load (parts : List String)                       -- expression `d.n` / `d.n.a`
  | store (parts : List String) (v : ArgRef)         -- `d.n = v` / `d.n.a = v`
  | delStmt (parts : List String)                    -- `del d.n` / `del d.n.a`
  | aug (parts : List String) (sfx : String)         -- `d.n += "sfx"`
  | get (parts : List String)                        -- `state.get("…")`
  | set (parts : List String) (v : ArgRef) (na : Option Attrs) (kw : Attrs)   -- `state.set("…", v, na, **kw)`
  | setattr (parts : List String) (v : Val)          -- `state.setattr("…", v)`
  | delete (parts : List String)                     -- `state.delete("…")`
  | exist (parts : List String)                      -- `state.exist("…")`
  | getattr (parts : List String)                    -- `state.getattr("…")`
  | getattrSnap (i : Nat)                            -- `state.getattr(captured[i])`
  | names (dom : Option String)                      -- `state.names(dom)`
  | peek (i : Nat)                                   -- look at the captured snapshot `i` again
  | extSet (e : Ent) (value : String) (attrs : Attrs)   -- `hass.states.async_set` by somebody else
  | extRemove (e : Ent)                                 -- `hass.states.async_remove` by somebody else
deriving Repr

structure MState where
  store : Store
  snaps : List Snap            -- StateVals captured into script variables, in capture order
deriving Repr

def resolveArg (snaps : List Snap) : ArgRef → Option Arg
  | .none => some .none
  | .plain v => some (.plain v)
  | .snap i => (snaps[i]?).map Arg.sv

/-- a StateVal result is kept by the script -/
def capture (ms : MState) (o : Out) : MState :=
  match o with
  | .sv s => { ms with snaps := ms.snaps ++ [s] }
  | _ => ms

def withStore (ms : MState) (r : Store × Out) : MState × Out := ({ ms with store := r.1 }, r.2)

def step (fx : Fixes) (env : Env) (ms : MState) : Op → MState × Out
  | .load parts => (capture ms (loadDotted env ms.store parts), loadDotted env ms.store parts)
  | .store parts v =>
    match resolveArg ms.snaps v with
    | some a => withStore ms (storeDotted fx env ms.store parts a)
    | Option.none => (ms, .unmodelled)
  | .delStmt parts => withStore ms (delDotted fx env ms.store parts)
  | .aug parts sfx => withStore ms (augDotted fx env ms.store parts sfx)
  | .get parts => (capture ms (stateGet env ms.store parts), stateGet env ms.store parts)
  | .set parts v na kw =>
    match resolveArg ms.snaps v with
    | some a => withStore ms (stateSet ms.store parts a na kw)
    | Option.none => (ms, .unmodelled)
  | .setattr parts v => withStore ms (stateSetattr fx env ms.store parts v)
  | .delete parts => withStore ms (stateDelete ms.store parts)
  | .exist parts => (ms, .bool (stateExist env ms.store parts))
  | .getattr parts => (ms, stateGetattr ms.store parts)
  | .getattrSnap i =>
    match ms.snaps[i]? with
    | some s => (ms, .attrs (some (snapAttrs s)))
    | Option.none => (ms, .unmodelled)
  | .names dom => (ms, .names (stateNames ms.store dom))
  | .peek i =>
    match ms.snaps[i]? with
    | some s => (ms, .sv s)
    | Option.none => (ms, .unmodelled)
  | .extSet e value attrs => ({ ms with store := aset e ⟨value, attrs⟩ ms.store }, .unit)
  | .extRemove e => ({ ms with store := adel e ms.store }, .unit)

/-- run an operation sequence, collecting the outputs -/
def run (fx : Fixes) (env : Env) : MState → List Op → MState × List Out
  | ms, [] => (ms, [])
  | ms, op :: ops =>
    ((run fx env (step fx env ms op).1 ops).1, (step fx env ms op).2 :: (run fx env (step fx env ms op).1 ops).2)

end PsModel.C16
