import PsModel.Gen.KernelTbl
/-!
# C19 model (d) – reply correlation under interleaved shell connections

`Kernel.shell_listen` runs one task per TCP connection; each request is handled by its own activation of
`shell_handler`, which first stores `self.parent_header = msg["header"]` (a field SHARED by all activations, used for
stdout forwarding) and then sends its broadcasts and its reply, suspending between sends (every `send` awaits, an
`execute_request` awaits the cell).  A schedule is any order in which the activations take their steps.

`explicitParent = true`: every send passes `parent_header=msg["header"]`, the activation's own local (the code as it is,
`Gen.SHELL_SENDS_EXPLICIT_PARENT`).  `false`: sends fall back to the shared field.
-/
namespace PsModel.C19

structure Activation where
  id : Nat          -- msg_id of the request this activation handles
  sends : Nat       -- how many messages it sends in total
  pc : Nat := 0     -- 0: has not stored the shared field yet; k+1: k messages sent
deriving Repr, DecidableEq

structure SchedState where
  shared : Nat := 0                       -- self.parent_header
  out : List (Nat × Nat) := []            -- (id of the activation that sent it, parent tag it carries)
  acts : List Activation := []
deriving Repr, DecidableEq

def stepAct (explicitParent : Bool) (shared : Nat) (a : Activation) : Activation × Nat × List (Nat × Nat) :=
  if a.pc = 0 then ({ a with pc := 1 }, a.id, [])
  else if a.pc ≤ a.sends then ({ a with pc := a.pc + 1 }, shared, [(a.id, if explicitParent then a.id else shared)])
  else (a, shared, [])

/-- the scheduler lets activation number `i` take its next step -/
def step (explicitParent : Bool) (s : SchedState) (i : Nat) : SchedState :=
  match s.acts[i]? with
  | none => s
  | some a =>
    let (a', sh, msgs) := stepAct explicitParent s.shared a
    { shared := sh, out := s.out ++ msgs, acts := s.acts.set i a' }

def run (explicitParent : Bool) (s : SchedState) (sched : List Nat) : SchedState := sched.foldl (step explicitParent) s

namespace Current
def explicitParent : Bool := Gen.SHELL_SENDS_EXPLICIT_PARENT
end Current

end PsModel.C19
