import PsModel.Gen.KernelTbl
import PsModel.Model.C19
/-!
# C19 model (d) – reply correlation under interleaved shell connections

`Kernel.shell_listen` runs one task per TCP connection; each request is handled by its own activation of
`shell_handler`, which first stores `self.parent_header = msg["header"]` (a field SHARED by all activations, used for
stdout forwarding) and then sends its broadcasts and its reply, suspending between sends (every `send` awaits, an
`execute_request` awaits the cell).  A schedule is any order in which the activations take their steps.

`explicitParent = true`: every send passes `parent_header=msg["header"]`, the activation's own local (the code as it is,
`Gen.SHELL_SENDS_EXPLICIT_PARENT`).  `false`: sends fall back to the shared field.
-/
namespace PsModel.C19

structure Activation where
  id : Nat          -- msg_id of the request this activation handles
  sends : Nat       -- how many messages it sends in total
  pc : Nat := 0     -- 0: has not stored the shared field yet; k+1: k messages sent
deriving Repr, DecidableEq

structure SchedState where
  shared : Nat := 0                       -- self.parent_header
  out : List (Nat × Nat) := []            -- (id of the activation that sent it, parent tag it carries)
  acts : List Activation := []
deriving Repr, DecidableEq

def stepAct (explicitParent : Bool) (shared : Nat) (a : Activation) : Activation × Nat × List (Nat × Nat) :=
  if a.pc = 0 then ({ a with pc := 1 }, a.id, [])
  else if a.pc ≤ a.sends then ({ a with pc := a.pc + 1 }, shared, [(a.id, if explicitParent then a.id else shared)])
  else (a, shared, [])

/-- the scheduler lets activation number `i` take its next step -/
def step (explicitParent : Bool) (s : SchedState) (i : Nat) : SchedState :=
  match s.acts[i]? with
  | none => s
  | some a =>
    let (a', sh, msgs) := stepAct explicitParent s.shared a
    { shared := sh, out := s.out ++ msgs, acts := s.acts.set i a' }

def run (explicitParent : Bool) (s : SchedState) (sched : List Nat) : SchedState := sched.foldl (step explicitParent) s

/-! ## several tasks sending on one socket

A write is atomic with respect to the event loop; between two writes (`await … drain()`) other tasks run.
`oneWrite = true`: `send_multipart` builds the whole message and writes it once (the code as it is,
`Gen.SEND_MULTIPART_ONE_WRITE`); `false`: one write per frame. -/

def frameWrites : List Bytes → List Bytes
  | [] => []
  | [p] => [encFrame true p]
  | p :: q :: rest => encFrame false p :: frameWrites (q :: rest)

def senderWrites (oneWrite : Bool) (ps : List Bytes) : List Bytes :=
  if oneWrite then [encodeMultipart ps] else frameWrites ps

/-- the bytes on the wire when the scheduler picks, step by step, which sender performs its next write -/
def wire (pending : List (List Bytes)) : List Nat → Bytes
  | [] => []
  | i :: sched =>
    match pending[i]? with
    | some (w :: ws) => w ++ wire (pending.set i ws) sched
    | _ => wire pending sched

/-- read `n` messages off a stream -/
def recvN : Nat → List Bytes → Except RecvErr (List (List Bytes) × Bytes)
  | 0, cs => .ok ([], cs.flatten)
  | n + 1, cs =>
    match recvMultipart cs with
    | .ok (ps, cs1) => (match recvN n cs1 with | .ok (ms, r) => .ok (ps :: ms, r) | .error e => .error e)
    | .error e => .error e

namespace Current
def explicitParent : Bool := Gen.SHELL_SENDS_EXPLICIT_PARENT
def oneWrite : Bool := Gen.SEND_MULTIPART_ONE_WRITE
end Current

end PsModel.C19
