/-!
# C18 model – traceback reconstruction and error containment

Mirrors (names of the Python code in brackets):

* `Frame`        – one entry of the Python traceback of the *interpreter* as `EvalExceptionFormatter._build_stack`
                   classifies it: an `EvalFunc.call` frame (its `self` is the script function), an
                   `AstEval.call_func` frame (local `func_name`), an `AstEval.aeval` / `recurse_assign` frame (its
                   evaluator `ctx` and the line of the first AST node among its locals), any other frame of `eval.py`
                   (ignored), a frame of any other file (`real_frame`).
* `step` / `fmt` – `_build_stack` + `ast_frame` + `real_frame`: the loop variables `current_func`,
                   `current_filename` (set once by the first `aeval` frame, overwritten by every `EvalFunc.call`
                   frame), `lineno`, and the stack with the rule "replace the last entry when file and function
                   name coincide".
* `Act`, `framesOf` – the frame shapes the interpreter's own recursion produces for a chain of activations.
* `contain`, `serve`, `loadAll` – the catch-and-log entry points (`do_func_call`, `_call_expression`,
                   `check_expression_vars`, `do_service_call`, `task.create`'s `func_call`, `run_coro` for
                   done-callbacks, `load_file` + `load_scripts`) and the trigger loop around them.
Core Lean only.
-/
namespace PsModel.C18

/-! ## (i) the formatter -/

inductive Frame where
  | evalFuncCall (fn : String) (file : String)
  | callFunc (fn : String)
  | aeval (ctxFile : String) (ctxName : String) (line : Option Nat)
  | other
  | real (file fn : String) (line : Nat)
deriving Repr, DecidableEq, Inhabited

structure Entry where
  file : String
  func : Option String
  line : Nat
  isReal : Bool
deriving Repr, DecidableEq, Inhabited

structure FState where
  curFunc : Option String := none      -- current_func
  curFile : Option String := none      -- current_filename
  line : Nat := 1                      -- lineno
  rstack : List Entry := []            -- the StackSummary, last entry first
deriving Repr, DecidableEq, Inhabited

/-- the name `ast_frame` gives an entry: `func = self.current_func; if not func and self.current_filename != ctx.name:
func = ctx.name` -/
def entryFunc (g : Option String) (f cn : String) : Option String :=
  match g with
  | some x => some x
  | none => if f ≠ cn then some cn else none

/-- `ast_frame(ctx)` -/
def astFrame (s : FState) (ctxName : String) : FState :=
  let file := s.curFile.getD ""
  let func := entryFunc s.curFunc file ctxName
  let e : Entry := { file := file, func := func, line := s.line, isReal := false }
  match s.rstack with
  | last :: rest =>
    if e.file = last.file ∧ e.func = last.func then { s with rstack := e :: rest }     -- replace (deeper data)
    else { s with rstack := e :: last :: rest }
  | [] => { s with rstack := [e] }

/-- one iteration of `while current_tb:` -/
def step (s : FState) : Frame → FState
  | .evalFuncCall fn file => { s with curFunc := some fn, curFile := some file }
  | .callFunc fn => if s.curFunc.isNone then { s with curFunc := some fn } else s
  | .aeval ctxFile ctxName line =>
    let s1 := if s.curFile.isNone then { s with curFile := some ctxFile } else s
    match line with
    | some l => astFrame { s1 with line := l } ctxName
    | none => s1
  | .other => s
  | .real file fn line => { s with rstack := { file := file, func := some fn, line := line, isReal := true } :: s.rstack }

def run (s : FState) (fs : List Frame) : FState := fs.foldl step s

/-- the `StackSummary` built for a traceback -/
def fmt (fs : List Frame) : List Entry := (run {} fs).rstack.reverse

/-! ## (ii) the frames of a chain of activations -/

/-- one activation of script code: a function body (entered through `EvalFunc.call`) or a module body;
`lines` are the lines of the nested `aeval` frames (statement, sub-statements, expression, call …), outermost
first; the last one is where the activation currently is -/
structure Act where
  file : String
  func : String
  ctxFile : String          -- the evaluator the activation runs on (irrelevant once `EvalFunc.call` was seen)
  ctxName : String
  lines : List Nat
  last : Nat
  viaCallFunc : Bool        -- reached through `AstEval.call_func` (a call expression) or called directly (entry point)
  noise : Nat               -- how many ignored `eval.py` frames (`ast_call`, `ast_if`, …) sit between the `aeval`s
deriving Repr, DecidableEq, Inhabited

def aevals (file func : String) (noise : Nat) : List Nat → List Frame
  | [] => []
  | l :: r => .aeval file func (some l) :: (List.replicate noise .other ++ aevals file func noise r)

/-- `call_func`? → `EvalFunc.call` → `aeval` (statement) → … → `aeval` (innermost node) -/
def actFrames (a : Act) : List Frame :=
  (if a.viaCallFunc then [.callFunc a.func] else []) ++
  [.evalFuncCall a.func a.file] ++ aevals a.ctxFile a.ctxName a.noise (a.lines ++ [a.last])

def framesOf (chain : List Act) : List Frame := (chain.map actFrames).flatten

/-- a module body (file load, Jupyter cell): no `EvalFunc.call` frame; only possible at the bottom of a traceback -/
structure ModAct where
  file : String
  ctxName : String
  lines : List Nat
  last : Nat
  noise : Nat
deriving Repr, DecidableEq, Inhabited

def modFrames (m : ModAct) : List Frame := aevals m.file m.ctxName m.noise (m.lines ++ [m.last])

def modTriple (m : ModAct) : Entry :=
  { file := m.file, func := entryFunc none m.file m.ctxName, line := m.last, isReal := false }

/-- what Python's own traceback names for the chain -/
def triple (a : Act) : Entry := { file := a.file, func := some a.func, line := a.last, isReal := false }

/-- no two consecutive activations of the same function of the same file (direct recursion, same-named
functions calling each other) -/
def NoAdj : List Act → Prop
  | [] => True
  | [_] => True
  | a :: b :: r => (a.file ≠ b.file ∨ a.func ≠ b.func) ∧ NoAdj (b :: r)

/-! ## (iii) containment -/

/-- what running a piece of user code does: a value or an `Exception` (cancellation is not an `Exception`) -/
inductive Res where
  | ok
  | raise (e : Nat)
deriving Repr, DecidableEq, Inhabited

structure LogRec where
  logger : String          -- the logger the record is emitted on
  exc : Nat
  scriptTb : Bool          -- formatted with the script traceback (`AstEval.log_exception`)
deriving Repr, DecidableEq, Inhabited

/-- `try: body  except Exception as e: ast_ctx.log_exception(e); return <falsy>` – returns whether the body
succeeded -/
def contain (logger : String) (body : Res) (log : List LogRec) : Bool × List LogRec :=
  match body with
  | .ok => (true, log)
  | .raise e => (false, log ++ [{ logger := logger, exc := e, scriptTb := true }])

/-- the two trigger subsystems -/
inductive Subsys where
  | legacy      -- trigger.py: `do_func_call`
  | new         -- decorator.py: `FunctionDecoratorManager._call`
deriving Repr, DecidableEq, Inhabited

/-- does the subsystem's trigger-function call have its own `except Exception: log_exception`?  Both do: the legacy
`do_func_call` always did, `FunctionDecoratorManager._call` since the repair of finding C18-F2 (before it the
exception reached `Function.run_coro`).  The correspondence runs certify these values against the code. -/
def fnCaught : Subsys → Bool
  | .legacy => true
  | .new => true

/-- the function call of a trigger run.  `caught = true`: `except Exception: log_exception` around the call
(`do_func_call`, `FunctionDecoratorManager._call`, the service handlers, `task.create`).  `caught = false`: a call
awaited without handler, whose exception reaches `Function.run_coro` (generic logger, Python traceback) – the shape
the new subsystem had before the repair; kept for the regression witness. -/
def callAction (caught : Bool) (logger : String) (body : Res) (log : List LogRec) : List LogRec :=
  match body with
  | .ok => log
  | .raise e =>
    if caught then log ++ [{ logger := logger, exc := e, scriptTb := true }]
    else log ++ [{ logger := "function", exc := e, scriptTb := false }]

/-- one occurrence of a trigger: the trigger expression, the `@state_active` expression and the function body -/
structure Occ where
  expr : Res
  exprTrue : Bool          -- value of the expression when it does not raise
  active : Res
  activeTrue : Bool
  body : Res
deriving Repr, DecidableEq, Inhabited

structure Loop where
  subs : Nat               -- the trigger's subscriptions / timers (abstract)
  served : Nat             -- occurrences taken from the queue
  runs : Nat               -- function runs started
  done : Nat               -- function runs that completed normally
  log : List LogRec
deriving Repr, DecidableEq, Inhabited

/-- one iteration of the trigger loop (`trigger_watch` / the decorator manager's dispatch) -/
def serve (caught : Bool) (logger : String) (s : Loop) (o : Occ) : Loop :=
  let (e, log1) := contain logger o.expr s.log
  if e && o.exprTrue then
    let (a, log2) := contain logger o.active log1
    if a && o.activeTrue then
      { s with served := s.served + 1, runs := s.runs + 1, done := s.done + (if o.body = .ok then 1 else 0),
               log := callAction caught logger o.body log2 }
    else { s with served := s.served + 1, log := log2 }
  else { s with served := s.served + 1, log := log1 }

def serveAll (caught : Bool) (logger : String) (s : Loop) (os : List Occ) : Loop := os.foldl (serve caught logger) s

/-! ### load time -/

structure SrcFile where
  name : String
  loads : Res              -- does running the file raise?
deriving Repr, DecidableEq, Inhabited

structure Loaded where
  contexts : List String
  log : List LogRec
deriving Repr, DecidableEq, Inhabited

/-- `load_scripts`' loop over the planned files: `load_file` logs on the file's logger and re-raises without
registering the context; `load_scripts` catches, reports "Failed to load" and goes on -/
def loadAll : List SrcFile → Loaded → Loaded
  | [], s => s
  | f :: r, s =>
    match f.loads with
    | .ok => loadAll r { s with contexts := s.contexts ++ [f.name] }
    | .raise e =>
      loadAll r { s with log := s.log ++ [{ logger := f.name, exc := e, scriptTb := true },
                                        { logger := "pyscript", exc := e, scriptTb := false }] }

end PsModel.C18
