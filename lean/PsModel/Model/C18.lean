/-!
# C18 model – traceback reconstruction and error containment

Mirrors (names of the Python code in brackets):

* `Frame`        – one entry of the Python traceback of the *interpreter* as `EvalExceptionFormatter._build_stack`
                   classifies it: an `EvalFunc.call` frame (its `self` is the script function), an
                   `AstEval.call_func` frame (local `func_name`), an `AstEval.aeval` / `recurse_assign` frame (its
                   evaluator `ctx` and the line of the first AST node among its locals), any other frame of `eval.py`
                   (ignored), a frame of any other file (`real_frame`).
* `step` / `fmt` – `_build_stack` + `ast_frame` + `real_frame`: the loop variables `current_func`,
                   `current_filename` (set once by the first `aeval` frame, overwritten by every `EvalFunc.call`
                   frame), `lineno`, and the stack with the rule "replace the last entry when file and function
                   name coincide".
* `Act`, `framesOf` – the frame shapes the interpreter's own recursion produces for a chain of activations.
* `contain`, `serve`, `loadAll` – the catch-and-log entry points (`do_func_call`, `_call_expression`,
                   `check_expression_vars`, `do_service_call`, `task.create`'s `func_call`, `run_coro` for
                   done-callbacks, `load_file` + `load_scripts`) and the trigger loop around them.
Core Lean only.
-/
namespace PsModel.C18

/-! ## (i) the formatter -/

inductive Frame where
  | evalFuncCall (fn : String) (file : String)
  | callFunc (fn : String)
  | aeval (ctx : Nat) (ctxFile : String) (ctxName : String) (line : Option Nat)
  | other
  | real (file fn : String) (line : Nat)
deriving Repr, DecidableEq, Inhabited

structure Entry where
  file : String
  func : Option String
  line : Nat
  isReal : Bool
deriving Repr, DecidableEq, Inhabited

structure FState where
  curFunc : Option String := none      -- current_func
  curFile : Option String := none      -- current_filename
  line : Nat := 1                      -- lineno
  rstack : List Entry := []            -- the StackSummary, last entry first
  curCtx : Option Nat := none          -- current_ctx: the evaluator (identity) of the latest `aeval` frame
  funcEntered : Bool := false          -- func_entered: an `EvalFunc.call` frame was seen since the latest `aeval` frame
deriving Repr, DecidableEq, Inhabited

/-- the shape of `_build_stack`'s `aeval` branch.  `resetOnNewCtx = true` (the current code, repair of finding C18-F3):
an `aeval` frame of ANOTHER evaluator that was not entered through an `EvalFunc.call` frame is the body of a file that
is being loaded (an import) – `current_func`, `current_filename` (and the code list) are taken afresh from that
evaluator.  `false`: the shape before the repair (`current_filename` is set by the first `aeval` frame only). -/
structure Cfg where
  resetOnNewCtx : Bool
deriving Repr, DecidableEq, Inhabited

def Cfg.current : Cfg := ⟨true⟩
def Cfg.preF3 : Cfg := ⟨false⟩

/-- the name `ast_frame` gives an entry: `func = self.current_func; if not func and self.current_filename != ctx.name:
func = ctx.name` -/
def entryFunc (g : Option String) (f cn : String) : Option String :=
  match g with
  | some x => some x
  | none => if f ≠ cn then some cn else none

/-- `ast_frame(ctx)` -/
def astFrame (s : FState) (ctxName : String) : FState :=
  let file := s.curFile.getD ""
  let func := entryFunc s.curFunc file ctxName
  let e : Entry := { file := file, func := func, line := s.line, isReal := false }
  match s.rstack with
  | last :: rest =>
    if e.file = last.file ∧ e.func = last.func then { s with rstack := e :: rest }     -- replace (deeper data)
    else { s with rstack := e :: last :: rest }
  | [] => { s with rstack := [e] }

/-- `if ctx is not self.current_ctx: (if self.current_ctx is not None and not self.func_entered: reset);
self.current_ctx = ctx`, then `self.func_entered = False` -/
def enterCtx (c : Cfg) (s : FState) (ctx : Nat) : FState :=
  if s.curCtx = some ctx then { s with funcEntered := false }
  else if c.resetOnNewCtx && s.curCtx.isSome && !s.funcEntered then
    { s with curFunc := none, curFile := none, curCtx := some ctx, funcEntered := false }
  else { s with curCtx := some ctx, funcEntered := false }

/-- one iteration of `while current_tb:` -/
def stepC (c : Cfg) (s : FState) : Frame → FState
  | .evalFuncCall fn file => { s with curFunc := some fn, curFile := some file, funcEntered := true }
  | .callFunc fn => if s.curFunc.isNone then { s with curFunc := some fn } else s
  | .aeval ctx ctxFile ctxName line =>
    let s0 := enterCtx c s ctx
    let s1 := if s0.curFile.isNone then { s0 with curFile := some ctxFile } else s0
    match line with
    | some l => astFrame { s1 with line := l } ctxName
    | none => s1
  | .other => s
  | .real file fn line => { s with rstack := { file := file, func := some fn, line := line, isReal := true } :: s.rstack }

def runC (c : Cfg) (s : FState) (fs : List Frame) : FState := fs.foldl (stepC c) s

/-- the `StackSummary` built for a traceback -/
def fmtC (c : Cfg) (fs : List Frame) : List Entry := (runC c {} fs).rstack.reverse

/-- the current code -/
abbrev step := stepC Cfg.current
abbrev run := runC Cfg.current
abbrev fmt := fmtC Cfg.current

/-! ## (ii) the frames of a chain of activations -/

/-- one activation of script code: a function body (entered through `EvalFunc.call`) or a module body;
`lines` are the lines of the nested `aeval` frames (statement, sub-statements, expression, call …), outermost
first; the last one is where the activation currently is -/
structure Act where
  file : String
  func : String
  ctx : Nat                 -- the evaluator the activation runs on: its identity, ...
  ctxFile : String          -- ... its file and name (irrelevant once `EvalFunc.call` was seen)
  ctxName : String
  lines : List Nat
  last : Nat
  viaCallFunc : Bool        -- reached through `AstEval.call_func` (a call expression) or called directly (entry point)
  noise : Nat               -- how many ignored `eval.py` frames (`ast_call`, `ast_if`, …) sit between the `aeval`s
deriving Repr, DecidableEq, Inhabited

def aevals (ctx : Nat) (file func : String) (noise : Nat) : List Nat → List Frame
  | [] => []
  | l :: r => .aeval ctx file func (some l) :: (List.replicate noise .other ++ aevals ctx file func noise r)

/-- `call_func`? → `EvalFunc.call` → `aeval` (statement) → … → `aeval` (innermost node) -/
def actFrames (a : Act) : List Frame :=
  (if a.viaCallFunc then [.callFunc a.func] else []) ++
  [.evalFuncCall a.func a.file] ++ aevals a.ctx a.ctxFile a.ctxName a.noise (a.lines ++ [a.last])

def framesOf (chain : List Act) : List Frame := (chain.map actFrames).flatten

/-- a module body (file load, Jupyter cell): no `EvalFunc.call` frame; only possible at the bottom of a traceback -/
structure ModAct where
  ctx : Nat                 -- the evaluator `load_file` created for the file
  file : String
  ctxName : String
  lines : List Nat
  last : Nat
  noise : Nat
deriving Repr, DecidableEq, Inhabited

def modFrames (m : ModAct) : List Frame := aevals m.ctx m.file m.ctxName m.noise (m.lines ++ [m.last])

def modTriple (m : ModAct) : Entry :=
  { file := m.file, func := entryFunc none m.file m.ctxName, line := m.last, isReal := false }

/-- what Python's own traceback names for the chain -/
def triple (a : Act) : Entry := { file := a.file, func := some a.func, line := a.last, isReal := false }

/-- no two consecutive activations of the same function of the same file (direct recursion, same-named
functions calling each other) -/
def NoAdj : List Act → Prop
  | [] => True
  | [_] => True
  | a :: b :: r => (a.file ≠ b.file ∨ a.func ≠ b.func) ∧ NoAdj (b :: r)

/-! ### nested loads (imports) -/

/-- a frame of real Python code (`global_ctx.py: module_import`, `load_file`, …) -/
structure RealFr where
  file : String
  fn : String
  line : Nat
deriving Repr, DecidableEq, Inhabited

def RealFr.frame (r : RealFr) : Frame := .real r.file r.fn r.line
def RealFr.entry (r : RealFr) : Entry := { file := r.file, func := some r.fn, line := r.line, isReal := true }

/-- one import that runs a file: the real frames of the import machinery, the body of the imported file (a NEW
evaluator), then the chain of script functions it calls -/
structure Seg where
  reals : List RealFr
  m : ModAct
  chain : List Act
deriving Repr, DecidableEq, Inhabited

def segFrames (g : Seg) : List Frame := g.reals.map RealFr.frame ++ modFrames g.m ++ framesOf g.chain
def segTriples (g : Seg) : List Entry := g.reals.map RealFr.entry ++ modTriple g.m :: g.chain.map triple

/-- the evaluator of the innermost activation -/
def lastCtx (c : Nat) (chain : List Act) : Nat := (chain.getLast?.map (·.ctx)).getD c

/-! ## (i′) the last line of a report (`Type: message`) -/

/-- what calling the exception class's `__str__` does.  A `__str__` written in a script is a pyscript function: a
coroutine function that may return a text, raise, return something that is not a string, or wait for something
(`task.sleep`, a service call) before it returns its text -/
inductive StrRes where
  | returns (t : String)
  | raises
  | nonString
  | suspends (t : String)
deriving Repr, DecidableEq, Inhabited

inductive StrImpl where
  | native (r : StrRes)         -- a builtin class, or `__str__` inherited from one / compiled natively
  | script (r : StrRes)         -- `__str__` defined in the script
deriving Repr, DecidableEq, Inhabited

def strFailed : String := "<exception str() failed>"

/-- `traceback`'s final line: `Type: text`, or `Type` alone when the text is empty -/
def finalLine (name text : String) : String := if text = "" then name else name ++ ": " ++ text

/-- what `str(exc)` called by the traceback module yields for a native `__str__` (it blocks while `__str__` waits) -/
def nativeStr : StrRes → String
  | .returns t => t
  | .raises => strFailed
  | .nonString => strFailed
  | .suspends t => t

/-- `EvalExceptionFormatter._format_exception_only`.  `runScriptStr = true` (current code, repair of finding C18-F9): a
`__str__` that is a script function is run to completion with `coro.send(None)` – its text is used when it returns a
string without suspending; a `__str__` that raises, returns a non-string or waits for something is reported as Python
reports a failing `__str__`.  `false` (before the repair): `str()` is called natively, gets a coroutine and fails. -/
def lastLine (runScriptStr : Bool) (name : String) : StrImpl → String
  | .native r => finalLine name (nativeStr r)
  | .script r =>
    if runScriptStr then
      match r with
      | .returns t => finalLine name t
      | .raises => finalLine name strFailed
      | .nonString => finalLine name strFailed
      | .suspends _ => finalLine name strFailed
    else finalLine name strFailed

/-! ## (iii) containment -/

/-- what running a piece of user code does: a value or an `Exception` (cancellation is not an `Exception`) -/
inductive Res where
  | ok
  | raise (e : Nat)
deriving Repr, DecidableEq, Inhabited

structure LogRec where
  logger : String          -- the logger the record is emitted on
  exc : Nat
  scriptTb : Bool          -- formatted with the script traceback (`AstEval.log_exception`)
deriving Repr, DecidableEq, Inhabited

/-- `try: body  except Exception as e: ast_ctx.log_exception(e); return <falsy>` – returns whether the body
succeeded -/
def contain (logger : String) (body : Res) (log : List LogRec) : Bool × List LogRec :=
  match body with
  | .ok => (true, log)
  | .raise e => (false, log ++ [{ logger := logger, exc := e, scriptTb := true }])

/-- the two trigger subsystems -/
inductive Subsys where
  | legacy      -- trigger.py: `do_func_call`
  | new         -- decorator.py: `FunctionDecoratorManager._call`
deriving Repr, DecidableEq, Inhabited

/-- does the subsystem's trigger-function call have its own `except Exception: log_exception`?  Both do: the legacy
`do_func_call` always did, `FunctionDecoratorManager._call` since the repair of finding C18-F2 (before it the
exception reached `Function.run_coro`).  The correspondence runs certify these values against the code. -/
def fnCaught : Subsys → Bool
  | .legacy => true
  | .new => true

/-- the function call of a trigger run.  `caught = true`: `except Exception: log_exception` around the call
(`do_func_call`, `FunctionDecoratorManager._call`, the service handlers, `task.create`).  `caught = false`: a call
awaited without handler, whose exception reaches `Function.run_coro` (generic logger, Python traceback) – the shape
the new subsystem had before the repair; kept for the regression witness. -/
def callAction (caught : Bool) (logger : String) (body : Res) (log : List LogRec) : List LogRec :=
  match body with
  | .ok => log
  | .raise e =>
    if caught then log ++ [{ logger := logger, exc := e, scriptTb := true }]
    else log ++ [{ logger := "function", exc := e, scriptTb := false }]

/-- one occurrence of a trigger: the trigger expression, the `@state_active` expression and the function body -/
structure Occ where
  expr : Res
  exprTrue : Bool          -- value of the expression when it does not raise
  active : Res
  activeTrue : Bool
  body : Res
deriving Repr, DecidableEq, Inhabited

structure Loop where
  subs : Nat               -- the trigger's subscriptions / timers (abstract)
  served : Nat             -- occurrences taken from the queue
  runs : Nat               -- function runs started
  done : Nat               -- function runs that completed normally
  log : List LogRec
deriving Repr, DecidableEq, Inhabited

/-- one iteration of the trigger loop (`trigger_watch` / the decorator manager's dispatch) -/
def serve (caught : Bool) (logger : String) (s : Loop) (o : Occ) : Loop :=
  let (e, log1) := contain logger o.expr s.log
  if e && o.exprTrue then
    let (a, log2) := contain logger o.active log1
    if a && o.activeTrue then
      { s with served := s.served + 1, runs := s.runs + 1, done := s.done + (if o.body = .ok then 1 else 0),
               log := callAction caught logger o.body log2 }
    else { s with served := s.served + 1, log := log2 }
  else { s with served := s.served + 1, log := log1 }

def serveAll (caught : Bool) (logger : String) (s : Loop) (os : List Occ) : Loop := os.foldl (serve caught logger) s

/-! ### load time -/

structure SrcFile where
  name : String
  loads : Res              -- does running the file raise?
  shutdownFns : Nat := 0   -- functions with a `@time_trigger("shutdown")` defined before the file raises (legacy subsystem)
deriving Repr, DecidableEq, Inhabited

structure Loaded where
  contexts : List String
  log : List LogRec
  ran : List String := [] -- script functions that were run during the load pass (by file)
deriving Repr, DecidableEq, Inhabited

/-- `TrigInfo.stop()`, called for every function of a file whose load raised (`load_file`: `global_ctx.stop()`): the
shutdown function runs `if self.run_on_shutdown and self.started` (current code, repair of finding C18-F10:
`needsStart = true`; a trigger of a file that is still loading was never started) – before the repair
`if self.run_on_shutdown` (`needsStart = false`) -/
def stopUnstarted (needsStart : Bool) (f : SrcFile) : List String :=
  if needsStart then [] else List.replicate f.shutdownFns f.name

/-- `load_scripts`' loop over the planned files: `load_file` logs on the file's logger and re-raises without
registering the context; `load_scripts` catches, reports "Failed to load" and goes on -/
def loadAllC (needsStart : Bool) : List SrcFile → Loaded → Loaded
  | [], s => s
  | f :: r, s =>
    match f.loads with
    | .ok => loadAllC needsStart r { s with contexts := s.contexts ++ [f.name] }
    | .raise e =>
      loadAllC needsStart r { s with ran := s.ran ++ stopUnstarted needsStart f,
                                     log := s.log ++ [{ logger := f.name, exc := e, scriptTb := true },
                                                      { logger := "pyscript", exc := e, scriptTb := false }] }

/-- the current code -/
abbrev loadAll := loadAllC true

end PsModel.C18
