import PsModel.Util.Sexp
import PsModel.Drv.C19
open PsModel

def dispatch (prop : String) (payload : Sexp) : String :=
  match prop with
  | "C19" => C19.handle payload
  | _ => s!"err unknown-property {prop}"

def handleLine (line : String) : String :=
  let line := line.trimAscii.toString
  match Sexp.parseMany line with
  | some (.atom p :: rest) => dispatch p (match rest with | [x] => x | xs => .list xs)
  | _ => "err parse"

partial def loop (h : IO.FS.Stream) (out : IO.FS.Stream) : IO Unit := do
  let line ← h.getLine
  if line.isEmpty then return ()
  out.putStrLn (handleLine line)
  loop h out

def main : IO Unit := do
  let out ← IO.getStdout
  loop (← IO.getStdin) out
  out.flush
