#!/bin/sh
# usage: tools/eval_round.sh <dir with seed output dirs> <id> ...   – copy seeds into seeded/ and evaluate each against its own property
src=$1; shift
for s in "$@"; do
  [ -d "$src/$s" ] || { echo "$s missing"; continue; }
  rm -rf seeded/$s; cp -r $src/$s seeded/$s
  /venv/bin/python tools/seed_eval.py seeded/$s ${s%_*} 2>&1 | tail -1 | cut -c1-200
done
