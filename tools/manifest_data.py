"""Manifest inputs: one JSON file per claimed property under tools/manifest/ (keys: technique, text, note)."""
import json
from pathlib import Path

HERE = Path(__file__).resolve().parent
HOOK_COMMITS = []
NOTES = ("Every check: extract tables from /repo -> lake build theorems -> audit axioms -> run the real code and the Lean "
         "model on the same cases -> verdict.  A broken proof/tie starts a failing-input search; see DESIGN.md §2.5.")
NOT_APPLICABLE = {}
CLAIMED = {p.stem: json.loads(p.read_text()) for p in sorted((HERE / "manifest").glob("C*.json"))}
