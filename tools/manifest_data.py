HOOK_COMMITS = []
NOTES = ("Every check: extract tables from /repo -> lake build theorems -> audit axioms -> run the real code and the Lean "
         "model on the same cases -> verdict.  A broken proof/tie starts a failing-input search; see DESIGN.md §2.5.")
NOT_APPLICABLE = {}
CLAIMED = {
    "C19": {
        "technique": "Lean 4 theorems (round-trip, fragmentation independence, auth/reply decision logic) + correspondence with real ZmqSocket/Kernel over in-memory streams",
        "text": "Kernel-checked theorems over the byte-level model of send/send_multipart/read_bytes/recv: any frame list of any "
                "lengths < 2^64 round-trips under every fragmentation (C19_roundtrip, C19_fragment, C19_single, C19_sequence); "
                "requests whose signature is not the MAC are rejected with no output, valid ones get exactly one correctly "
                "addressed reply bracketed by busy/idle, and the execution counter follows the executed cells "
                "(C19_auth, C19_reply, C19_counter).  The model is tied to the code by extracted ZMTP constants and by running "
                "the real socket and shell_listen on the same inputs.",
        "note": "Trusted: Lean kernel (axioms ⊆ propext/Classical.choice/Quot.sound), tools/extract.py, harness/run_C19.py. "
                "Assumed not proved: asyncio.StreamReader.read semantics, HMAC is a MAC (uninterpreted `sign`), json, the "
                "interpreter's result for a cell is a parameter.",
    },
}
