#!/bin/bash
# usage: tools/integrate_builder.sh <X> [--no-fixes]
# Integrates builder branch b4-<X> (worktree /root/wb/<X>): applies its pending `fix:` patches to /repo (git am), runs the
# pinned tests, merges the branch, substitutes the commit ids for PENDING:<patch> in findings.d, regenerates aggregates.
set -e
X=$1
WB=/root/wb/$X
cd "$(dirname "$0")/.."
if [ "$2" != "--no-fixes" ]; then
  for p in $(ls "$WB"/notes/fixes_pending/*.patch 2>/dev/null | sort); do
    name=$(basename "$p")
    if grep -q "^$name " notes/fixes_applied.txt 2>/dev/null; then echo "already applied: $name"; continue; fi
    if ! git -C /repo am -3 "$p" >/tmp/am_$X.log 2>&1; then
      echo "AM FAILED: $name"; tail -5 /tmp/am_$X.log; git -C /repo am --abort || true; exit 3
    fi
    c=$(git -C /repo rev-parse --short HEAD)
    echo "$name $c $(git -C /repo log -1 --format=%s)" >> notes/fixes_applied.txt
    echo "applied $name -> $c"
  done
  /venv/bin/python tools/run_pinned.py /repo | tail -1
fi
git merge -X theirs --no-edit "b4-$X" 2>&1 | tail -2
python3 - <<'E'
import json, glob, re
m = {}
try:
    for l in open('notes/fixes_applied.txt'):
        n, c = l.split()[:2]; m[n] = c
except FileNotFoundError:
    pass
for f in glob.glob('findings.d/*.json') + glob.glob('tools/manifest/*.json'):
    s = open(f).read()
    t = re.sub(r'PENDING:([A-Za-z0-9_.\-]+\.patch)', lambda k: m.get(k.group(1), k.group(0)), s)
    if t != s:
        open(f, 'w').write(t); print('substituted in', f)
E
python3 tools/merge_findings.py
python3 tools/mkmanifest.py
/venv/bin/python tools/extract.py /repo | grep TIE-BROKEN || true
git add -A; git commit -qm "Merge builder4-$X" || true
git log --oneline | head -1
