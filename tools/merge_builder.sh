#!/bin/bash
# usage: tools/merge_builder.sh <branch>   – take the per-property files of a builder branch, regenerate the aggregates
set -e
B=$1
cd "$(dirname "$0")/.."
files=$(git diff --name-only 5f9ff33 "$B" | grep -v -E '^(MANIFEST.json|known_findings.json|lean/Main.lean|lean/PsModel.lean|evidence/)' || true)
echo "$files"
for f in $files; do
  if git cat-file -e "$B:$f" 2>/dev/null; then mkdir -p "$(dirname "$f")"; git show "$B:$f" > "$f"; fi
done
python3 tools/mkmanifest.py
python3 tools/merge_findings.py
/venv/bin/python tools/extract.py
