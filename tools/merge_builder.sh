#!/bin/bash
# usage: tools/merge_builder.sh <branch> <Cxx> [<Cyy> …] – take the files of the named properties from a builder branch
# (only paths containing one of the property ids), then regenerate the aggregates
set -e
B=$1; shift
cd "$(dirname "$0")/.."
pat=$(echo "$@" | tr ' ' '|')
files=$(git diff --name-only ${MERGE_BASE:-cc05d3c} "$B" | grep -E "($pat)" | grep -v -E '^(evidence/)' || true)
echo "$files"
for f in $files; do
  if git cat-file -e "$B:$f" 2>/dev/null; then mkdir -p "$(dirname "$f")"; git show "$B:$f" > "$f"; fi
done
python3 tools/mkmanifest.py
python3 tools/merge_findings.py
/venv/bin/python tools/extract.py
