"""Merge findings.d/Cxx.json (lists of entries) into known_findings.json (the committed known-findings file).
Entry: {property, id, status: open|fixed, signature, what, witness, [commit]}.  Run by hand, never by a check."""
import json
from pathlib import Path

ROOT = Path(__file__).resolve().parent.parent
entries = []
for f in sorted((ROOT / "findings.d").glob("C*.json")):
    for e in json.loads(f.read_text()):
        for k in ("property", "id", "status", "signature", "what"):
            assert k in e, (f, k)
        entries.append(e)
out = {"comment": "Genuine defects of custom-components/pyscript: status open = recorded known finding (checks print "
                  "KNOWN-FINDING and exit 0 for exactly this signature); status fixed = repaired by the named fix: commit "
                  "(suppresses nothing). Generated from findings.d/*.json by tools/merge_findings.py; checks never write here.",
       "findings": entries}
(ROOT / "known_findings.json").write_text(json.dumps(out, indent=1) + "\n")
print(len(entries), "entries")
