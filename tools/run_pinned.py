"""usage: /venv/bin/python tools/run_pinned.py <repo-dir>  – runs the 88 pinned baseline tests in that checkout"""
import json, subprocess, sys
d = sys.argv[1]
b = json.load(open('/root/.vp/BASELINE.json'))
ids = [t.split('::', 1)[0].replace('.', '/') + '.py::' + t.split('::', 1)[1] for t in b['stable_pass']]
p = subprocess.run(['/venv/bin/python', '-m', 'pytest', '-q', '-p', 'no:cacheprovider', '--timeout=900'] + ids, cwd=d,
                   capture_output=True, text=True)
print('\n'.join(p.stdout.splitlines()[-8:]))
sys.exit(p.returncode)
