"""Rewrite the generated tables of DESIGN.md §0.4 from the current files."""
import subprocess, sys
from pathlib import Path
ROOT = Path(__file__).resolve().parent.parent
t = subprocess.run([sys.executable, str(ROOT / "tools" / "status_table.py")], capture_output=True, text=True, check=True).stdout
p = ROOT / "DESIGN.md"
s = p.read_text()
a = s.index("<!-- STATUS-TABLES-BEGIN -->") + len("<!-- STATUS-TABLES-BEGIN -->")
b = s.index("<!-- STATUS-TABLES-END -->")
p.write_text(s[:a] + "\n" + t + s[b:])
print("refreshed")
