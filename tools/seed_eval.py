"""Evaluate one seeded change: tools/seed_eval.py <seed dir with patch.diff/demo.py/notes.md> <property> [tier]
Applies the patch in a scratch worktree of /repo, confirms (pinned tests pass, demo passes on /repo and fails on the
patched tree), runs ./check <property> against the patched tree, stores everything under seeded/<name>/."""
import json, os, shutil, subprocess, sys, time
from pathlib import Path

ROOT = Path(__file__).resolve().parent.parent
src = Path(sys.argv[1]).resolve(); prop = sys.argv[2]; tier = sys.argv[3] if len(sys.argv) > 3 else "quick"
name = src.name
wt = f"/tmp/sv_{name}"
subprocess.run(["git", "-C", "/repo", "worktree", "remove", "--force", wt], capture_output=True)
subprocess.run(["git", "-C", "/repo", "worktree", "add", wt, "HEAD", "-q"], check=True)
meta = {"id": name, "property": prop, "repo_head": subprocess.run(["git", "-C", "/repo", "rev-parse", "--short", "HEAD"], capture_output=True, text=True).stdout.strip()}
try:
    # SEED_BASE_PATCHES=<patch>:<patch>…  pending `fix:` patches (notes/fixes_pending/*.patch) applied BEFORE the seed, so that
    # a seed is judged against the repaired tree the mirrored model describes (otherwise the fixed finding itself is reported)
    for bp in [x for x in os.environ.get("SEED_BASE_PATCHES", "").split(":") if x]:
        r0 = subprocess.run(["git", "-C", wt, "apply", str(Path(bp).resolve())], capture_output=True, text=True)
        meta.setdefault("base_patches", []).append({"patch": Path(bp).name, "applies": r0.returncode == 0})
    ap = subprocess.run(["git", "-C", wt, "apply", str(src / "patch.diff")], capture_output=True, text=True)
    meta["patch_applies"] = ap.returncode == 0
    if ap.returncode != 0:
        meta["apply_error"] = ap.stderr[-500:]
    else:
        t = subprocess.run(["/venv/bin/python", str(Path(__file__).resolve().parent / "run_pinned.py"), wt], capture_output=True, text=True)
        meta["pinned_tests"] = t.stdout.strip().splitlines()[-1] if t.stdout.strip() else "no output"
        meta["pinned_tests_pass"] = t.returncode == 0
        d0 = subprocess.run(["/venv/bin/python", str(src / "demo.py"), "/repo"], capture_output=True, text=True, timeout=600)
        d1 = subprocess.run(["/venv/bin/python", str(src / "demo.py"), wt], capture_output=True, text=True, timeout=600)
        meta["demo_on_repo_rc"] = d0.returncode
        meta["demo_on_patched_rc"] = d1.returncode
        meta["demo_on_patched_tail"] = (d1.stdout + d1.stderr)[-400:]
        t0 = time.time()
        c = subprocess.run([str(ROOT / "check"), prop, "--tier", tier], cwd=ROOT, capture_output=True, text=True,
                           env=dict(os.environ, VERIF_REPO=wt, VERIF_EVIDENCE_DIR="/tmp/ev_seed"), timeout=3600)
        lines = [l for l in c.stdout.splitlines() if not l.startswith("KNOWN-FINDING")]
        meta["check_cmd"] = f"VERIF_REPO=<patched tree> ./check {prop} --tier {tier}"
        meta["check_rc"] = c.returncode
        meta["check_output"] = lines[-8:]
        meta["check_wall_s"] = round(time.time() - t0, 1)
        meta["detected"] = c.returncode == 1 and any(l.startswith("VIOLATION") for l in lines)
        # keep the first replay as evidence of what was found
        for l in lines:
            if l.startswith("VIOLATION") and "replay=" in l:
                rp = l.split("replay=")[1].split()[0]
                try:
                    r = json.loads(Path(rp).read_text())
                    meta["first_replay"] = {k: (str(v)[:600]) for k, v in r.items() if k in ("kind", "reason", "signature", "broken_obligations")}
                except Exception as e:
                    meta["first_replay"] = str(e)
                break
finally:
    subprocess.run(["git", "-C", "/repo", "worktree", "remove", "--force", wt], capture_output=True)
out = ROOT / "seeded" / name
out.mkdir(parents=True, exist_ok=True)
for f in ("patch.diff", "demo.py", "notes.md"):
    if (src / f).exists() and (src / f).resolve() != (out / f).resolve():
        shutil.copy(src / f, out / f)
notes = (src / "notes.md").read_text() if (src / "notes.md").exists() else ""
meta["needs_to_manifest"] = notes[:1200]
(out / "meta.json").write_text(json.dumps(meta, indent=1))
print(name, "applies", meta.get("patch_applies"), "pinned", meta.get("pinned_tests_pass"), "demo repo/patched", meta.get("demo_on_repo_rc"), meta.get("demo_on_patched_rc"), "DETECTED" if meta.get("detected") else "MISSED", meta.get("check_output", [])[-1:] )
