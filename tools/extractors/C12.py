"""C12 extractor: the two repair switches of the @service life-cycle model, read off the source.

Gen/ServiceTbl.lean:
  SERVICE_OWNER_IS_EVALUATOR   ServiceDecorator.start registers under `self.dm.ast_ctx.name` (the evaluator: 'file.x.func';
                               before the fix) or under `self.dm.ast_ctx.global_ctx.get_name()` (the global context)
  LEGACY_SKIPS_DUPLICATE       EvalFunc.trigger_init skips a service name that is already in `self.trigger_service`
"""
import ast


def gen_service_tbl():
    body = []
    dec = ast.parse((SRC / "decorators" / "service.py").read_text())
    ev = parse("eval.py")

    start = find_func(dec, "start", "ServiceDecorator")
    owner = None
    if start is not None:
        for c in ast.walk(start):
            if isinstance(c, ast.Call) and ast.unparse(c.func) == "Function.service_register" and c.args:
                a = ast.unparse(c.args[0])
                if a == "self.dm.ast_ctx.name":
                    owner = True
                elif a == "self.dm.ast_ctx.global_ctx.get_name()":
                    owner = False
    if owner is None:
        broken.append("decorators/service.ServiceDecorator.start: Function.service_register(<owner name>, ...) shape")
    else:
        body.append(f"def SERVICE_OWNER_IS_EVALUATOR : Bool := {'true' if owner else 'false'}")

    ti = find_func(ev, "trigger_init", "EvalFunc")
    skip = None
    if ti is not None:
        loops = [n for n in ast.walk(ti) if isinstance(n, ast.For) and isinstance(n.target, ast.Name)
                 and n.target.id == "srv_name"]
        if len(loops) == 1:
            regs = [c for c in ast.walk(loops[0]) if isinstance(c, ast.Call)
                    and ast.unparse(c.func) == "Function.service_register"]
            adds = [c for c in ast.walk(loops[0]) if isinstance(c, ast.Call)
                    and ast.unparse(c.func) == "self.trigger_service.add"]
            if len(regs) == 1 and len(adds) == 1:
                guards = [n for n in loops[0].body if isinstance(n, ast.If)
                          and ast.unparse(n.test) == "srv_name in self.trigger_service"
                          and any(isinstance(b, ast.Continue) for b in n.body)]
                skip = len(guards) == 1
    if skip is None:
        broken.append("eval.EvalFunc.trigger_init: `for srv_name in ...` registration loop shape")
    else:
        body.append(f"def LEGACY_SKIPS_DUPLICATE : Bool := {'true' if skip else 'false'}")
    emit("ServiceTbl", "\n".join(body))


EXTRACTORS = [gen_service_tbl]
