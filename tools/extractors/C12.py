"""C12 extractor: the two repair switches of the @service life-cycle model, read off the source.

Gen/ServiceTbl.lean:
  SERVICE_OWNER_IS_EVALUATOR   ServiceDecorator.start registers under `self.dm.ast_ctx.name` (the evaluator: 'file.x.func';
                               before the fix) or under `self.dm.ast_ctx.global_ctx.get_name()` (the global context)
  LEGACY_SKIPS_DUPLICATE       EvalFunc.trigger_init skips a service name that is already in `self.trigger_service`
  LEGACY_TRACKS_AFTER_REGISTER `self.trigger_service.add(srv_name)` comes after `Function.service_register(...)` in that loop
  SERVICE_KEY_LOWERCASED       service_register and service_remove both build `key = f"{domain}.{service}".lower()`
  BUILTIN_TEST_FOLDS_CASE_LEGACY / _NEW   `if name.lower() in (SERVICE_RELOAD, SERVICE_JUPYTER_KERNEL_START)` in trigger_init /
                               `if self.args[1].lower() in (...)` in ServiceDecorator.validate (before the fix: without .lower())
"""
import ast


def gen_service_tbl():
    body = []
    dec = ast.parse((SRC / "decorators" / "service.py").read_text())
    ev = parse("eval.py")

    start = find_func(dec, "start", "ServiceDecorator")
    owner = None
    if start is not None:
        for c in ast.walk(start):
            if isinstance(c, ast.Call) and ast.unparse(c.func) == "Function.service_register" and c.args:
                a = ast.unparse(c.args[0])
                if a == "self.dm.ast_ctx.name":
                    owner = True
                elif a == "self.dm.ast_ctx.global_ctx.get_name()":
                    owner = False
    if owner is None:
        broken.append("decorators/service.ServiceDecorator.start: Function.service_register(<owner name>, ...) shape")
    else:
        body.append(f"def SERVICE_OWNER_IS_EVALUATOR : Bool := {'true' if owner else 'false'}")

    ti = find_func(ev, "trigger_init", "EvalFunc")
    skip = None
    if ti is not None:
        loops = [n for n in ast.walk(ti) if isinstance(n, ast.For) and isinstance(n.target, ast.Name)
                 and n.target.id == "srv_name"]
        if len(loops) == 1:
            regs = [c for c in ast.walk(loops[0]) if isinstance(c, ast.Call)
                    and ast.unparse(c.func) == "Function.service_register"]
            adds = [c for c in ast.walk(loops[0]) if isinstance(c, ast.Call)
                    and ast.unparse(c.func) == "self.trigger_service.add"]
            if len(regs) == 1 and len(adds) == 1:
                guards = [n for n in loops[0].body if isinstance(n, ast.If)
                          and ast.unparse(n.test) == "srv_name in self.trigger_service"
                          and any(isinstance(b, ast.Continue) for b in n.body)]
                skip = len(guards) == 1
                # the name is recorded in trigger_service only AFTER a successful service_register (a refused name is
                # not remembered, so the death of the refused function removes nothing)
                after = regs[0].lineno < adds[0].lineno
    if skip is None:
        broken.append("eval.EvalFunc.trigger_init: `for srv_name in ...` registration loop shape")
    else:
        body.append(f"def LEGACY_SKIPS_DUPLICATE : Bool := {'true' if skip else 'false'}")
        body.append(f"def LEGACY_TRACKS_AFTER_REGISTER : Bool := {'true' if after else 'false'}")

    # GlobalContext.start(): are the delayed managers started in definition order (a list `dms_order`) or by iterating
    # the set `dms_delay_start`?
    gc = parse("global_ctx.py")
    gstart = find_func(gc, "start", "GlobalContext")
    order = None
    if gstart is not None:
        loops = [n for n in ast.walk(gstart) if isinstance(n, ast.For)
                 and any(isinstance(c, ast.Call) and ast.unparse(c.func) == "dm.start" for c in ast.walk(n))]
        if len(loops) == 1:
            it = ast.unparse(loops[0].iter)
            if it == "self.dms_delay_start":
                order = False
            elif it == "ordered":
                first = [n for n in gstart.body if isinstance(n, ast.Assign) and ast.unparse(n.targets[0]) == "ordered"]
                cdm = find_func(gc, "create_decorator_manager", "GlobalContext")
                appended = cdm is not None and any(
                    isinstance(c, ast.Call) and ast.unparse(c.func) == "self.dms_order.append" for c in ast.walk(cdm))
                if len(first) == 1 and appended and \
                        ast.unparse(first[0].value) == "[dm for dm in self.dms_order if dm in self.dms_delay_start]":
                    order = True
    if order is None:
        broken.append("global_ctx.GlobalContext.start: the loop creating the dm.start() tasks has an unknown shape")
    else:
        body.append(f"def START_IN_DEFINITION_ORDER : Bool := {'true' if order else 'false'}")

    # FunctionDecoratorManager.on_func_var_deleted: is a manager that was not started yet taken out of the delayed set?
    dm = parse("decorator.py")
    ofd = None
    for n in ast.walk(dm):
        if isinstance(n, ast.FunctionDef) and n.name == "on_func_var_deleted":
            ofd = n
    discard = None
    if ofd is not None:
        running = any(isinstance(t, ast.If) and "DecoratorManagerStatus.RUNNING" in ast.unparse(t.test) for t in ast.walk(ofd))
        if running:
            validated = [t for t in ast.walk(ofd) if isinstance(t, ast.If)
                         and ast.unparse(t.test) == "self.status is DecoratorManagerStatus.VALIDATED"]
            if not validated:
                discard = False
            elif len(validated) == 1:
                calls = [ast.unparse(c.func) for c in ast.walk(validated[0]) if isinstance(c, ast.Call)]
                if "global_ctx.dms_delay_start.discard" in calls and "global_ctx.dms.discard" in calls:
                    discard = True
    if discard is None:
        broken.append("decorator.FunctionDecoratorManager.on_func_var_deleted: shape")
    else:
        body.append(f"def DELETED_BEFORE_START_DISCARDED : Bool := {'true' if discard else 'false'}")
    # Function.service_register / service_remove: is the key of service_cnt / service2global_ctx the lower-cased name
    # (what Home Assistant's registry uses) or the name as written?
    fn = parse("function.py")
    keys = []
    for name in ("service_register", "service_remove"):
        f = find_func(fn, name, "Function")
        assigns = [] if f is None else [n for n in f.body if isinstance(n, ast.Assign) and ast.unparse(n.targets[0]) == "key"]
        keys.append(ast.unparse(assigns[0].value) if len(assigns) == 1 else None)
    written, folded = "f'{domain}.{service}'", "f'{domain}.{service}'.lower()"
    if keys == [folded, folded]:
        body.append("def SERVICE_KEY_LOWERCASED : Bool := true")
    elif keys == [written, written]:
        body.append("def SERVICE_KEY_LOWERCASED : Bool := false")
    else:
        broken.append(f"function.Function.service_register/service_remove: `key = ...` shape {keys}")
    # the test that keeps @service off pyscript's own services: on the name as written or on the lower-cased name?
    names = "(SERVICE_RELOAD, SERVICE_JUPYTER_KERNEL_START)"
    const = (SRC / "const.py").read_text()
    if 'SERVICE_JUPYTER_KERNEL_START = "jupyter_kernel_start"' not in const:
        broken.append("const.SERVICE_JUPYTER_KERNEL_START is no longer 'jupyter_kernel_start'")
    for label, tree, var in (("LEGACY", ti, "name"), ("NEW", find_func(dec, "validate", "ServiceDecorator"), "self.args[1]")):
        tests = [] if tree is None else [ast.unparse(n.test) for n in ast.walk(tree) if isinstance(n, ast.If)
                                        and names in ast.unparse(n.test)]
        if tests == [f"{var}.lower() in {names}"]:
            body.append(f"def BUILTIN_TEST_FOLDS_CASE_{label} : Bool := true")
        elif tests == [f"{var} in {names}"]:
            body.append(f"def BUILTIN_TEST_FOLDS_CASE_{label} : Bool := false")
        else:
            broken.append(f"@service built-in name test ({label.lower()}): unknown shape {tests}")
    emit("ServiceTbl", "\n".join(body))


EXTRACTORS = [gen_service_tbl]
