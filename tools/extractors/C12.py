"""C12 extractor: the repair switches of the @service life-cycle model and the tables of the script-side call forms,
read off the source.

Gen/ServiceTbl.lean:
  SERVICE_OWNER_IS_EVALUATOR   ServiceDecorator.start registers under `self.dm.ast_ctx.name` (the evaluator: 'file.x.func';
                               before the fix) or under `self.dm.ast_ctx.global_ctx.get_name()` (the global context)
  LEGACY_SKIPS_DUPLICATE       EvalFunc.trigger_init skips a service name that is already in `self.trigger_service`
  LEGACY_TRACKS_AFTER_REGISTER `self.trigger_service.add(srv_name)` comes after `Function.service_register(...)` in that loop
  SERVICE_KEY_LOWERCASED       service_register and service_remove both build `key = f"{domain}.{service}".lower()`
  BUILTIN_TEST_FOLDS_CASE_LEGACY / _NEW   `if name.lower() in (SERVICE_RELOAD, SERVICE_JUPYTER_KERNEL_START)` in trigger_init /
                               `if self.args[1].lower() in (...)` in ServiceDecorator.validate (before the fix: without .lower())
  LEGACY_KNOWN_TO_CONTEXT_AT_FIRST_REGISTRATION   trigger_init calls trig_ctx.trigger_register(self) inside the registration
                               loop (C12-F11); GlobalContext.stop() stops what is in self.triggers / self.dms
  CONTROL_TABLE_SERVICE_CALL / _DOMAIN_SERVICE / _ENTITY_METHOD   the (keyword, accepted types) rows of the three call forms
                               (Function.service_call, Function.get, State.get) and the shape of the loop that applies them
  ENTITY_METHOD_USES_CALL_HELPER   the entity-method form is finished by Function.hass_services_async_call (C12-F8)
  RESPONSE_LOOKUP_ONLY_IF_SERVICE_EXISTS   hass_services_async_call asks supports_response only after has_service
"""
import ast


def gen_service_tbl():
    body = []
    dec = ast.parse((SRC / "decorators" / "service.py").read_text())
    ev = parse("eval.py")

    start = find_func(dec, "start", "ServiceDecorator")
    owner = None
    if start is not None:
        for c in ast.walk(start):
            if isinstance(c, ast.Call) and ast.unparse(c.func) == "Function.service_register" and c.args:
                a = ast.unparse(c.args[0])
                if a == "self.dm.ast_ctx.name":
                    owner = True
                elif a == "self.dm.ast_ctx.global_ctx.get_name()":
                    owner = False
    if owner is None:
        broken.append("decorators/service.ServiceDecorator.start: Function.service_register(<owner name>, ...) shape")
    else:
        body.append(f"def SERVICE_OWNER_IS_EVALUATOR : Bool := {'true' if owner else 'false'}")

    ti = find_func(ev, "trigger_init", "EvalFunc")
    skip = None
    srv_loop = None
    if ti is not None:
        loops = [n for n in ast.walk(ti) if isinstance(n, ast.For) and isinstance(n.target, ast.Name)
                 and n.target.id == "srv_name"]
        if len(loops) == 1:
            srv_loop = loops[0]
            regs = [c for c in ast.walk(loops[0]) if isinstance(c, ast.Call)
                    and ast.unparse(c.func) == "Function.service_register"]
            adds = [c for c in ast.walk(loops[0]) if isinstance(c, ast.Call)
                    and ast.unparse(c.func) == "self.trigger_service.add"]
            if len(regs) == 1 and len(adds) == 1:
                guards = [n for n in loops[0].body if isinstance(n, ast.If)
                          and ast.unparse(n.test) == "srv_name in self.trigger_service"
                          and any(isinstance(b, ast.Continue) for b in n.body)]
                skip = len(guards) == 1
                # the name is recorded in trigger_service only AFTER a successful service_register (a refused name is
                # not remembered, so the death of the refused function removes nothing)
                after = regs[0].lineno < adds[0].lineno
    if skip is None:
        broken.append("eval.EvalFunc.trigger_init: `for srv_name in ...` registration loop shape")
    else:
        body.append(f"def LEGACY_SKIPS_DUPLICATE : Bool := {'true' if skip else 'false'}")
        body.append(f"def LEGACY_TRACKS_AFTER_REGISTER : Bool := {'true' if after else 'false'}")

    # GlobalContext.start(): are the delayed managers started in definition order (a list `dms_order`) or by iterating
    # the set `dms_delay_start`?
    gc = parse("global_ctx.py")
    gstart = find_func(gc, "start", "GlobalContext")
    order = None
    if gstart is not None:
        loops = [n for n in ast.walk(gstart) if isinstance(n, ast.For)
                 and any(isinstance(c, ast.Call) and ast.unparse(c.func) == "dm.start" for c in ast.walk(n))]
        if len(loops) == 1:
            it = ast.unparse(loops[0].iter)
            if it == "self.dms_delay_start":
                order = False
            elif it == "ordered":
                first = [n for n in gstart.body if isinstance(n, ast.Assign) and ast.unparse(n.targets[0]) == "ordered"]
                cdm = find_func(gc, "create_decorator_manager", "GlobalContext")
                appended = cdm is not None and any(
                    isinstance(c, ast.Call) and ast.unparse(c.func) == "self.dms_order.append" for c in ast.walk(cdm))
                if len(first) == 1 and appended and \
                        ast.unparse(first[0].value) == "[dm for dm in self.dms_order if dm in self.dms_delay_start]":
                    order = True
    if order is None:
        broken.append("global_ctx.GlobalContext.start: the loop creating the dm.start() tasks has an unknown shape")
    else:
        body.append(f"def START_IN_DEFINITION_ORDER : Bool := {'true' if order else 'false'}")

    # FunctionDecoratorManager.on_func_var_deleted: is a manager that was not started yet taken out of the delayed set?
    dm = parse("decorator.py")
    ofd = None
    for n in ast.walk(dm):
        if isinstance(n, ast.FunctionDef) and n.name == "on_func_var_deleted":
            ofd = n
    discard = None
    if ofd is not None:
        running = any(isinstance(t, ast.If) and "DecoratorManagerStatus.RUNNING" in ast.unparse(t.test) for t in ast.walk(ofd))
        if running:
            validated = [t for t in ast.walk(ofd) if isinstance(t, ast.If)
                         and ast.unparse(t.test) == "self.status is DecoratorManagerStatus.VALIDATED"]
            if not validated:
                discard = False
            elif len(validated) == 1:
                calls = [ast.unparse(c.func) for c in ast.walk(validated[0]) if isinstance(c, ast.Call)]
                if "global_ctx.dms_delay_start.discard" in calls and "global_ctx.dms.discard" in calls:
                    discard = True
    if discard is None:
        broken.append("decorator.FunctionDecoratorManager.on_func_var_deleted: shape")
    else:
        body.append(f"def DELETED_BEFORE_START_DISCARDED : Bool := {'true' if discard else 'false'}")
    # Function.service_register / service_remove: is the key of service_cnt / service2global_ctx the lower-cased name
    # (what Home Assistant's registry uses) or the name as written?
    fn = parse("function.py")
    keys = []
    for name in ("service_register", "service_remove"):
        f = find_func(fn, name, "Function")
        assigns = [] if f is None else [n for n in f.body if isinstance(n, ast.Assign) and ast.unparse(n.targets[0]) == "key"]
        keys.append(ast.unparse(assigns[0].value) if len(assigns) == 1 else None)
    written, folded = "f'{domain}.{service}'", "f'{domain}.{service}'.lower()"
    if keys == [folded, folded]:
        body.append("def SERVICE_KEY_LOWERCASED : Bool := true")
    elif keys == [written, written]:
        body.append("def SERVICE_KEY_LOWERCASED : Bool := false")
    else:
        broken.append(f"function.Function.service_register/service_remove: `key = ...` shape {keys}")
    # the test that keeps @service off pyscript's own services: on the name as written or on the lower-cased name?
    names = "(SERVICE_RELOAD, SERVICE_JUPYTER_KERNEL_START)"
    const = (SRC / "const.py").read_text()
    if 'SERVICE_JUPYTER_KERNEL_START = "jupyter_kernel_start"' not in const:
        broken.append("const.SERVICE_JUPYTER_KERNEL_START is no longer 'jupyter_kernel_start'")
    for label, tree, var in (("LEGACY", ti, "name"), ("NEW", find_func(dec, "validate", "ServiceDecorator"), "self.args[1]")):
        tests = [] if tree is None else [ast.unparse(n.test) for n in ast.walk(tree) if isinstance(n, ast.If)
                                        and names in ast.unparse(n.test)]
        if tests == [f"{var}.lower() in {names}"]:
            body.append(f"def BUILTIN_TEST_FOLDS_CASE_{label} : Bool := true")
        elif tests == [f"{var} in {names}"]:
            body.append(f"def BUILTIN_TEST_FOLDS_CASE_{label} : Bool := false")
        else:
            broken.append(f"@service built-in name test ({label.lower()}): unknown shape {tests}")
    # C12-F11: is a legacy function entered in the context's trigger registry with its first registration (inside the
    # `for srv_name` loop, after `self.trigger_service.add`) or only at the end of trigger_init?
    if skip is not None:
        early = [c for c in ast.walk(srv_loop) if isinstance(c, ast.Call)
                 and ast.unparse(c.func) == "trig_ctx.trigger_register" and [ast.unparse(a) for a in c.args] == ["self"]]
        late = [c for c in ast.walk(ti) if isinstance(c, ast.Call) and ast.unparse(c.func) == "trig_ctx.trigger_register"]
        if len(early) == 1 and early[0].lineno > adds[0].lineno and len(late) >= 2:
            body.append("def LEGACY_KNOWN_TO_CONTEXT_AT_FIRST_REGISTRATION : Bool := true")
        elif not early and len(late) >= 1:
            body.append("def LEGACY_KNOWN_TO_CONTEXT_AT_FIRST_REGISTRATION : Bool := false")
        else:
            broken.append("eval.EvalFunc.trigger_init: where trig_ctx.trigger_register(self) is called")
    # and GlobalContext.stop() stops exactly what is in self.triggers / self.dms
    gstop = find_func(gc, "stop", "GlobalContext")
    stops = [] if gstop is None else [(ast.unparse(n.iter), sorted(ast.unparse(c.func) for c in ast.walk(n) if isinstance(c, ast.Call)))
                                      for n in gstop.body if isinstance(n, ast.For)]
    if stops != [("self.triggers", ["func.trigger_stop"]),
                 ("self.dms", ["Function.hass.async_create_task", "dm.stop"])]:
        broken.append(f"global_ctx.GlobalContext.stop: loops {stops}")

    # the three script-side call forms: their control tables (keyword, accepted types), and how the call is finished
    st = parse("state.py")
    forms = {"SERVICE_CALL": find_func(fn, "service_call", "Function"),
             "DOMAIN_SERVICE": find_func(fn, "get", "Function"),
             "ENTITY_METHOD": find_func(st, "get", "State")}
    finish = {}
    for label, f in forms.items():
        rows = None
        loops_ = [] if f is None else [n for n in ast.walk(f) if isinstance(n, ast.For) and isinstance(n.iter, ast.List)
                                        and ast.unparse(n.target) == "(keyword, typ, default)"]
        if len(loops_) == 1:
            rows = []
            for e in loops_[0].iter.elts:
                if isinstance(e, ast.Tuple) and len(e.elts) == 3 and isinstance(e.elts[0], ast.Constant) \
                        and isinstance(e.elts[1], ast.List) and all(isinstance(t, ast.Name) for t in e.elts[1].elts):
                    rows.append((e.elts[0].value, [t.id for t in e.elts[1].elts], ast.unparse(e.elts[2])))
                else:
                    rows = None
                    break
            # the loop body: `if keyword in kwargs and type(kwargs[keyword]) in typ: hass_args[keyword] = kwargs.pop(keyword)
            #                 elif default: hass_args[keyword] = default`
            b = loops_[0].body
            ok = len(b) == 1 and isinstance(b[0], ast.If) \
                and ast.unparse(b[0].test) == "keyword in kwargs and type(kwargs[keyword]) in typ" \
                and [ast.unparse(x) for x in b[0].body] == ["hass_args[keyword] = kwargs.pop(keyword)"] \
                and len(b[0].orelse) == 1 and isinstance(b[0].orelse[0], ast.If) \
                and ast.unparse(b[0].orelse[0].test) == "default" \
                and [ast.unparse(x) for x in b[0].orelse[0].body] == ["hass_args[keyword] = default"]
            if not ok:
                rows = None
        tymap = {"Context": "context", "bool": "bool", "int": "int", "float": "float"}
        if rows is None or any(t not in tymap for _k, ts, _d in rows for t in ts) or \
                any((d != "None") != (k == "context") for k, _ts, d in rows):
            broken.append(f"{label}: the (keyword, typ, default) control table / loop has an unknown shape")
        else:
            body.append(f"def CONTROL_TABLE_{label} : List (String × List String) := [" + ", ".join(
                f"({lean_str(k)}, {lean_list([tymap[t] for t in ts])})" for k, ts, _d in rows) + "]")
        rets = [] if f is None else [ast.unparse(n.value.value.func) for n in ast.walk(f) if isinstance(n, ast.Return)
                                     and isinstance(n.value, ast.Await) and isinstance(n.value.value, ast.Call)]
        finish[label] = rets
    helper = "cls.hass_services_async_call"
    if finish["SERVICE_CALL"] != [helper] or finish["DOMAIN_SERVICE"] != [helper]:
        broken.append(f"function.Function.service_call / get: the call is not finished by {helper}: {finish}")
    if finish["ENTITY_METHOD"] == ["Function.hass_services_async_call"]:
        body.append("def ENTITY_METHOD_USES_CALL_HELPER : Bool := true")
    elif finish["ENTITY_METHOD"] == ["cls.hass.services.async_call"]:
        body.append("def ENTITY_METHOD_USES_CALL_HELPER : Bool := false")
    else:
        broken.append(f"state.State.get: how the entity-method call is finished: {finish['ENTITY_METHOD']}")
    # Function.hass_services_async_call: `if rr given and true and no blocking: blocking = True  elif rr not given and
    # [the service exists and] supports_response(...) == ONLY: rr = True; blocking defaults to True`
    hc = find_func(fn, "hass_services_async_call", "Function")
    shape = None
    if hc is not None:
        ifs = [n for n in hc.body if isinstance(n, ast.If)]
        if len(ifs) == 1 and len(ifs[0].orelse) == 1 and isinstance(ifs[0].orelse[0], ast.If):
            t1 = ast.unparse(ifs[0].test)
            t2v = ifs[0].orelse[0].test
            t2 = [ast.unparse(v) for v in t2v.values] if isinstance(t2v, ast.BoolOp) and isinstance(t2v.op, ast.And) else []
            b1 = [ast.unparse(x) for x in ifs[0].body]
            b2 = [ast.unparse(x) for x in ifs[0].orelse[0].body]
            sup = "cls.hass.services.supports_response(domain, service) == SupportsResponse.ONLY"
            if t1 == "'return_response' in hass_args and hass_args['return_response'] and ('blocking' not in hass_args)" \
                    and b1 == ["hass_args['blocking'] = True"] \
                    and b2 == ["hass_args['return_response'] = True", "if 'blocking' not in hass_args:\n    hass_args['blocking'] = True"] \
                    and not ifs[0].orelse[0].orelse:
                if t2 == ["'return_response' not in hass_args", sup]:
                    shape = False
                elif t2 == ["'return_response' not in hass_args", "cls.hass.services.has_service(domain, service)", sup]:
                    shape = True
    if shape is None:
        broken.append("function.Function.hass_services_async_call: response handling has an unknown shape")
    else:
        body.append(f"def RESPONSE_LOOKUP_ONLY_IF_SERVICE_EXISTS : Bool := {'true' if shape else 'false'}")
    emit("ServiceTbl", "\n".join(body))


EXTRACTORS = [gen_service_tbl]
