"""C16 extractor: tables of state.py / eval.py that the state-variable model is stated over.

Gen/StateTbl.lean:
  STATE_VIRTUAL_ATTRS     the set literal in state.py (sorted)
  STATEVAL_NEW_FIELDS     the fields `new_var.X = state.X` written by StateVal.__new__, in code order
  STATE_CALLABLE_ATTRS    public methods of class StateVal (what the set comprehension computes)
  STATE_SET_PARAMS        positional parameter names of State.set (a keyword of that name binds the parameter)
  STATE_SET_HAS_KWARGS    State.set collects other keywords in **kwargs
  ASSIGN_DOTS_SET / ASSIGN_DOTS_SETATTR   the dot counts recurse_assign routes to State.set / State.setattr
  NAME_LOOKUP_ORDER       the order of the look-ups in AstEval.ast_name (Load context)
"""
import ast


def gen_state_tbl():
    body = []
    st = parse("state.py")
    ev = parse("eval.py")

    v = find_assign(st, "STATE_VIRTUAL_ATTRS")
    xs = str_collection(v) if v is not None else None
    if xs is None:
        broken.append("state.STATE_VIRTUAL_ATTRS: not a literal collection of strings")
    else:
        body.append(f"def STATE_VIRTUAL_ATTRS : List String := {lean_list(sorted(xs))}")

    new = find_func(st, "__new__", "StateVal")
    fields = None
    if new is not None:
        fields = []
        for n in new.body:
            if isinstance(n, ast.Assign) and len(n.targets) == 1 and isinstance(n.targets[0], ast.Attribute) \
                    and isinstance(n.targets[0].value, ast.Name) and n.targets[0].value.id == "new_var" \
                    and n.targets[0].attr != "__dict__":
                fields.append(n.targets[0].attr)
        dict_copy = [n for n in new.body if isinstance(n, ast.Assign) and isinstance(n.targets[0], ast.Attribute)
                     and n.targets[0].attr == "__dict__" and ast.unparse(n.value) == "state.attributes.copy()"]
        if len(dict_copy) != 1:
            broken.append("state.StateVal.__new__: `new_var.__dict__ = state.attributes.copy()` not found")
            fields = None
    if fields is None:
        broken.append("state.StateVal.__new__: shape")
    else:
        body.append(f"def STATEVAL_NEW_FIELDS : List String := {lean_list(fields)}")

    cls = next((n for n in ast.walk(st) if isinstance(n, ast.ClassDef) and n.name == "StateVal"), None)
    ca = find_assign(st, "STATE_CALLABLE_ATTRS")
    if cls is None or ca is None or not isinstance(ca, ast.SetComp) or "StateVal.__dict__" not in ast.unparse(ca):
        broken.append("state.STATE_CALLABLE_ATTRS: not the set comprehension over StateVal.__dict__")
    else:
        meths = sorted(n.name for n in cls.body if isinstance(n, (ast.FunctionDef, ast.AsyncFunctionDef))
                       and not n.name.startswith("_"))
        body.append(f"def STATE_CALLABLE_ATTRS : List String := {lean_list(meths)}")

    fset = find_func(st, "set", "State")
    if fset is None or fset.args.posonlyargs or fset.args.kwonlyargs or fset.args.vararg:
        broken.append("state.State.set: signature shape")
    else:
        body.append(f"def STATE_SET_PARAMS : List String := {lean_list([a.arg for a in fset.args.args])}")
        body.append(f"def STATE_SET_HAS_KWARGS : Bool := {'true' if fset.args.kwarg else 'false'}")

    ra = find_func(ev, "recurse_assign", "AstEval")
    routes = {}
    if ra is not None:
        for n in ast.walk(ra):
            if isinstance(n, ast.If) and isinstance(n.test, ast.Compare) and isinstance(n.test.left, ast.Name) \
                    and n.test.left.id == "dot_count" and len(n.test.ops) == 1 and isinstance(n.test.ops[0], ast.Eq) \
                    and isinstance(n.test.comparators[0], ast.Constant):
                calls = [ast.unparse(c.func) for c in ast.walk(ast.Module(body=n.body, type_ignores=[]))
                         if isinstance(c, ast.Call)]
                for c in calls:
                    if c in ("State.set", "State.setattr"):
                        routes[c] = n.test.comparators[0].value
    if set(routes) != {"State.set", "State.setattr"}:
        broken.append(f"eval.recurse_assign: dot_count routing shape {routes}")
    else:
        body.append(f"def ASSIGN_DOTS_SET : Nat := {routes['State.set']}")
        body.append(f"def ASSIGN_DOTS_SETATTR : Nat := {routes['State.setattr']}")

    an = find_func(ev, "ast_name", "AstEval")
    order = None
    if an is not None and an.body and isinstance(an.body[-2] if len(an.body) > 1 else None, ast.If):
        load = an.body[-2]
        if ast.unparse(load.test) == "isinstance(arg.ctx, ast.Load)":
            order = []
            for n in load.body:
                if not isinstance(n, ast.If):
                    continue
                t = ast.unparse(n.test)
                if t == "self.curr_func and arg.id in self.curr_func.global_names":
                    order.append("global_decl")
                elif t == "arg.id in self.sym_table":
                    order.append("sym_table")
                elif t.startswith("self.curr_func_sym_table is not None and self.sym_table is not self.curr_func_sym_table"):
                    order.append("enclosing_func")     # a class body inside a function sees that function's variables
                elif t == "arg.id in self.local_sym_table":
                    order.append("local_sym_table")
                elif t == "arg.id in self.global_sym_table":
                    order.append("global_sym_table")
                elif t == "arg.id in BUILTIN_AST_FUNCS_FACTORY":
                    order.append("builtin_ast")
                elif t.startswith("hasattr(builtins, arg.id)"):
                    order.append("builtins")
                elif t == "Function.get(arg.id)":
                    order.append("function")
                elif "State.exist(arg.id)" in t and "num_dots == 1" in t and "num_dots == 2" in t:
                    order.append("state")
                else:
                    broken.append(f"eval.ast_name: unrecognised look-up `{t[:60]}`")
                    order = None
                    break
    if order is None:
        broken.append("eval.ast_name: Load-context look-up chain shape")
    else:
        body.append(f"def NAME_LOOKUP_ORDER : List String := {lean_list(order)}")

    # ast_delete: does the attribute branch check that the head is undefined?  (check_undef=False today)
    ad = find_func(ev, "ast_delete", "AstEval")
    flag = None
    if ad is not None:
        for c in ast.walk(ad):
            if isinstance(c, ast.Call) and ast.unparse(c.func) == "self.ast_attribute_collapse":
                kws = {k.arg: k.value for k in c.keywords}
                if "check_undef" in kws and isinstance(kws["check_undef"], ast.Constant):
                    flag = bool(kws["check_undef"].value)
                elif not kws:
                    flag = True
    if flag is None:
        broken.append("eval.ast_delete: ast_attribute_collapse(check_undef=...) call shape")
    else:
        body.append(f"def DELETE_CHECKS_HEAD : Bool := {'true' if flag else 'false'}")
        # when the head is a python object: `delattr(obj, attr)` (after the fix) or `raise NameError` (before)
        has_delattr = any(isinstance(c, ast.Call) and isinstance(c.func, ast.Name) and c.func.id == "delattr"
                          for c in ast.walk(ad))
        body.append(f"def DELETE_DELATTR : Bool := {'true' if has_delattr else 'false'}")

    # recurse_assign: what `DOMAIN.name = None` hands to State.set – `val` (None = "omitted") or the string "None"
    none_flag = None
    if ra is not None:
        for c in ast.walk(ra):
            if isinstance(c, ast.Call) and ast.unparse(c.func) == "State.set" and len(c.args) == 2 and not c.keywords:
                a = c.args[1]
                if isinstance(a, ast.Name) and a.id == "val":
                    none_flag = False
                elif isinstance(a, ast.IfExp) and ast.unparse(a.test) == "val is None" \
                        and isinstance(a.body, ast.Constant) and a.body.value == "None" \
                        and isinstance(a.orelse, ast.Name) and a.orelse.id == "val":
                    none_flag = True
    if none_flag is None:
        broken.append("eval.recurse_assign: State.set(var_name, <val>) argument shape")
    else:
        body.append(f"def ASSIGN_NONE_AS_STRING : Bool := {'true' if none_flag else 'false'}")

    # State.setattr: `cls.set(name, **{attr: value})` (keyword expansion) or an explicit attribute dictionary
    sa = find_func(st, "setattr", "State")
    dict_flag = None
    if sa is not None:
        calls = [c for c in ast.walk(sa) if isinstance(c, ast.Call) and ast.unparse(c.func) == "cls.set"]
        if len(calls) == 1 and len(calls[0].args) == 1:
            kws = calls[0].keywords
            if len(kws) == 1 and kws[0].arg is None and isinstance(kws[0].value, ast.Dict) and len(kws[0].value.keys) == 1:
                dict_flag = False
            elif len(kws) == 1 and kws[0].arg == "new_attributes" and isinstance(kws[0].value, ast.Name):
                dname = kws[0].value.id
                copied = any(isinstance(n, ast.Assign) and ast.unparse(n.targets[0]) == dname
                             and ast.unparse(n.value).endswith(".attributes.copy()") for n in ast.walk(sa))
                stored = any(isinstance(n, ast.Assign) and ast.unparse(n.targets[0]) == f"{dname}[parts[2]]"
                             and ast.unparse(n.value) == "value" for n in ast.walk(sa))
                if copied and stored:
                    dict_flag = True
    if dict_flag is None:
        broken.append("state.State.setattr: cls.set(...) call shape")
    else:
        body.append(f"def SETATTR_EXPLICIT_DICT : Bool := {'true' if dict_flag else 'false'}")

    emit("StateTbl", "\n".join(body))


EXTRACTORS = [gen_state_tbl]
