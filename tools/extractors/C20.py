"""C20 extractor: the shape of requirements.py -> lean/PsModel/Gen/ReqTbl.lean (regenerated on every run).

What is read off `process_all_requirements` (the line loop):
  REQ_STRIP_BOM            open(..., encoding="utf-8-sig") (True) / "utf-8" (False)
  REQ_COMMENT_MARK         the one character after which a line is cut (`i = L.find("#"); if i >= 0: L = L[:i]`, or
                           `L.partition("#")[0]` / `L.split("#", 1)[0]`)
  REQ_STRIP_AFTER_COMMENT  the cut text is `.strip()`ped before anything looks at it
  REQ_SKIP_BLANK           `if not L [or len(L) == 0]: continue`
  REQ_PIN_SEP              the two characters of `parts = L.split("==")`
  REQ_MAX_PARTS            N of `len(parts) > N` in the rejection test
  REQ_SPEC_PATS            the substrings of `any(spec in L for spec in (...))` in the rejection test - which must look at
                           the SAME text that was split (the stripped, comment-free body), otherwise the shape is unknown
  REQ_NAME_CHECK           the rejection test also refuses a name (`parts[0]`) that is not a PEP 508 distribution name
                           (`not VALID_PACKAGE_NAME.fullmatch(parts[0])` with the regular expression checked literally)
  REQ_VALIDATE_FIRST_PIN   `Version(new_version)` is evaluated right after `new_version = parts[1]`, before the case split
  REQ_NORMALISE_NAMES      `pkg_name = canonical_name(parts[0])` (PEP 503 normal form) instead of `parts[0]`
  REQ_MERGE_ROWS           the if / elif chain on the recorded and the new version, in source order: (test, effect)
What is read off `install_requirements`:
  REQ_OPTIN_GUARD          `if all_requirements and not config_entry.data.get(CONF_ALLOW_ALL_IMPORTS, False): ... return`
                           stands before the decision loop
  REQ_DECIDE_ROWS          the decision for one package, flattened in evaluation order: (test, effect)
  REQ_TOLERANT_COMPARE     versions are compared through `same_version(a, b)` (text equality, else Version equality, a
                           string that is not a version only equals itself) instead of `Version(a) != Version(b)`
  REQ_RECORD_KEYS_NORMALISED   the record is read through `{canonical_name(k): v for k, v in ....items()}`
  REQ_RECORDS_PARTIAL_INSTALL  the installer call is wrapped so that what WAS installed is recorded before the
                           RequirementsNotFound is raised again

Renaming locals, re-wrapping lines and changing log texts does not matter; a test or an effect that is not in the
vocabulary below withholds the definition (TIE-BROKEN).
"""
import ast

PEP508_NAME = r"[A-Za-z0-9]([A-Za-z0-9._-]*[A-Za-z0-9])?"
PEP503_SUB = ("[-_.]+", "-")


class _Rename(ast.NodeTransformer):
    def __init__(self, mapping):
        self.mapping = mapping

    def visit_Name(self, node):
        return ast.copy_location(ast.Name(id=self.mapping.get(node.id, node.id), ctx=node.ctx), node)


def _norm(node, mapping):
    """source text of an expression with the interesting locals renamed to fixed tags"""
    import copy
    return ast.unparse(_Rename(mapping).visit(copy.deepcopy(node)))


def _is_log(stmt):
    return isinstance(stmt, ast.Expr) and isinstance(stmt.value, ast.Call) and \
        ast.unparse(stmt.value.func).startswith("_LOGGER.")


def _only_logs(stmts):
    return all(_is_log(s) or isinstance(s, ast.Pass) for s in stmts)


def _chain(node):
    """[(test, body), ...] + else body of an if / elif chain"""
    rows = []
    while True:
        rows.append((node.test, node.body))
        if len(node.orelse) == 1 and isinstance(node.orelse[0], ast.If):
            node = node.orelse[0]
        else:
            return rows, node.orelse


def _lean_bool(b):
    return "true" if b else "false"


def _lean_char(c):
    return "'" + {"'": "\\'", "\\": "\\\\"}.get(c, c) + "'"


MERGE_TESTS = {
    "not CUR": "unset",
    "NEW == UNP and CUR != UNP": "newUnpCurPin",
    "NEW != UNP and CUR == UNP": "newPinCurUnp",
    "NEW == UNP and CUR == UNP or Version(CUR) == Version(NEW)": "bothUnpOrVerEq",
    "Version(CUR) == Version(NEW) or (NEW == UNP and CUR == UNP)": None,   # would raise on the sentinel: not accepted
    "Version(CUR) < Version(NEW)": "curLtNew",
    "Version(NEW) > Version(CUR)": "curLtNew",
    "Version(CUR) > Version(NEW)": "curGtNew",
    "Version(NEW) < Version(CUR)": "curGtNew",
}

TYPES = """inductive ReqCond where
  | unset | newUnpCurPin | newPinCurUnp | bothUnpOrVerEq | curLtNew | curGtNew
deriving DecidableEq, Repr
inductive ReqAct where
  | record | keep | addSource | bump
deriving DecidableEq, Repr
inductive HostCond where
  | notInstalled | unpinnedRecTextDiffers | unpinned | recVersionDiffers | recAndWantDiffers | otherwise
deriving DecidableEq, Repr
inductive HostAct where
  | install | pop | nothing
deriving DecidableEq, Repr"""


def _merge_effect(body, m):
    """what one branch of the case split does to the table"""
    rest = [s for s in body if not _is_log(s) and not isinstance(s, ast.Pass)]
    if not rest:
        return "keep"
    if len(rest) != 1:
        return None
    s = rest[0]
    if isinstance(s, ast.Assign) and len(s.targets) == 1 and _norm(s.targets[0], m) == "TABLE[NAME]" \
            and isinstance(s.value, ast.Dict):
        d = {_norm(k, m): _norm(v, m) for k, v in zip(s.value.keys, s.value.values)}
        if d == {"ATTR_VERSION": "NEW", "ATTR_SOURCES": "[PATH]", "ATTR_INSTALLED_VERSION": "get_installed_version(NAME)"}:
            return "record"
        return None
    if isinstance(s, ast.Expr) and isinstance(s.value, ast.Call):
        t = _norm(s.value, m)
        if t == "TABLE[NAME][ATTR_SOURCES].append(PATH)":
            return "addSource"
        if t in ("TABLE[NAME].update({ATTR_VERSION: NEW, ATTR_SOURCES: [PATH]})",
                 "TABLE[NAME].update({ATTR_SOURCES: [PATH], ATTR_VERSION: NEW})"):
            return "bump"
    return None


def _gen_process(fn, body, tree):
    # ---- how the files are opened
    opens = [c for c in ast.walk(fn) if isinstance(c, ast.Call) and ast.unparse(c.func) == "open"]
    enc = [k.value.value for c in opens for k in c.keywords if k.arg == "encoding" and isinstance(k.value, ast.Constant)]
    if len(opens) == 1 and len(enc) == 1 and isinstance(enc[0], str) and enc[0].lower().replace("_", "-") in ("utf-8-sig", "utf-8", "utf8"):
        body.append(f"def REQ_STRIP_BOM : Bool := {_lean_bool(enc[0].lower().replace('_', '-') == 'utf-8-sig')}")
    else:
        broken.append("requirements.process_all_requirements: open(..., encoding=<'utf-8' | 'utf-8-sig'>) shape")  # noqa: F821

    # ---- the line loop: the `for` whose body holds the one `try`
    tries = [n for n in ast.walk(fn) if isinstance(n, ast.Try)]
    loops = [n for n in ast.walk(fn) if isinstance(n, ast.For) and any(isinstance(s, ast.Try) for s in n.body)]
    if len(tries) != 1 or len(loops) != 1 or not isinstance(loops[0].target, ast.Name):
        broken.append("requirements.process_all_requirements: the line loop (one `for` holding one `try`) was not found")  # noqa: F821
        return
    loop, tr = loops[0], tries[0]
    outer = [n for n in ast.walk(fn) if isinstance(n, ast.For) and loop in n.body]
    path_var = None
    if len(outer) == 1 and isinstance(outer[0].target, ast.Tuple) and len(outer[0].target.elts) == 2:
        path_var = outer[0].target.elts[0].id
    raw = loop.target.id            # the raw line
    cur_txt = raw                   # name of the variable holding the text as processed so far
    mark = strip = skip = None
    pre = loop.body[:loop.body.index(tr)]
    i = 0
    ok = True
    while i < len(pre):
        s = pre[i]
        u = ast.unparse(s)
        # i = L.find("#") ; if i >= 0: L = L[:i]
        if isinstance(s, ast.Assign) and isinstance(s.value, ast.Call) and isinstance(s.value.func, ast.Attribute) \
                and s.value.func.attr == "find" and ast.unparse(s.value.func.value) == cur_txt and len(s.value.args) == 1 \
                and isinstance(s.value.args[0], ast.Constant) and i + 1 < len(pre) and isinstance(pre[i + 1], ast.If):
            iv = ast.unparse(s.targets[0])
            nxt = pre[i + 1]
            if ast.unparse(nxt.test) == f"{iv} >= 0" and len(nxt.body) == 1 and not nxt.orelse \
                    and ast.unparse(nxt.body[0]) == f"{cur_txt} = {cur_txt}[:{iv}]" and mark is None and strip is None:
                mark = s.value.args[0].value
                i += 2
                continue
            ok = False
            break
        # X = L.partition("#")[0][.strip()]   /   X = L.split("#", 1)[0][.strip()]
        if isinstance(s, ast.Assign) and len(s.targets) == 1 and isinstance(s.targets[0], ast.Name) and mark is None:
            v = s.value
            stripped = False
            if isinstance(v, ast.Call) and isinstance(v.func, ast.Attribute) and v.func.attr == "strip" and not v.args:
                v, stripped = v.func.value, True
            if isinstance(v, ast.Subscript) and ast.unparse(v.slice) == "0" and isinstance(v.value, ast.Call) \
                    and isinstance(v.value.func, ast.Attribute) and ast.unparse(v.value.func.value) == cur_txt \
                    and v.value.args and isinstance(v.value.args[0], ast.Constant) \
                    and (v.value.func.attr == "partition" and len(v.value.args) == 1
                         or v.value.func.attr == "split" and len(v.value.args) == 2 and ast.unparse(v.value.args[1]) == "1"):
                mark = v.value.args[0].value
                cur_txt = s.targets[0].id
                if stripped:
                    strip = True
                i += 1
                continue
        if isinstance(s, ast.Assign) and u in (f"{cur_txt} = {cur_txt}.strip()",) and strip is None and skip is None:
            strip = True
            i += 1
            continue
        if isinstance(s, ast.If) and ast.unparse(s.test) in (f"not {cur_txt}", f"not {cur_txt} or len({cur_txt}) == 0",
                                                            f"len({cur_txt}) == 0", f"{cur_txt} == ''") \
                and len(s.body) == 1 and isinstance(s.body[0], ast.Continue) and not s.orelse and skip is None:
            skip = True
            i += 1
            continue
        ok = False
        break
    if not ok or not isinstance(mark, str) or len(mark) != 1:
        broken.append("requirements.process_all_requirements: comment cut / strip / blank-skip statements before the try: unknown shape")  # noqa: F821
    else:
        body.append(f"def REQ_COMMENT_MARK : Char := {_lean_char(mark)}")
        body.append(f"def REQ_STRIP_AFTER_COMMENT : Bool := {_lean_bool(bool(strip))}")
        body.append(f"def REQ_SKIP_BLANK : Bool := {_lean_bool(bool(skip))}")
    txt = cur_txt

    # ---- the only handler must be `except ValueError` doing nothing but logging (this is what makes a failing
    #      Version() skip the line)
    if not (len(tr.handlers) == 1 and tr.handlers[0].type is not None and ast.unparse(tr.handlers[0].type) == "ValueError"
            and _only_logs(tr.handlers[0].body) and not tr.orelse and not tr.finalbody):
        broken.append("requirements.process_all_requirements: `except ValueError:` (logging only) around the line handling")  # noqa: F821
        return

    # ---- inside the try
    stmts = list(tr.body)
    # parts = L.split("==")
    if not (stmts and isinstance(stmts[0], ast.Assign) and isinstance(stmts[0].value, ast.Call)
            and isinstance(stmts[0].value.func, ast.Attribute) and stmts[0].value.func.attr == "split"
            and ast.unparse(stmts[0].value.func.value) == txt and len(stmts[0].value.args) == 1
            and isinstance(stmts[0].value.args[0], ast.Constant) and isinstance(stmts[0].value.args[0].value, str)
            and len(stmts[0].value.args[0].value) == 2 and isinstance(stmts[0].targets[0], ast.Name)):
        broken.append("requirements.process_all_requirements: `parts = <line>.split(<two characters>)` shape")  # noqa: F821
        return
    parts = stmts[0].targets[0].id
    sep = stmts[0].value.args[0].value
    body.append(f"def REQ_PIN_SEP : Char × Char := ({_lean_char(sep[0])}, {_lean_char(sep[1])})")
    # the rejection test
    rej = stmts[1] if len(stmts) > 1 else None
    good = isinstance(rej, ast.If) and not rej.orelse and rej.body and isinstance(rej.body[-1], ast.Continue) \
        and _only_logs(rej.body[:-1]) and isinstance(rej.test, ast.BoolOp) and isinstance(rej.test.op, ast.Or)
    maxparts = pats = None
    name_check = False
    if good:
        for op in rej.test.values:
            u = ast.unparse(op)
            if isinstance(op, ast.Compare) and ast.unparse(op.left) == f"len({parts})" and len(op.ops) == 1 \
                    and isinstance(op.ops[0], ast.Gt) and isinstance(op.comparators[0], ast.Constant) and maxparts is None:
                maxparts = op.comparators[0].value
            elif isinstance(op, ast.Call) and ast.unparse(op.func) == "any" and len(op.args) == 1 \
                    and isinstance(op.args[0], ast.GeneratorExp) and len(op.args[0].generators) == 1 and pats is None:
                g = op.args[0].generators[0]
                e = op.args[0].elt
                xs = str_collection(g.iter)  # noqa: F821
                if xs is not None and not g.ifs and isinstance(g.target, ast.Name) and isinstance(e, ast.Compare) \
                        and len(e.ops) == 1 and isinstance(e.ops[0], ast.In) and ast.unparse(e.left) == g.target.id \
                        and ast.unparse(e.comparators[0]) == txt and all(xs):
                    pats = xs
                else:
                    good = False
            elif u == f"not VALID_PACKAGE_NAME.fullmatch({parts}[0])" and not name_check:
                rx = find_assign(tree, "VALID_PACKAGE_NAME")  # noqa: F821
                if isinstance(rx, ast.Call) and ast.unparse(rx.func) == "re.compile" and len(rx.args) == 1 and not rx.keywords \
                        and isinstance(rx.args[0], ast.Constant) and rx.args[0].value == PEP508_NAME:
                    name_check = True
                else:
                    good = False
            else:
                good = False
    if not good or not isinstance(maxparts, int) or maxparts < 1 or pats is None:
        broken.append("requirements.process_all_requirements: the rejection test `len(parts) > N or any(spec in <the split text> "  # noqa: F821
                      "for spec in (...)) [or not VALID_PACKAGE_NAME.fullmatch(parts[0])]` ... continue: unknown shape")
        return
    body.append(f"def REQ_MAX_PARTS : Nat := {maxparts}")
    body.append(f"def REQ_SPEC_PATS : List String := {lean_list(pats)}")  # noqa: F821
    body.append(f"def REQ_NAME_CHECK : Bool := {_lean_bool(name_check)}")
    # new_version
    sel = stmts[2] if len(stmts) > 2 else None
    validate = None
    newv = None
    if isinstance(sel, ast.If) and ast.unparse(sel.test) == f"len({parts}) == 1" and len(sel.body) == 1 \
            and isinstance(sel.body[0], ast.Assign) and ast.unparse(sel.body[0].value) == "UNPINNED_VERSION" \
            and sel.orelse and isinstance(sel.orelse[0], ast.Assign) \
            and ast.unparse(sel.orelse[0].targets[0]) == ast.unparse(sel.body[0].targets[0]) \
            and ast.unparse(sel.orelse[0].value) == f"{parts}[1]":
        newv = ast.unparse(sel.body[0].targets[0])
        tail = sel.orelse[1:]
        if not tail:
            validate = False
        elif len(tail) == 1 and ast.unparse(tail[0]) == f"Version({newv})":
            validate = True
    if validate is None:
        broken.append("requirements.process_all_requirements: `if len(parts) == 1: new = UNPINNED_VERSION else: new = parts[1]"  # noqa: F821
                      " [; Version(new)]` shape")
        return
    body.append(f"def REQ_VALIDATE_FIRST_PIN : Bool := {_lean_bool(validate)}")
    # pkg_name
    nm = stmts[3] if len(stmts) > 3 else None
    name_var = None
    if isinstance(nm, ast.Assign) and isinstance(nm.targets[0], ast.Name):
        u = ast.unparse(nm.value)
        if u == f"{parts}[0]":
            name_var, normalise = nm.targets[0].id, False
        elif u == f"canonical_name({parts}[0])" and _canonical_name_ok(tree):
            name_var, normalise = nm.targets[0].id, True
    if name_var is None:
        broken.append("requirements.process_all_requirements: `pkg_name = parts[0]` / `canonical_name(parts[0])` shape")  # noqa: F821
        return
    body.append(f"def REQ_NORMALISE_NAMES : Bool := {_lean_bool(normalise)}")
    # current_pinned_version = TABLE.get(pkg_name, {}).get(ATTR_VERSION); the case split
    cur_var = table_var = None
    chain = None
    for s in stmts[4:]:
        if isinstance(s, ast.Assign) and isinstance(s.targets[0], ast.Name) and isinstance(s.value, ast.Call):
            u = ast.unparse(s.value)
            if u.endswith(f".get({name_var}, {{}}).get(ATTR_VERSION)"):
                cur_var, table_var = s.targets[0].id, u[: -len(f".get({name_var}, {{}}).get(ATTR_VERSION)")]
                continue
            if u.endswith(f".get({name_var}, {{}}).get(ATTR_SOURCES, [])"):
                continue
        if isinstance(s, ast.If) and chain is None and cur_var is not None:
            chain = s
            continue
        chain = False
        break
    if not chain:
        broken.append("requirements.process_all_requirements: the statements between `pkg_name = ...` and the case split")  # noqa: F821
        return
    m = {newv: "NEW", cur_var: "CUR", "UNPINNED_VERSION": "UNP", name_var: "NAME", table_var: "TABLE"}
    if path_var:
        m[path_var] = "PATH"
    rows, els = _chain(chain)
    out = []
    for test, blk in rows:
        cond = MERGE_TESTS.get(_norm(test, m))
        eff = _merge_effect(blk, m)
        if cond is None or eff is None:
            broken.append(f"requirements.process_all_requirements: case split branch `{ast.unparse(test)}`: unknown test or effect")  # noqa: F821
            return
        out.append(f"(.{cond}, .{eff})")
    if els and not _only_logs(els):
        broken.append("requirements.process_all_requirements: the final else of the case split does something")  # noqa: F821
        return
    body.append(f"def REQ_MERGE_ROWS : List (ReqCond × ReqAct) := [{', '.join(out)}]")


def _canonical_name_ok(tree):
    """def canonical_name(name): return re.sub(r"[-_.]+", "-", name).lower()"""
    f = find_func(tree, "canonical_name")  # noqa: F821
    if f is None or len(f.args.args) != 1:
        return False
    a = f.args.args[0].arg
    stmts = [s for s in f.body if not (isinstance(s, ast.Expr) and isinstance(s.value, ast.Constant))]
    return len(stmts) == 1 and isinstance(stmts[0], ast.Return) and \
        ast.unparse(stmts[0].value) == f"re.sub({PEP503_SUB[0]!r}, {PEP503_SUB[1]!r}, {a}).lower()"


def _same_version_ok(tree):
    """def same_version(a, b): if a == b: return True; try: return Version(a) == Version(b) except InvalidVersion: return False"""
    f = find_func(tree, "same_version")  # noqa: F821
    if f is None or len(f.args.args) != 2:
        return False
    a, b = (x.arg for x in f.args.args)
    stmts = [s for s in f.body if not (isinstance(s, ast.Expr) and isinstance(s.value, ast.Constant))
             and not isinstance(s, (ast.Import, ast.ImportFrom))]
    if len(stmts) != 2 or not isinstance(stmts[0], ast.If) or not isinstance(stmts[1], ast.Try):
        return False
    i, t = stmts
    return ast.unparse(i.test) == f"{a} == {b}" and len(i.body) == 1 and ast.unparse(i.body[0]) == "return True" \
        and not i.orelse and len(t.body) == 1 and ast.unparse(t.body[0]) == f"return Version({a}) == Version({b})" \
        and len(t.handlers) == 1 and t.handlers[0].type is not None \
        and ast.unparse(t.handlers[0].type) in ("InvalidVersion", "ValueError") \
        and [ast.unparse(s) for s in t.handlers[0].body if not _is_log(s)] == ["return False"] \
        and not t.orelse and not t.finalbody


def _gen_install(fn, body, tree):
    # the record
    rec = None
    rec_norm = None
    for s in fn.body:
        if isinstance(s, ast.Assign) and isinstance(s.targets[0], ast.Name):
            u = ast.unparse(s.value)
            if u == "config_entry.data.get(CONF_INSTALLED_PACKAGES, {}).copy()":
                rec, rec_norm = s.targets[0].id, False
            elif isinstance(s.value, ast.DictComp) and len(s.value.generators) == 1 and _canonical_name_ok(tree):
                g = s.value.generators[0]
                if ast.unparse(g.iter) == "config_entry.data.get(CONF_INSTALLED_PACKAGES, {}).items()" and not g.ifs \
                        and isinstance(g.target, ast.Tuple) and len(g.target.elts) == 2 \
                        and ast.unparse(s.value.key) == f"canonical_name({ast.unparse(g.target.elts[0])})" \
                        and ast.unparse(s.value.value) == ast.unparse(g.target.elts[1]):
                    rec, rec_norm = s.targets[0].id, True
            if rec:
                break
    if rec is None:
        broken.append("requirements.install_requirements: how the record is read from the config entry")  # noqa: F821
        return
    body.append(f"def REQ_RECORD_KEYS_NORMALISED : Bool := {_lean_bool(rec_norm)}")
    loops = [s for s in fn.body if isinstance(s, ast.For) and isinstance(s.target, ast.Name)
             and isinstance(s.iter, ast.Name)]
    if len(loops) != 1:
        broken.append("requirements.install_requirements: the decision loop `for package in all_requirements`")  # noqa: F821
        return
    loop = loops[0]
    allreq, pkg = loop.iter.id, loop.target.id
    # opt-in guard before the loop
    guard = False
    for s in fn.body[:fn.body.index(loop)]:
        if isinstance(s, ast.If) and ast.unparse(s.test) == f"{allreq} and (not config_entry.data.get(CONF_ALLOW_ALL_IMPORTS, False))" \
                and s.body and isinstance(s.body[-1], ast.Return) and s.body[-1].value is None and _only_logs(s.body[:-1]) \
                and not s.orelse:
            guard = True
    body.append(f"def REQ_OPTIN_GUARD : Bool := {_lean_bool(guard)}")
    # locals of the loop body
    inst = want = toinst = None
    rest = []
    for s in loop.body:
        if isinstance(s, ast.Assign) and isinstance(s.targets[0], ast.Name):
            u = ast.unparse(s.value)
            if u == f"{allreq}[{pkg}].get(ATTR_INSTALLED_VERSION)" or u == f"{allreq}[{pkg}][ATTR_INSTALLED_VERSION]":
                inst = s.targets[0].id
                continue
            if u == f"{allreq}[{pkg}][ATTR_VERSION]":
                want = s.targets[0].id
                continue
            if u == f"{allreq}[{pkg}][ATTR_SOURCES]":
                continue
        rest.append(s)
    if inst is None or want is None or len(rest) != 1 or not isinstance(rest[0], ast.If) or ast.unparse(rest[0].test) != inst:
        broken.append("requirements.install_requirements: loop body `if pkg_installed_version: ... else: ...` shape")  # noqa: F821
        return
    top = rest[0]
    m = {inst: "INST", want: "WANT", rec: "REC", pkg: "PKG", allreq: "ALL", "UNPINNED_VERSION": "UNP"}

    def effect(blk):
        r = [s for s in blk if not _is_log(s) and not isinstance(s, ast.Pass)]
        if not r:
            return "nothing"
        if len(r) == 1:
            u = _norm(r[0], m)
            if u == "REC.pop(PKG)":
                return "pop"
            if isinstance(r[0], ast.Assign) and u.endswith("[PKG] = ALL[PKG]"):
                return "install"
        return None

    rows = []
    tolerant = []
    okk = effect(top.orelse) == "install"
    rows.append("(.notInstalled, .install)")
    blk = [s for s in top.body if not _is_log(s)]
    # if WANT == UNP: [if PKG in REC and REC[PKG] != INST: pop]; continue
    if okk and blk and isinstance(blk[0], ast.If) and _norm(blk[0].test, m) == "WANT == UNP" and not blk[0].orelse:
        ub = [s for s in blk[0].body if not _is_log(s)]
        if ub and isinstance(ub[-1], ast.Continue):
            for s in ub[:-1]:
                if isinstance(s, ast.If) and _norm(s.test, m) == "PKG in REC and REC[PKG] != INST" and effect(s.body) == "pop" \
                        and not s.orelse:
                    rows.append("(.unpinnedRecTextDiffers, .pop)")
                else:
                    okk = False
            rows.append("(.unpinned, .nothing)")
        else:
            okk = False
        blk = blk[1:]
    if okk and len(blk) == 1 and isinstance(blk[0], ast.If):
        chain, els = _chain(blk[0])
        for test, b in chain:
            t = _norm(test, m)
            e = effect(b)
            tab = {"PKG in REC and Version(REC[PKG]) != Version(INST)": ("recVersionDiffers", False),
                   "PKG in REC and (not same_version(REC[PKG], INST))": ("recVersionDiffers", True),
                   "PKG in REC and Version(WANT) != Version(INST)": ("recAndWantDiffers", False),
                   "PKG in REC and (not same_version(WANT, INST))": ("recAndWantDiffers", True)}
            if t in tab and e in ("pop", "install", "nothing"):
                rows.append(f"(.{tab[t][0]}, .{e})")
                tolerant.append(tab[t][1])
            else:
                okk = False
        if effect(els) is None:
            okk = False
        else:
            rows.append(f"(.otherwise, .{effect(els)})")
    else:
        okk = False
    if not okk or len(set(tolerant)) > 1 or (tolerant and tolerant[0] and not _same_version_ok(tree)):
        broken.append("requirements.install_requirements: the per-package decision (installed? unpinned? recorded and "  # noqa: F821
                      "different?) has an unknown shape")
        return
    body.append(f"def REQ_DECIDE_ROWS : List (HostCond × HostAct) := [{', '.join(rows)}]")
    body.append(f"def REQ_TOLERANT_COMPARE : Bool := {_lean_bool(bool(tolerant) and tolerant[0])}")
    # is the installer call wrapped so that a partial installation is recorded before the failure is reported?
    calls = [n for n in ast.walk(fn) if isinstance(n, ast.Await) and isinstance(n.value, ast.Call)
             and ast.unparse(n.value.func) == "async_process_requirements" and "packaging" not in ast.unparse(n.value)]
    partial = None
    if len(calls) == 1:
        wrapped = [t for t in ast.walk(fn) if isinstance(t, ast.Try) and any(calls[0] is x for s in t.body for x in ast.walk(s))
                   and "packaging" not in ast.unparse(t)]
        if not wrapped:
            partial = False
        elif len(wrapped) == 1 and len(wrapped[0].handlers) == 1 and wrapped[0].handlers[0].type is not None \
                and ast.unparse(wrapped[0].handlers[0].type) == "RequirementsNotFound":
            h = wrapped[0].handlers[0]
            keeps = [s for s in h.body if isinstance(s, ast.Assign) and isinstance(s.value, ast.DictComp)
                     and "was_installed(" in ast.unparse(s.value)]
            later = [s for s in fn.body if isinstance(s, ast.If) and any(isinstance(x, ast.Raise) for x in s.body)]
            if len(keeps) == 1 and h.name and later and ast.unparse(later[-1].body[-1]) in (f"raise {_err_var(h)}",) \
                    and fn.body.index(later[-1]) == len(fn.body) - 1 and find_func(tree, "was_installed") is not None:  # noqa: F821
                partial = True
    if partial is None:
        broken.append("requirements.install_requirements: the installer call / its RequirementsNotFound handling has an unknown shape")  # noqa: F821
        return
    body.append(f"def REQ_RECORDS_PARTIAL_INSTALL : Bool := {_lean_bool(partial)}")


def _err_var(handler):
    """the variable the handler stores the exception in (`install_error = exc`)"""
    for s in handler.body:
        if isinstance(s, ast.Assign) and isinstance(s.value, ast.Name) and s.value.id == handler.name:
            return ast.unparse(s.targets[0])
    return handler.name


def gen_req_tbl():
    tree = parse("requirements.py")  # noqa: F821
    body = [TYPES]
    try:
        proc = find_func(tree, "process_all_requirements")  # noqa: F821
        inst = find_func(tree, "install_requirements")  # noqa: F821
        if proc is None:
            broken.append("requirements.process_all_requirements not found")  # noqa: F821
        else:
            _gen_process(proc, body, tree)
        if inst is None:
            broken.append("requirements.install_requirements not found")  # noqa: F821
        else:
            _gen_install(inst, body, tree)
    finally:
        emit("ReqTbl", "\n".join(body))  # noqa: F821


EXTRACTORS = [gen_req_tbl]
