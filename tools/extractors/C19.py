"""C19 extractor: where the kernel's replies and broadcasts take their parent header from.

Gen/KernelTbl.lean:
  SHELL_SENDS_EXPLICIT_PARENT   every `self.send(...)` inside Kernel.shell_handler passes `parent_header=msg["header"]`
                                (the header of the request being handled, a local of that handler instance) and
                                Kernel.send itself never falls back to the shared attribute `self.parent_header`
  SHELL_SEND_SITES              number of send sites found in shell_handler
  SEND_MULTIPART_ONE_WRITE      ZmqSocket.send_multipart hands the whole message to the transport in ONE write (a single
                                awaited `self.write_bytes(...)` after the loop over the parts, none inside it), so another task
                                sending on the same socket cannot get its frames in between
"""
import ast


def gen_kernel_tbl():
    body = []
    jk = parse("jupyter_kernel.py")
    sh = find_func(jk, "shell_handler", "Kernel")
    snd = find_func(jk, "send", "Kernel")
    if sh is None or snd is None:
        broken.append("jupyter_kernel.Kernel.shell_handler / send not found")
        emit("KernelTbl", "\n".join(body))
        return
    sites = [c for c in ast.walk(sh) if isinstance(c, ast.Call) and ast.unparse(c.func) == "self.send"]
    explicit = [c for c in sites if any(k.arg == "parent_header" and ast.unparse(k.value) == "msg['header']" for k in c.keywords)]
    send_uses_shared = any(isinstance(n, ast.Attribute) and n.attr == "parent_header" and ast.unparse(n.value) == "self"
                           for n in ast.walk(snd))
    if not sites:
        broken.append("jupyter_kernel.Kernel.shell_handler: no self.send(...) call found")
    else:
        ok = len(explicit) == len(sites) and not send_uses_shared
        body.append(f"def SHELL_SENDS_EXPLICIT_PARENT : Bool := {'true' if ok else 'false'}")
        body.append(f"def SHELL_SEND_SITES : Nat := {len(sites)}")
    sm = find_func(jk, "send_multipart", "ZmqSocket")
    if sm is None:
        broken.append("jupyter_kernel.ZmqSocket.send_multipart not found")
    else:
        awaits = [n for n in ast.walk(sm) if isinstance(n, ast.Await)]
        in_loop = [a for lp in ast.walk(sm) if isinstance(lp, (ast.For, ast.While, ast.AsyncFor)) for a in ast.walk(lp)
                   if isinstance(a, ast.Await)]
        writes = [a for a in awaits if isinstance(a.value, ast.Call) and ast.unparse(a.value.func) in
                  ("self.write_bytes", "self.writer.drain")]
        one = len(awaits) == 1 and len(writes) == 1 and not in_loop
        body.append(f"def SEND_MULTIPART_ONE_WRITE : Bool := {'true' if one else 'false'}")
    emit("KernelTbl", "\n".join(body))


EXTRACTORS = [gen_kernel_tbl]


# ---------------------------------------------------------------------------------------------------------------------
# Gen/KernelMsgs.lean – the message types the kernel answers, read off the elif chain of Kernel.shell_handler, the
# `if` of Kernel.control_listen and the greeting of ZmqSocket.handshake.  Names are emitted as byte lists (List Nat).
def _bl(b):
    if isinstance(b, str):
        b = b.encode()
    return "[" + ", ".join(str(x) for x in b) + "]"


def _msg_type_test(test):
    """`msg["header"]["msg_type"] == "X"` -> ["X"];  `... in {"a", "b"}` -> ["a", "b"];  else None"""
    if not (isinstance(test, ast.Compare) and len(test.ops) == 1
            and ast.unparse(test.left).replace('"', "'") == "msg['header']['msg_type']"):
        return None
    rhs = test.comparators[0]
    if isinstance(test.ops[0], ast.Eq) and isinstance(rhs, ast.Constant) and isinstance(rhs.value, str):
        return [rhs.value]
    if isinstance(test.ops[0], ast.In):
        return str_collection(rhs)
    return None


def _sends(nodes):
    """self.send(...) call sites below the given statements, in source order: (stream expr, msg type, keywords)"""
    out = []
    for st in nodes:
        for c in ast.walk(st):
            if isinstance(c, ast.Call) and ast.unparse(c.func) == "self.send" and len(c.args) >= 2 \
                    and isinstance(c.args[1], ast.Constant) and isinstance(c.args[1].value, str):
                kws = {k.arg: ast.unparse(k.value).replace('"', "'") for k in c.keywords}
                out.append((c.lineno, c.col_offset, ast.unparse(c.args[0]), c.args[1].value, kws))
    out.sort()
    return [(s, t, k) for (_l, _c, s, t, k) in out]


def _is_status_send(st, state):
    """`await self.send(self.iopub_socket, "status", content, parent_header=msg["header"])`"""
    s = _sends([st])
    return (len(s) == 1 and s[0][0] == "self.iopub_socket" and s[0][1] == "status"
            and s[0][2].get("parent_header") == "msg['header']" and "identities" not in s[0][2])


def _content_state(stmts, idx):
    """the `content = {"execution_state": X}` assignment right before statement idx"""
    if idx == 0:
        return None
    a = stmts[idx - 1]
    if isinstance(a, ast.Assign) and isinstance(a.value, ast.Dict) and len(a.value.keys) == 1 \
            and isinstance(a.value.keys[0], ast.Constant) and a.value.keys[0].value == "execution_state" \
            and isinstance(a.value.values[0], ast.Constant):
        return a.value.values[0].value
    return None


def gen_kernel_msgs():
    body = []
    jk = parse("jupyter_kernel.py")
    sh = find_func(jk, "shell_handler", "Kernel")
    cl = find_func(jk, "control_listen", "Kernel")
    hs = find_func(jk, "handshake", "ZmqSocket")
    sc = find_func(jk, "send_cmd", "ZmqSocket")
    names = set()
    # ---- shell_handler: busy first, elif chain, idle last
    chain = [s for s in (sh.body if sh else []) if isinstance(s, ast.If) and _msg_type_test(s.test)]
    if sh is None or len(chain) != 1:
        broken.append("jupyter_kernel.Kernel.shell_handler: the if/elif chain over msg['header']['msg_type'] was not found")
    else:
        top = sh.body
        ci = top.index(chain[0])
        pre = [i for i, s in enumerate(top[:ci]) if _sends([s])]
        post = [i for i, s in enumerate(top[ci + 1:], ci + 1) if _sends([s])]
        busy_first = (len(pre) == 1 and _is_status_send(top[pre[0]], "busy") and _content_state(top, pre[0]) == "busy")
        idle_last = (len(post) == 1 and post[0] == len(top) - 1 and _is_status_send(top[post[0]], "idle")
                     and _content_state(top, post[0]) == "idle")
        # deserialize is the first statement, before anything is sent
        des = [i for i, s in enumerate(top) if any(isinstance(n, ast.Call) and ast.unparse(n.func) == "self.deserialize_wire_msg"
                                                   for n in ast.walk(s))]
        deser_first = bool(des) and bool(pre) and des[0] < pre[0]
        table, silent, shape_ok, exec_sends = [], [], True, None
        node = chain[0]
        while True:
            types = _msg_type_test(node.test)
            if types is None:
                shape_ok = False
                break
            sends = _sends(node.body)
            if types == ["execute_request"]:
                exec_sends = sends
                table.append(("execute_request", "execute_reply"))
                if not any(t == "execute_reply" for (_s, t, _k) in sends):
                    shape_ok = False
            elif len(sends) == 1:
                s, t, k = sends[0]
                if len(types) != 1 or s != "shell_socket" or k.get("identities") != "identities" \
                        or k.get("parent_header") != "msg['header']":
                    shape_ok = False
                table.append((types[0], t))
            elif not sends:
                silent += types
            else:
                shape_ok = False
            if len(node.orelse) == 1 and isinstance(node.orelse[0], ast.If):
                node = node.orelse[0]
                continue
            if _sends(node.orelse):
                shape_ok = False       # the final else (unknown type) must not send
            break
        for q, r in table:
            names.update([q, r])
        names.update(silent)
        body.append("/-- request type → reply type, in the order of the elif chain of shell_handler -/")
        body.append("def SHELL_REPLY_TABLE : List (List Nat × List Nat) := [" +
                    ", ".join(f"({_bl(q)}, {_bl(r)})" for q, r in table) + "]")
        body.append("def SHELL_REPLY_NAMES : List (String × String) := [" +
                    ", ".join(f"({lean_str(q)}, {lean_str(r)})" for q, r in table) + "]")
        body.append("/-- types handled by a branch that sends nothing (comm_*) -/")
        body.append("def SHELL_SILENT : List (List Nat) := [" + ", ".join(_bl(t) for t in sorted(silent)) + "]")
        body.append("/-- every one-reply branch sends exactly once, on shell_socket, with identities=identities and "
                    "parent_header=msg['header']; silent branches and the final else send nothing -/")
        body.append(f"def SHELL_BRANCH_SHAPE_OK : Bool := {'true' if shape_ok else 'false'}")
        body.append(f"def SHELL_BUSY_FIRST : Bool := {'true' if busy_first and deser_first else 'false'}")
        body.append(f"def SHELL_IDLE_LAST : Bool := {'true' if idle_last else 'false'}")
        if exec_sends is None:
            broken.append("jupyter_kernel.Kernel.shell_handler: no execute_request branch")
        else:
            # (type, goes to the requesting socket with the request's identities?) in source order
            rows = []
            for s, t, k in exec_sends:
                to_shell = (s == "shell_socket")
                ok = k.get("parent_header") == "msg['header']" and \
                    ((to_shell and k.get("identities") == "identities") or
                     (s == "self.iopub_socket" and "identities" not in k))
                rows.append((t, to_shell, ok))
                names.add(t)
            body.append("/-- send sites of the execute_request branch in source order: (type, on the shell socket, well-addressed) -/")
            body.append("def EXEC_SENDS : List (List Nat × Bool × Bool) := [" +
                        ", ".join(f"({_bl(t)}, {'true' if a else 'false'}, {'true' if b else 'false'})" for t, a, b in rows) + "]")
        names.add("status")
        # the try around ast_ctx.parse in the is_complete_request branch: which exceptions end in a reply
        node = chain[0]
        isc = None
        while node is not None:
            if _msg_type_test(node.test) == ["is_complete_request"]:
                isc = node
            node = node.orelse[0] if len(node.orelse) == 1 and isinstance(node.orelse[0], ast.If) else None
        tries = [t for st in (isc.body if isc else []) for t in ast.walk(st) if isinstance(t, ast.Try)]
        if len(tries) != 1 or len(tries[0].handlers) != 1:
            broken.append("jupyter_kernel.Kernel.shell_handler: is_complete_request try/except shape")
        else:
            h = tries[0].handlers[0]
            catch_all = h.type is None or (isinstance(h.type, ast.Name) and h.type.id in ("Exception", "BaseException"))
            body.append("/-- the parse of an is_complete_request is guarded by `except Exception` (every parser failure is answered) -/")
            body.append(f"def ISCOMPLETE_CATCHES_ALL : Bool := {'true' if catch_all else 'false'}")
    # ---- control_listen
    if cl is None:
        broken.append("jupyter_kernel.Kernel.control_listen not found")
    else:
        ifs = [n for n in ast.walk(cl) if isinstance(n, ast.If) and _msg_type_test(n.test)]
        rows, queues = [], True
        for n in ifs:
            types = _msg_type_test(n.test)
            sends = _sends(n.body)
            if len(types) == 1 and len(sends) == 1 and sends[0][0] == "control_socket" \
                    and sends[0][2].get("identities") == "identities" and sends[0][2].get("parent_header") == "msg['header']" \
                    and not n.orelse:
                rows.append((types[0], sends[0][1]))
                puts = [c for st in n.body for c in ast.walk(st) if isinstance(c, ast.Call)
                        and ast.unparse(c.func) == "self.housekeep_q.put" and ast.unparse(c.args[0]).replace('"', "'") == "['shutdown']"]
                queues = queues and len(puts) == 1
            else:
                broken.append("jupyter_kernel.Kernel.control_listen: unrecognised reply branch")
        all_sends = _sends(cl.body)
        if len(all_sends) != len(rows):
            broken.append("jupyter_kernel.Kernel.control_listen: a send outside the recognised reply branches")
        for q, r in rows:
            names.update([q, r])
        body.append("def CONTROL_REPLY_TABLE : List (List Nat × List Nat) := [" +
                    ", ".join(f"({_bl(q)}, {_bl(r)})" for q, r in rows) + "]")
        body.append(f"def CONTROL_REPLY_QUEUES_SHUTDOWN : Bool := {'true' if rows and queues else 'false'}")
    for n in sorted(names):
        body.append(f"def N_{n} : List Nat := {_bl(n)}")
    # ---- handshake: alternating literal writes and fixed-size reads, then READY
    if hs is None or sc is None:
        broken.append("jupyter_kernel.ZmqSocket.handshake / send_cmd not found")
    else:
        writes, reads, inspected, ready = [], [], False, None
        order = []
        for st in hs.body:
            for c in ast.walk(st):
                if not isinstance(c, ast.Await) or not isinstance(c.value, ast.Call):
                    continue
                f = ast.unparse(c.value.func)
                if f == "self.write_bytes":
                    try:
                        v = eval(compile(ast.Expression(c.value.args[0]), "hs", "eval"), {"__builtins__": {}})  # literal bytes expr
                    except Exception:  # not a literal
                        v = None
                    if not isinstance(v, bytes):
                        broken.append("ZmqSocket.handshake: a write that is not a literal byte string")
                    else:
                        writes.append(v)
                        order.append("w")
                elif f == "self.read_bytes" and isinstance(c.value.args[0], ast.Constant):
                    reads.append(c.value.args[0].value)
                    order.append("r")
                elif f == "self.send_cmd" and isinstance(c.value.args[0], ast.Constant):
                    ready = c.value.args[0].value
                    order.append("c")
        # does the handshake look at what it read?  (any Compare / Raise / If on something other than self.type)
        for n in ast.walk(hs):
            if isinstance(n, ast.Raise):
                inspected = True
            if isinstance(n, ast.If) and "self.type" not in ast.unparse(n.test):
                inspected = True
        if order != ["w", "r"] * len(reads) + ["c"] or ready is None:
            broken.append(f"ZmqSocket.handshake: unrecognised write/read order {order}")
        else:
            body.append("def HS_WRITES : List (List Nat) := [" + ", ".join(_bl(w) for w in writes) + "]")
            body.append("def HS_READS : List Nat := [" + ", ".join(str(r) for r in reads) + "]")
            body.append(f"def HS_CMD : List Nat := {_bl(ready)}")
            body.append(f"def HS_VALIDATES : Bool := {'true' if inspected else 'false'}")
        # READY parameters: [["Socket-Type", self.type]] + [["Identity", ""]] when ROUTER
        src = ast.unparse(hs).replace('"', "'")
        if "[['Socket-Type', self.type]]" in src and "if self.type == 'ROUTER'" in src and "params.append(['Identity', ''])" in src:
            body.append(f"def HS_PARAM_TYPE : List Nat := {_bl('Socket-Type')}")
            body.append(f"def HS_PARAM_IDENTITY : List Nat := {_bl('Identity')}")
            body.append(f"def HS_ROUTER : List Nat := {_bl('ROUTER')}")
        else:
            broken.append("ZmqSocket.handshake: READY parameter shape")
        # send_cmd framing constants: short flag 0x4 + 1-byte length up to 255, else 0x6 + 8 bytes; 4-byte value lengths
        t = [n.comparators[0].value for n in ast.walk(sc) if isinstance(n, ast.Compare) and isinstance(n.ops[0], ast.LtE)
             and isinstance(n.comparators[0], ast.Constant)]
        flags = [e.value for n in ast.walk(sc) if isinstance(n, ast.Call) and ast.unparse(n.func) == "bytearray" and n.args
                 and isinstance(n.args[0], ast.List) and n.args[0].elts and isinstance(n.args[0].elts[0], ast.Constant)
                 for e in n.args[0].elts[:1]]
        pk = [n.args[0].value for n in ast.walk(sc) if isinstance(n, ast.Call) and ast.unparse(n.func) == "pack"]
        if t == [255] and flags == [4, 6] and pk == [">L", ">Q"]:
            body.append("def CMD_SHORT_MAX : Nat := 255\ndef CMD_FLAG_SHORT : Nat := 4\ndef CMD_FLAG_LONG : Nat := 6\n"
                        "def CMD_VALUE_LEN_BYTES : Nat := 4\ndef CMD_LONG_LEN_BYTES : Nat := 8")
        else:
            broken.append(f"ZmqSocket.send_cmd: framing constants {t} {flags} {pk}")
    emit("KernelMsgs", "\n".join(body))


EXTRACTORS.append(gen_kernel_msgs)
