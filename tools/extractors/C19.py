"""C19 extractor: where the kernel's replies and broadcasts take their parent header from.

Gen/KernelTbl.lean:
  SHELL_SENDS_EXPLICIT_PARENT   every `self.send(...)` inside Kernel.shell_handler passes `parent_header=msg["header"]`
                                (the header of the request being handled, a local of that handler instance) and
                                Kernel.send itself never falls back to the shared attribute `self.parent_header`
  SHELL_SEND_SITES              number of send sites found in shell_handler
  SEND_MULTIPART_ONE_WRITE      ZmqSocket.send_multipart hands the whole message to the transport in ONE write (a single
                                awaited `self.write_bytes(...)` after the loop over the parts, none inside it), so another task
                                sending on the same socket cannot get its frames in between
"""
import ast


def gen_kernel_tbl():
    body = []
    jk = parse("jupyter_kernel.py")
    sh = find_func(jk, "shell_handler", "Kernel")
    snd = find_func(jk, "send", "Kernel")
    if sh is None or snd is None:
        broken.append("jupyter_kernel.Kernel.shell_handler / send not found")
        emit("KernelTbl", "\n".join(body))
        return
    sites = [c for c in ast.walk(sh) if isinstance(c, ast.Call) and ast.unparse(c.func) == "self.send"]
    explicit = [c for c in sites if any(k.arg == "parent_header" and ast.unparse(k.value) == "msg['header']" for k in c.keywords)]
    send_uses_shared = any(isinstance(n, ast.Attribute) and n.attr == "parent_header" and ast.unparse(n.value) == "self"
                           for n in ast.walk(snd))
    if not sites:
        broken.append("jupyter_kernel.Kernel.shell_handler: no self.send(...) call found")
    else:
        ok = len(explicit) == len(sites) and not send_uses_shared
        body.append(f"def SHELL_SENDS_EXPLICIT_PARENT : Bool := {'true' if ok else 'false'}")
        body.append(f"def SHELL_SEND_SITES : Nat := {len(sites)}")
    sm = find_func(jk, "send_multipart", "ZmqSocket")
    if sm is None:
        broken.append("jupyter_kernel.ZmqSocket.send_multipart not found")
    else:
        awaits = [n for n in ast.walk(sm) if isinstance(n, ast.Await)]
        in_loop = [a for lp in ast.walk(sm) if isinstance(lp, (ast.For, ast.While, ast.AsyncFor)) for a in ast.walk(lp)
                   if isinstance(a, ast.Await)]
        writes = [a for a in awaits if isinstance(a.value, ast.Call) and ast.unparse(a.value.func) in
                  ("self.write_bytes", "self.writer.drain")]
        one = len(awaits) == 1 and len(writes) == 1 and not in_loop
        body.append(f"def SEND_MULTIPART_ONE_WRITE : Bool := {'true' if one else 'false'}")
    emit("KernelTbl", "\n".join(body))


EXTRACTORS = [gen_kernel_tbl]
