"""C17 tables from eval.py: BUILTIN_EXCLUDE (a set display of string literals) and the keys of
BUILTIN_AST_FUNCS_FACTORY (a dict display with string-literal keys) -> lean/PsModel/Gen/C17Tables.lean."""
import ast


def gen_eval_tables():
    tree = parse("eval.py")  # noqa: F821  (helpers come from tools/extract.py)
    body = []
    v = find_assign(tree, "BUILTIN_EXCLUDE")  # noqa: F821
    xs = str_collection(v) if v is not None else None  # noqa: F821
    if xs is None:
        broken.append("eval.BUILTIN_EXCLUDE: not a literal collection of strings")  # noqa: F821
    else:
        body.append(f"def BUILTIN_EXCLUDE : List String := {lean_list(sorted(xs))}")  # noqa: F821
    d = find_assign(tree, "BUILTIN_AST_FUNCS_FACTORY")  # noqa: F821
    if isinstance(d, ast.Dict) and all(isinstance(k, ast.Constant) and isinstance(k.value, str) for k in d.keys):
        body.append(f"def BUILTIN_AST_FUNCS : List String := {lean_list(sorted(k.value for k in d.keys))}")  # noqa: F821
    else:
        broken.append("eval.BUILTIN_AST_FUNCS_FACTORY: not a dict display with string keys")  # noqa: F821
    emit("C17Tables", "\n".join(body))  # noqa: F821


EXTRACTORS = [gen_eval_tables]
