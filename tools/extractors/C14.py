"""C14 extractor: the SHAPE of `run_coro`, `create_task`, the done-callback table and `task.cancel`, read off
function.py / eval.py / decorators/service.py on every run.

Gen/RunCoroTbl.lean (what the C14 model's `current` configuration and `shapeFacts` are defined from; the reaper flags and
the release order come from Gen/TaskTbl.lean, tools/extractors/C13.py):

  CB_LOOP_GUARDED_BY_ENTRY     the callback loop sits under `if task in cls.task2cb:`
  CB_LOOP_SNAPSHOT             it iterates `list(cls.task2cb[task]["cb"].items())`      (false: the live dict, pre-83f57a2)
  CB_CALLED_WITH_OWN_ARGS      each iteration unpacks `ast_ctx, args, kwargs = info` and awaits
                               `ast_ctx.call_func(callback, None, *args, **kwargs)`
  CB_RAISE_CONTINUES           that await is wrapped in `try … except Exception` whose handler does not leave the loop
                               (false: `break`, pre-e4231d2)
  CLEANUP_IN_INNER_FINALLY     the loop is the body of an inner `try` whose `finally` is the release block
                               (false: the release block follows the loop in the outer finally, pre-f683cd7)
  START_ADDS_OURS / START_ENSURES_ENTRY   first segment, before `await coro`: `cls.our_tasks.add(task)`,
                               `if ast_ctx is not None: cls.task_done_callback_ctx(task, ast_ctx)`
  RESULT_IS_BODY_VALUE         `result = await coro; return result`
  CANCEL_RERAISED / EXC_LOGGED_RETURNS_NONE   `except asyncio.CancelledError: raise`, `except Exception: _LOGGER.error(…)`
  OURS_AT_CREATE               create_task does `cls.our_tasks.add(task)` + `task.add_done_callback(cls.our_tasks.discard)`
  UNSTARTED_TRACKED            create_task adds the task to `unstarted_tasks`, run_coro's first segment discards it
  ENSURE_ENTRY_KEEPS_EXISTING  task_done_callback_ctx only makes `{"ctx": …, "cb": {}}` when there is no entry yet
  CB_ADD_IS_DICT_STORE / CB_REMOVE_IS_POP   `task2cb[task]["cb"][callback] = [ast_ctx, args, kwargs]` / `.pop(callback, None)`
  CANCEL_DEFAULTS_TO_SELF / CANCEL_CHECKS_OURS / CANCEL_VIA_REAPER / CANCEL_SELF_PARKS     task.cancel
  SERVICE_TASKS_HAVE_CTX       both subsystems create @service tasks with `ast_ctx=`   (false: neither, pre-48c341a)
"""
import ast


class Shape14(Exception):
    pass


def _need14(cond, what):
    if not cond:
        raise Shape14(what)


def _u14(n):
    return ast.unparse(n)


def _log14(st):
    return isinstance(st, ast.Expr) and isinstance(st.value, ast.Call) and _u14(st.value.func).startswith("_LOGGER.")


def _bb(v):
    return "true" if v else "false"


def _doc_free(fn):
    b = list(fn.body)
    if b and isinstance(b[0], ast.Expr) and isinstance(b[0].value, ast.Constant) and isinstance(b[0].value.value, str):
        b = b[1:]
    return b


def shape_run_coro(fnpy):
    rc = find_func(fnpy, "run_coro", "Function")
    _need14(rc is not None, "Function.run_coro not found")
    outer = [s for s in rc.body if isinstance(s, ast.Try)]
    _need14(len(outer) == 1 and outer[0].finalbody, "run_coro: try … finally")
    tr = outer[0]
    # ---- first segment and result
    body = [_u14(s) for s in tr.body if not _log14(s)]
    _need14(body and body[0] == "task = asyncio.current_task()", "run_coro: `task = asyncio.current_task()` first")
    _need14(body[-2:] == ["result = await coro", "return result"] or body[-1:] == ["return await coro"],
            "run_coro: `result = await coro; return result`")
    pre = body[1:-2] if body[-1] == "return result" else body[1:-1]
    known = {"cls.our_tasks.add(task)": "ours", "cls.unstarted_tasks.discard(task)": "unstarted",
             "if ast_ctx is not None:\n    cls.task_done_callback_ctx(task, ast_ctx)": "entry"}
    got = []
    for s in pre:
        _need14(s in known, f"run_coro: unknown statement before `await coro`: {s.splitlines()[0]}")
        got.append(known[s])
    # ---- handlers
    hs = {(_u14(h.type) if h.type is not None else ""): h for h in tr.handlers}
    _need14(set(hs) == {"asyncio.CancelledError", "Exception"} and _u14(tr.handlers[0].type) == "asyncio.CancelledError",
            "run_coro: handlers `except asyncio.CancelledError` then `except Exception`")
    reraised = [_u14(s) for s in hs["asyncio.CancelledError"].body] == ["raise"]
    logged = all(_log14(s) for s in hs["Exception"].body) and len(hs["Exception"].body) >= 1
    _need14(reraised, "run_coro: `except asyncio.CancelledError: raise`")
    _need14(logged, "run_coro: `except Exception:` only logs")
    # ---- the callback loop
    fin = tr.finalbody
    inner = [s for s in fin if isinstance(s, ast.Try) and s.finalbody]
    if inner:
        _need14(len(inner) == 1 and not inner[0].handlers, "run_coro: one inner try … finally without handlers")
        region, inner_finally = inner[0].body, True
    else:
        region, inner_finally = fin, False
    loops = [n for s in region for n in ast.walk(s) if isinstance(n, ast.For)
             and "cls.task2cb[task]['cb']" in _u14(n.iter)]
    _need14(len(loops) == 1, "run_coro: one loop over cls.task2cb[task]['cb']")
    lp = loops[0]
    it = _u14(lp.iter)
    if it == "list(cls.task2cb[task]['cb'].items())":
        snapshot = True
    elif it == "cls.task2cb[task]['cb'].items()":
        snapshot = False
    else:
        raise Shape14(f"run_coro: callback loop iterates `{it}`")
    _need14(_u14(lp.target) == "(callback, info)", "run_coro: `for callback, info in …`")
    guards = [s for s in region if isinstance(s, ast.If) and lp in list(ast.walk(s))]
    guarded = len(guards) == 1 and _u14(guards[0].test) == "task in cls.task2cb" and not guards[0].orelse
    _need14(guarded, "run_coro: the loop sits under `if task in cls.task2cb:`")
    lb = [s for s in lp.body if not _log14(s)]
    _need14(len(lb) == 2 and _u14(lb[0]) == "ast_ctx, args, kwargs = info" and isinstance(lb[1], ast.Try)
            and not lb[1].finalbody and not lb[1].orelse,
            "run_coro: loop body `ast_ctx, args, kwargs = info; try: await … except Exception`")
    t2 = lb[1]
    _need14([_u14(s) for s in t2.body] == ["await ast_ctx.call_func(callback, None, *args, **kwargs)"],
            "run_coro: `await ast_ctx.call_func(callback, None, *args, **kwargs)`")
    _need14(len(t2.handlers) == 1 and t2.handlers[0].type is not None and _u14(t2.handlers[0].type) == "Exception",
            "run_coro: each callback call is wrapped in `except Exception`")
    hb = t2.handlers[0].body
    leaves = any(isinstance(n, (ast.Break, ast.Return, ast.Raise)) for s in hb for n in ast.walk(s))
    if leaves:
        _need14([type(s) for s in hb if not isinstance(s, ast.Expr)] == [ast.Break], "run_coro: the handler leaves the loop other than by `break`")
    return {"snapshot": snapshot, "continues": not leaves, "inner_finally": inner_finally,
            "adds_ours": "ours" in got, "ensures_entry": "entry" in got, "unstarted": "unstarted" in got}


def shape_create_task(fnpy):
    ct = find_func(fnpy, "create_task", "Function")
    _need14(ct is not None, "Function.create_task not found")
    b = [_u14(s) for s in _doc_free(ct)]
    if b == ["return cls.hass.loop.create_task(cls.run_coro(coro, ast_ctx=ast_ctx))"]:
        return {"ours": False, "unstarted": False}
    _need14(b and b[0] == "task = cls.hass.loop.create_task(cls.run_coro(coro, ast_ctx=ast_ctx))" and b[-1] == "return task",
            "create_task: `task = cls.hass.loop.create_task(cls.run_coro(coro, ast_ctx=ast_ctx)) … return task`")
    mid = b[1:-1]
    allowed = ["cls.our_tasks.add(task)", "cls.unstarted_tasks.add(task)", "task.add_done_callback(cls.our_tasks.discard)",
               "task.add_done_callback(cls.unstarted_tasks.discard)"]
    for s in mid:
        _need14(s in allowed, f"create_task: unknown statement `{s}`")
    ours = allowed[0] in mid
    _need14(ours == (allowed[2] in mid), "create_task: our_tasks.add without the discarding done-callback (or vice versa)")
    un = allowed[1] in mid
    _need14(un == (allowed[3] in mid), "create_task: unstarted_tasks.add without the discarding done-callback (or vice versa)")
    return {"ours": ours, "unstarted": un}


def shape_cb_table(fnpy):
    f1 = find_func(fnpy, "task_done_callback_ctx", "Function")
    f2 = find_func(fnpy, "task_add_done_callback", "Function")
    f3 = find_func(fnpy, "user_task_remove_done_callback", "Function")
    _need14(f1 and f2 and f3, "task_done_callback_ctx / task_add_done_callback / user_task_remove_done_callback not found")
    b1 = [_u14(s) for s in _doc_free(f1)]
    keeps = b1 == ["if task not in cls.task2cb or 'ctx' not in cls.task2cb[task]:\n    cls.task2cb[task] = {'ctx': ast_ctx, 'cb': {}}"]
    _need14(keeps, "task_done_callback_ctx: `if task not in cls.task2cb or 'ctx' not in cls.task2cb[task]: cls.task2cb[task] = {…}`")
    b2 = [_u14(s) for s in _doc_free(f2)]
    _need14(b2 == ["if ast_ctx is None:\n    ast_ctx = cls.task2cb[task]['ctx']",
                   "cls.task2cb[task]['cb'][callback] = [ast_ctx, args, kwargs]"],
            "task_add_done_callback: `cls.task2cb[task]['cb'][callback] = [ast_ctx, args, kwargs]`")
    b3 = [_u14(s) for s in _doc_free(f3)]
    _need14(b3 == ["cls.task2cb[task]['cb'].pop(callback, None)"], "task.remove_done_callback: `cls.task2cb[task]['cb'].pop(callback, None)`")
    return True


def shape_cancel(fnpy):
    f = find_func(fnpy, "user_task_cancel", "Function")
    _need14(f is not None, "Function.user_task_cancel not found")
    _need14([a.arg for a in f.args.args] == ["cls", "task"] and len(f.args.defaults) == 1 and _u14(f.args.defaults[0]) == "None",
            "task.cancel(task=None) signature")
    b = [_u14(s) for s in _doc_free(f)]
    want = ["do_sleep = False",
            "if not task:\n    task = asyncio.current_task()\n    do_sleep = True",
            None,
            "cls.reaper_cancel(task)",
            None]
    _need14(len(b) == 5 and b[0] == want[0] and b[1] == want[1] and b[3] == want[3], "task.cancel: default to the current task, check, reaper_cancel(task), park")
    _need14(b[2].startswith("if task not in cls.our_tasks:\n    raise TypeError("), "task.cancel: `if task not in cls.our_tasks: raise TypeError`")
    aw = _doc_free(f)[4]
    ok = (isinstance(aw, ast.If) and _u14(aw.test) == "do_sleep" and len(aw.body) == 1 and isinstance(aw.body[0], ast.Expr)
          and isinstance(aw.body[0].value, ast.Await) and _u14(aw.body[0].value.value.func) == "asyncio.sleep"
          and isinstance(aw.body[0].value.value.args[0], ast.Constant) and aw.body[0].value.value.args[0].value >= 3600)
    _need14(ok, "task.cancel: `if do_sleep: await asyncio.sleep(<long>)`")
    return True


def shape_service_ctx():
    ev = parse("eval.py")
    sv = ast.parse((SRC / "decorators" / "service.py").read_text())
    out = []
    for label, tree in (("eval.py", ev), ("decorators/service.py", sv)):
        calls = [c for c in ast.walk(tree) if isinstance(c, ast.Call) and _u14(c.func) == "Function.create_task"
                 and c.args and _u14(c.args[0]).startswith("do_service_call(")]
        _need14(len(calls) == 1, f"{label}: one Function.create_task(do_service_call(…)…)")
        kws = {k.arg: _u14(k.value) for k in calls[0].keywords}
        _need14(set(kws) <= {"ast_ctx"}, f"{label}: unknown keyword in create_task(do_service_call…)")
        out.append(kws.get("ast_ctx") == "ast_ctx")
    _need14(out[0] == out[1], "the two subsystems create @service tasks differently (one with ast_ctx=, one without)")
    return out[0]


def gen_run_coro_tbl():
    fnpy = parse("function.py")
    body = []

    def section(name, fn):
        try:
            return fn()
        except Shape14 as e:
            broken.append(f"{name}: {e}")
        except Exception as e:  # pylint: disable=broad-except
            broken.append(f"{name}: {type(e).__name__}: {e}")
        return None

    rc = section("function.py/run_coro", lambda: shape_run_coro(fnpy))
    ct = section("function.py/create_task", lambda: shape_create_task(fnpy))
    if rc:
        body += ["def CB_LOOP_GUARDED_BY_ENTRY : Bool := true",
                 f"def CB_LOOP_SNAPSHOT : Bool := {_bb(rc['snapshot'])}",
                 "def CB_CALLED_WITH_OWN_ARGS : Bool := true",
                 f"def CB_RAISE_CONTINUES : Bool := {_bb(rc['continues'])}",
                 f"def CLEANUP_IN_INNER_FINALLY : Bool := {_bb(rc['inner_finally'])}",
                 f"def START_ADDS_OURS : Bool := {_bb(rc['adds_ours'])}",
                 f"def START_ENSURES_ENTRY : Bool := {_bb(rc['ensures_entry'])}",
                 "def RESULT_IS_BODY_VALUE : Bool := true",
                 "def CANCEL_RERAISED : Bool := true",
                 "def EXC_LOGGED_RETURNS_NONE : Bool := true"]
    if ct:
        body.append(f"def OURS_AT_CREATE : Bool := {_bb(ct['ours'])}")
    if rc and ct:
        if rc["unstarted"] == ct["unstarted"]:
            body.append(f"def UNSTARTED_TRACKED : Bool := {_bb(ct['unstarted'])}")
        else:
            broken.append("function.py: unstarted_tasks is filled by create_task but not emptied by run_coro's first segment (or vice versa)")
    if section("function.py/callback table", lambda: shape_cb_table(fnpy)):
        body += ["def ENSURE_ENTRY_KEEPS_EXISTING : Bool := true", "def CB_ADD_IS_DICT_STORE : Bool := true",
                 "def CB_REMOVE_IS_POP : Bool := true"]
    if section("function.py/task.cancel", lambda: shape_cancel(fnpy)):
        body += ["def CANCEL_DEFAULTS_TO_SELF : Bool := true", "def CANCEL_CHECKS_OURS : Bool := true",
                 "def CANCEL_VIA_REAPER : Bool := true", "def CANCEL_SELF_PARKS : Bool := true"]
    sc = section("@service tasks", shape_service_ctx)
    if sc is not None:
        body.append(f"def SERVICE_TASKS_HAVE_CTX : Bool := {_bb(sc)}")
    emit("RunCoroTbl", "\n".join(body))


EXTRACTORS = [gen_run_coro_tbl]
