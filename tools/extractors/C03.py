"""C03/C17 tables from eval.py: TRIGGER_KWARGS (keywords silently dropped by EvalFunc.call)."""


def gen_trigger_kwargs():
    tree = parse("eval.py")
    v = find_assign(tree, "TRIGGER_KWARGS")
    xs = str_collection(v) if v is not None else None
    if xs is None:
        broken.append("eval.TRIGGER_KWARGS: not a literal set of strings")
        emit("TriggerKwargs", "")
        return
    emit("TriggerKwargs", f"def TRIGGER_KWARGS : List String := {lean_list(sorted(xs))}")


EXTRACTORS = [gen_trigger_kwargs]
