"""C05 extractor: the shapes of the three hold machines that the Lean models rely on.

Gen/C05Shape.lean (every flag is `true` on the code the models were written against; a shape that is not recognised at
all withholds the definition = TIE-BROKEN):

legacy `TrigInfo.trigger_watch` (trigger.py)
  TW_HEAD_STARTUP_RESETS     the head of the `while True:` loop is `if self.run_on_startup: … elif check_state_expr_on_start:
  TW_HEAD_CHECK_RESETS       … else: …` – the tests are exactly these two flags – and each branch clears the flag it tests
                             (`self.run_on_startup = False` / `check_state_expr_on_start = False`): two one-shot branches
                             consumed in consecutive iterations (`Legacy.headStepF`)
  TW_CHECK_ON_START_DEF      `check_state_expr_on_start = self.state_check_now or self.state_hold_false is not None`
  TW_HOLD_FALSE_BEFORE_HOLD  in the state branch the `if self.state_hold_false is not None:` block comes before the
                             `if self.state_hold is not None:` block, and both tests are `is not None` (so 0 / 0.0 count as set)
  TW_HOLD_STAMP_ONCE         `last_state_trig_time = time.monotonic()` is assigned at exactly one place, under
                             `if not state_trig_waiting:` (a further true evaluation does not restart the delay)
  TW_FALSE_CANCELS_HOLD      under `if self.state_hold is not None:` a false evaluation with `state_trig_waiting` clears it

legacy `TrigTime.wait_until` (trigger.py)
  WU_CHECK_ON_START_DEF      `check_state_expr_on_start = state_check_now or state_hold_false is not None`
  WU_HOLD_AFTER_TIMEOUT      in the wake-up selection the `if state_trig_waiting:` block comes after the `if timeout is not
                             None:` block and claims the wake-up with a strict `<`

new `StateTriggerDecorator` (decorators/state.py)
  NEW_CHECK_ON_START_DEF     `check_state_expr_on_start = self.state_check_now or self.state_hold_false is not None`
  NEW_INITIAL_BYPASSES_HF    `_check_new_state`: `if self.state_hold_false is None or not self.has_expression() or initial:`
  NEW_HOLD_GE                both hold comparisons are `true_duration >= self.state_hold` (a run at exactly the deadline)
  NEW_REMEMBER_WHEN_IDLE     `_cycle` overwrites last_func_args only under `if self.true_entered_at is None:`
"""
import ast


def _b(x):
    return "true" if x else "false"


def _walk_ifs(node):
    return [n for n in ast.walk(node) if isinstance(n, ast.If)]


def _assigns(nodes, target, value=None):
    out = []
    for st in nodes:
        for n in ast.walk(st):
            if isinstance(n, ast.Assign) and len(n.targets) == 1 and ast.unparse(n.targets[0]) == target:
                if value is None or ast.unparse(n.value) == value:
                    out.append(n)
    return out


def gen_c05_shape():
    body = []
    trig = parse("trigger.py")
    tw = find_func(trig, "trigger_watch", "TrigInfo")
    if tw is None:
        broken.append("trigger.TrigInfo.trigger_watch not found")
    else:
        # ---- the head of the loop
        head = None
        for n in _walk_ifs(tw):
            if "run_on_startup" in ast.unparse(n.test) and any("startup" in ast.unparse(s) for s in n.body):
                head = n
                break
        if head is None or ast.unparse(head.test) != "self.run_on_startup" or len(head.orelse) != 1 \
                or not isinstance(head.orelse[0], ast.If) \
                or ast.unparse(head.orelse[0].test) != "check_state_expr_on_start" or not head.orelse[0].orelse:
            broken.append("trigger_watch: loop head is not `if self.run_on_startup: … elif check_state_expr_on_start: … "
                          "else: …`" + ("" if head is None else f" (found `if {ast.unparse(head.test)}` / "
                                        f"`{ast.unparse(head.orelse[0].test) if head.orelse and isinstance(head.orelse[0], ast.If) else '?'}`)"))
        else:
            body.append(f"def TW_HEAD_STARTUP_RESETS : Bool := {_b(_assigns(head.body, 'self.run_on_startup', 'False'))}")
            body.append("def TW_HEAD_CHECK_RESETS : Bool := "
                        f"{_b(_assigns(head.orelse[0].body, 'check_state_expr_on_start', 'False'))}")
        d = _assigns([tw], "check_state_expr_on_start", "self.state_check_now or self.state_hold_false is not None")
        body.append(f"def TW_CHECK_ON_START_DEF : Bool := {_b(len(d) == 1)}")
        ifs = _walk_ifs(tw)
        hf = [n for n in ifs if ast.unparse(n.test) == "self.state_hold_false is not None"]
        hd = [n for n in ifs if ast.unparse(n.test) == "self.state_hold is not None"]
        if len(hf) != 1 or len(hd) != 1:
            broken.append("trigger_watch: the `if self.state_hold_false is not None:` / `if self.state_hold is not None:` "
                          "blocks were not found exactly once")
        else:
            body.append(f"def TW_HOLD_FALSE_BEFORE_HOLD : Bool := {_b(hf[0].lineno < hd[0].lineno)}")
            stamps = _assigns([tw], "last_state_trig_time", "time.monotonic()")
            guarded = [n for n in _walk_ifs(hd[0]) if ast.unparse(n.test) == "not state_trig_waiting"
                       and _assigns(n.body, "last_state_trig_time", "time.monotonic()")]
            body.append(f"def TW_HOLD_STAMP_ONCE : Bool := {_b(len(stamps) == 1 and len(guarded) == 1)}")
            cancel = [n for n in hd[0].body if isinstance(n, ast.If) and ast.unparse(n.test) == "state_trig_waiting"
                      and _assigns(n.body, "state_trig_waiting", "False")]
            body.append(f"def TW_FALSE_CANCELS_HOLD : Bool := {_b(len(cancel) == 1)}")
        # ---- task.wait_until
        wu = find_func(trig, "wait_until", "TrigTime")
        if wu is None:
            broken.append("trigger.TrigTime.wait_until not found")
        else:
            d = _assigns([wu], "check_state_expr_on_start", "state_check_now or state_hold_false is not None")
            body.append(f"def WU_CHECK_ON_START_DEF : Bool := {_b(len(d) == 1)}")
            ifs = _walk_ifs(wu)
            tmo = [n for n in ifs if ast.unparse(n.test) == "timeout is not None"
                   and _assigns(n.body, "this_timeout")]
            hld = [n for n in ifs if ast.unparse(n.test) == "state_trig_waiting"
                   and _assigns(n.body, "state_trig_timeout", "True")]
            if len(tmo) != 1 or len(hld) != 1:
                broken.append("wait_until: wake-up selection blocks (`if timeout is not None:` / `if state_trig_waiting:`) "
                              "not found exactly once")
            else:
                strict = any(isinstance(n, ast.If) and "time_left < this_timeout" in ast.unparse(n.test)
                             for n in ast.walk(hld[0]))
                body.append(f"def WU_HOLD_AFTER_TIMEOUT : Bool := {_b(tmo[0].lineno < hld[0].lineno and strict)}")
    # ---- new subsystem
    st = parse("decorators/state.py")
    cyc = find_func(st, "_cycle", "StateTriggerDecorator")
    cns = find_func(st, "_check_new_state", "StateTriggerDecorator")
    csh = find_func(st, "_check_state_hold", "StateTriggerDecorator")
    if cyc is None or cns is None or csh is None:
        broken.append("decorators.state.StateTriggerDecorator._cycle / _check_new_state / _check_state_hold not found")
    else:
        d = _assigns([cyc], "check_state_expr_on_start", "self.state_check_now or self.state_hold_false is not None")
        body.append(f"def NEW_CHECK_ON_START_DEF : Bool := {_b(len(d) == 1)}")
        byp = [n for n in _walk_ifs(cns)
               if ast.unparse(n.test) == "self.state_hold_false is None or not self.has_expression() or initial"]
        body.append(f"def NEW_INITIAL_BYPASSES_HF : Bool := {_b(len(byp) == 1)}")
        cmps = [ast.unparse(n.test) for f in (cns, csh) for n in _walk_ifs(f) if "true_duration" in ast.unparse(n.test)]
        body.append(f"def NEW_HOLD_GE : Bool := {_b(len(cmps) == 2 and all(c == 'true_duration >= self.state_hold' for c in cmps))}")
        sets = _assigns([cyc], "self.last_func_args", "func_args")
        guarded = [n for n in _walk_ifs(cyc) if ast.unparse(n.test) == "self.true_entered_at is None"
                   and _assigns(n.body, "self.last_func_args", "func_args")]
        body.append(f"def NEW_REMEMBER_WHEN_IDLE : Bool := {_b(len(sets) == 1 and len(guarded) == 1)}")
    emit("C05Shape", "\n".join(body))


EXTRACTORS = [gen_c05_shape]
