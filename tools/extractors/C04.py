"""C04 extractor: shapes of the state-trigger plumbing the C04 model relies on.

Gen/C04Shape.lean (a shape that is not recognised at all withholds the definition = TIE-BROKEN):
  KWARGS_NONE_IS_EMPTY_LEGACY  trigger.py trigger_watch, state branch: `user_kwargs = self.state_trigger_kwargs.get("kwargs") or {}`
                               (true; since the fix of C04-F5) vs `.get("kwargs", {})` (false: kwargs=None yields None and
                               `func_args.update(None)` kills the trigger task)
  KWARGS_NONE_IS_EMPTY_NEW     decorator_abc.py TriggerDecorator: the kwargs schema admits None and dispatch merges
                               `self.kwargs.get("kwargs") or {}` (true) vs `vol.Coerce(dict…)` / `.get("kwargs", {})` (false)
  UPDATE_COPIES_FUNC_ARGS      state.py State.update puts `func_args.copy()` on every subscriber queue (one message per
                               queue with its own arguments: `enqueue` / `mkMsg`)
  NOTIFY_DEL_KEEPS_ENTRY       state.py State.notify_del removes only the queue (`del cls.notify[name][queue]`): neither the
                               entity's entry in State.notify nor State.notify_var_last is touched (`relife`: the hub survives
                               a period without subscribers)
  UPDATE_RECORDS_LAST_FOR_KEYS state.py State.update: `if var_name in cls.notify: cls.notify_var_last[var_name] = var_val`
                               (`Hub.apply`: last written for keys only)
"""
import ast


def _b(x):
    return "true" if x else "false"


def gen_c04_shape():
    body = []
    trig = parse("trigger.py")
    tw = find_func(trig, "trigger_watch", "TrigInfo")
    val = None
    if tw is not None:
        for n in ast.walk(tw):
            if isinstance(n, ast.Assign) and ast.unparse(n.targets[0]) == "user_kwargs" \
                    and "state_trigger_kwargs" in ast.unparse(n.value):
                val = ast.unparse(n.value)
    if val == "self.state_trigger_kwargs.get('kwargs') or {}":
        body.append("def KWARGS_NONE_IS_EMPTY_LEGACY : Bool := true")
    elif val == "self.state_trigger_kwargs.get('kwargs', {})":
        body.append("def KWARGS_NONE_IS_EMPTY_LEGACY : Bool := false")
    else:
        broken.append(f"trigger_watch: `user_kwargs = self.state_trigger_kwargs.get(...)` has an unknown shape: {val}")
    abc = parse("decorator_abc.py")
    disp = find_func(abc, "dispatch", "TriggerDecorator")
    sub = find_func(abc, "__init_subclass__", "TriggerDecorator")
    merged = None
    if disp is not None:
        for n in ast.walk(disp):
            if isinstance(n, ast.Call) and ast.unparse(n.func).endswith("func_args.update") and n.args:
                merged = ast.unparse(n.args[0])
    schema = None
    if sub is not None:
        for n in ast.walk(sub):
            if isinstance(n, ast.Dict) and n.keys and "'kwargs'" in ast.unparse(n.keys[0]):
                schema = ast.unparse(n.values[0])
    if merged is None or schema is None:
        broken.append(f"decorator_abc.TriggerDecorator: kwargs merge in dispatch / kwargs schema not found ({merged}, {schema})")
    else:
        new_ok = merged == "self.kwargs.get('kwargs') or {}" and schema.startswith("vol.Any(None,")
        new_old = merged == "self.kwargs.get('kwargs', {})" and schema.startswith("vol.Coerce(dict")
        if new_ok or new_old:
            body.append(f"def KWARGS_NONE_IS_EMPTY_NEW : Bool := {_b(new_ok)}")
        else:
            broken.append(f"decorator_abc.TriggerDecorator: kwargs merge / schema have an unknown shape: {merged} / {schema}")
    st = parse("state.py")
    upd = find_func(st, "update", "State")
    nd = find_func(st, "notify_del", "State")
    if upd is None or nd is None:
        broken.append("state.State.update / notify_del not found")
    else:
        puts = [n for n in ast.walk(upd) if isinstance(n, ast.Call) and ast.unparse(n.func) == "queue.put"]
        body.append(f"def UPDATE_COPIES_FUNC_ARGS : Bool := {_b(len(puts) == 1 and 'func_args.copy()' in ast.unparse(puts[0]))}")
        rec = [n for n in ast.walk(upd) if isinstance(n, ast.If) and ast.unparse(n.test) == "var_name in cls.notify"
               and any(isinstance(a, ast.Assign) and ast.unparse(a.targets[0]) == "cls.notify_var_last[var_name]"
                       and ast.unparse(a.value) == "var_val" for a in n.body)]
        body.append(f"def UPDATE_RECORDS_LAST_FOR_KEYS : Bool := {_b(len(rec) == 1)}")
        dels = [ast.unparse(t) for n in ast.walk(nd) if isinstance(n, ast.Delete) for t in n.targets]
        touches_last = any(isinstance(n, ast.Attribute) and n.attr == "notify_var_last" for n in ast.walk(nd))
        body.append("def NOTIFY_DEL_KEEPS_ENTRY : Bool := "
                    f"{_b(dels == ['cls.notify[state_var_name][queue]'] and not touches_last)}")
    emit("C04Shape", "\n".join(body))


EXTRACTORS = [gen_c04_shape]
