"""C10 tables: `load_paths` of load_scripts (path, glob, check_config, autoload) and the context-name prefix set
that load_scripts / unload_scripts / start_global_contexts treat as "script contexts"."""
import ast  # noqa: F401  (helpers parse/find_func/emit/broken/lean_list/lean_str come from tools/extract.py)

KNOWN_GLOBS = {"*.py", "*/__init__.py", "*/**/*.py", "**/*.py"}


def gen_load_paths():
    tree = parse("__init__.py")  # noqa: F821
    fn = find_func(tree, "load_scripts")  # noqa: F821
    body = []
    if fn is None:
        broken.append("C10: load_scripts not found")  # noqa: F821
        emit("LoadPaths", "")  # noqa: F821
        return
    lp = None
    for node in ast.walk(fn):
        if isinstance(node, ast.Assign) and len(node.targets) == 1 and isinstance(node.targets[0], ast.Name) \
                and node.targets[0].id == "load_paths":
            lp = node.value
    rows = []
    ok = isinstance(lp, (ast.List, ast.Tuple))
    if ok:
        for e in lp.elts:
            if not (isinstance(e, (ast.List, ast.Tuple)) and len(e.elts) == 4
                    and all(isinstance(x, ast.Constant) for x in e.elts)
                    and isinstance(e.elts[0].value, str) and isinstance(e.elts[1].value, str)
                    and isinstance(e.elts[2].value, bool) and isinstance(e.elts[3].value, bool)):
                ok = False
                break
            rows.append(tuple(x.value for x in e.elts))
    if not ok:
        broken.append("C10: load_paths is not a literal list of [str, str, bool, bool]")  # noqa: F821
    elif any(r[1] not in KNOWN_GLOBS for r in rows):
        broken.append("C10: load_paths uses a glob pattern the model does not interpret: "  # noqa: F821
                      + str([r[1] for r in rows if r[1] not in KNOWN_GLOBS]))
    else:
        def b(x):
            return "true" if x else "false"
        body.append("def loadPaths : List (String × String × Bool × Bool) := [\n  "
                    + ",\n  ".join(f"({lean_str(p)}, {lean_str(g)}, {b(c)}, {b(a)})" for p, g, c, a in rows)  # noqa: F821
                    + "]")
    # the prefix set {"file", "apps", "modules", "scripts"} used to select script contexts (three places must agree)
    sets = []
    for name in ("load_scripts", "unload_scripts", "start_global_contexts"):
        f = find_func(tree, name)  # noqa: F821
        found = None
        if f is not None:
            for node in ast.walk(f):
                if isinstance(node, ast.Compare) and len(node.ops) == 1 and isinstance(node.ops[0], ast.NotIn) \
                        and isinstance(node.comparators[0], ast.Set):
                    xs = str_collection(node.comparators[0])  # noqa: F821
                    if xs is not None:
                        found = sorted(xs)
        sets.append(found)
    if sets[0] is None or any(s != sets[0] for s in sets):
        broken.append(f"C10: script-context prefix sets differ or not found: {sets}")  # noqa: F821
    else:
        body.append(f"def reloadPrefixes : List String := {lean_list(sets[0])}")  # noqa: F821
    emit("LoadPaths", "\n".join(body))  # noqa: F821


EXTRACTORS = [gen_load_paths]
