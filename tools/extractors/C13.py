"""C13 extractor: the SHAPE of `task.unique`, of the reaper and of the registry release in `run_coro`, read off
function.py / trigger.py / decorators/task.py on every run.

Gen/TaskTbl.lean (everything the C13 model's `Shape.extracted` / `current` are defined from):

  inductive Reg                     the five task registries of function.py
  UNIQUE_KEYS_ARE_TUPLES            task_unique, unique_name_used and both arms of task.name2id key the unique-name maps by
                                    the tuple (global ctx name, name)   (false: the pre-ef1f444 string f"{ctx}.{name}" +
                                    startswith)
  -- task_unique, after `key = …; curr_task = asyncio.current_task()`:
  UNIQUE_KILL_BEFORE_CLAIM          the block `if key in unique_name2task: …reaper_cancel…` precedes the claim block
  UNIQUE_KILLME_IF_OTHER            kill_me arm guarded by `task != curr_task`
  UNIQUE_KILLME_PARKS               `reaper_cancel(curr_task)` is followed by `await asyncio.sleep(<long>)`
  UNIQUE_KILL_NOT_SELF / _ONLY_OURS the conjuncts `task != curr_task` / `task in cls.our_tasks` of the displacing arm
  UNIQUE_CLAIM_ONLY_OURS            claim block guarded by `curr_task in cls.our_tasks`
  UNIQUE_CLAIM_DISCARDS_OLD         the previous owner's set loses the name (`unique_task2name[old].discard(key)`)
  UNIQUE_CLAIM_WRITES               which maps the claim stores into, in source order (both, keyed by the same key)
  -- reaper
  REAPER_ONE_FIFO_QUEUE             one `asyncio.Queue` made once in init(); reaper_cancel = `put_nowait(["cancel", task])`
                                    on it; the reaper loop takes commands with `await reaper_q.get()`
  REAPER_DETACHED                   the "cancel" arm calls `cmd[1].cancel()` and does not `await cmd[1]`
  REAPER_WAITS_FOR_START            …after `while cmd[1] in cls.unstarted_tasks and not cmd[1].done(): await asyncio.sleep(0)`
  -- run_coro
  RELEASE_IN_FINALLY                the release block sits in a `finally` of run_coro
  RELEASE_ATOMIC                    …and contains no await
  RELEASE_ORDER                     the registries it clears, in source order (names loop `for name in task2name[task]: del
                                    name2task[name]` then `del task2name[task]`, guarded by `task in task2name`)
  -- @task_unique
  LEGACY_CHECK_BEFORE_TASK          call_action returns False (no task) when kill_me and unique_name_used(...)
  LEGACY_CLAIM_PASSES_KILL_ME       do_func_call: `await task_unique_func(task_unique, **(self.task_unique_kwargs or {}))`
  LEGACY_CLAIM_GUARD_IS_NOT_NONE    …guarded by `task_unique is not None and task_unique_func`  (false: truthiness)
  NEW_DECO_CHECK_THEN_PLAIN_CLAIM   handle_call: `if self.kill_me: if unique_name_used(...): return False`, then
                                    `task_unique(name)` without kill_me, `return True`

Locals are recognised by role (the name assigned from `asyncio.current_task()`, the key, the looked-up owner), so renaming
them or reformatting does not matter; an extra statement, a different guard or a different callee does (TIE-BROKEN).
"""
import ast
import copy

REGS = ["unique_name2task", "unique_task2name", "task2context", "task2cb", "our_tasks"]


class _Ren(ast.NodeTransformer):
    def __init__(self, m):
        self.m = m

    def visit_Name(self, node):
        return ast.copy_location(ast.Name(id=self.m.get(node.id, node.id), ctx=node.ctx), node)


def _u(node, m=None):
    """unparsed source with locals renamed by role"""
    if m:
        node = _Ren(m).visit(copy.deepcopy(node))
    return ast.unparse(node)


def _body(fn):
    b = list(fn.body)
    if b and isinstance(b[0], ast.Expr) and isinstance(b[0].value, ast.Constant) and isinstance(b[0].value.value, str):
        b = b[1:]
    return b


def _is_log(st):
    return isinstance(st, ast.Expr) and isinstance(st.value, ast.Call) and _u(st.value.func).startswith("_LOGGER.")


def _b(v):
    return "true" if v else "false"


class Shape(Exception):
    pass


def _need(cond, what):
    if not cond:
        raise Shape(what)


def _neq(test, a, b):
    """`a != b` in any spelling"""
    return test in (f"{a} != {b}", f"{b} != {a}", f"{a} is not {b}", f"{b} is not {a}", f"not {a} == {b}", f"not {a} is {b}")


def shape_task_unique(fnpy):
    fac = find_func(fnpy, "task_unique_factory", "Function")
    _need(fac is not None, "Function.task_unique_factory not found")
    inner = [n for n in fac.body if isinstance(n, ast.AsyncFunctionDef)]
    _need(len(inner) == 1, "task_unique_factory: exactly one inner coroutine expected")
    tu = inner[0]
    args = [a.arg for a in tu.args.args]
    _need(len(args) == 2 and args[1] == "kill_me" and len(tu.args.defaults) == 1
          and _u(tu.args.defaults[0]) == "False", "task_unique(name, kill_me=False) signature")
    pname = args[0]
    m = {}
    tuple_keys = None
    rest = []
    for st in _body(tu):
        if isinstance(st, ast.Assign) and len(st.targets) == 1 and isinstance(st.targets[0], ast.Name):
            v = _u(st.value)
            if v == "asyncio.current_task()" and "CUR" not in m.values():
                m[st.targets[0].id] = "CUR"
                continue
            if tuple_keys is None and v == f"(ctx.get_global_ctx_name(), {pname})":
                tuple_keys, m[st.targets[0].id] = True, "KEY"
                continue
            if tuple_keys is None and v in ("f'{ctx.get_global_ctx_name()}.{%s}'" % pname,):
                tuple_keys, m[st.targets[0].id] = False, "KEY"
                continue
        if _is_log(st) or isinstance(st, ast.Pass):
            continue
        rest.append(st)
    _need(tuple_keys is not None, "task_unique: key assignment `(ctx.get_global_ctx_name(), name)` not found")
    _need("CUR" in m.values(), "task_unique: `curr_task = asyncio.current_task()` not found")
    N2T, T2N = "cls.unique_name2task", "cls.unique_task2name"

    def has_cancel(node):
        return any(isinstance(c, ast.Call) and _u(c.func) == "cls.reaper_cancel" for c in ast.walk(node))

    kill = [i for i, st in enumerate(rest) if has_cancel(st)]
    _need(len(kill) == 1 and isinstance(rest[kill[0]], ast.If), "task_unique: one `if key in unique_name2task:` block with the reaper_cancel calls")
    kb = rest[kill[0]]
    _need(_u(kb.test, m) == f"KEY in {N2T}" and not kb.orelse, "task_unique: kill block test `key in cls.unique_name2task`")
    ks = [s for s in kb.body if not _is_log(s)]
    _need(len(ks) == 2 and isinstance(ks[0], ast.Assign) and isinstance(ks[0].targets[0], ast.Name)
          and _u(ks[0].value, m) == f"{N2T}[KEY]" and isinstance(ks[1], ast.If), "task_unique: `task = unique_name2task[key]; if kill_me: … elif …`")
    mk = dict(m)
    mk[ks[0].targets[0].id] = "OLD"
    arm = ks[1]
    _need(_u(arm.test) == "kill_me", "task_unique: `if kill_me:` arm")
    # kill_me arm
    kmb = [s for s in arm.body if not _is_log(s)]
    if_other = False
    if len(kmb) == 1 and isinstance(kmb[0], ast.If) and not kmb[0].orelse and _neq(_u(kmb[0].test, mk), "OLD", "CUR"):
        if_other = True
        kmb = [s for s in kmb[0].body if not _is_log(s)]
    _need(len(kmb) in (1, 2) and _u(kmb[0], mk) == "cls.reaper_cancel(CUR)", "task_unique: kill_me arm must hand the CALLER to the reaper")
    parks = False
    if len(kmb) == 2:
        aw = kmb[1]
        _need(isinstance(aw, ast.Expr) and isinstance(aw.value, ast.Await) and isinstance(aw.value.value, ast.Call)
              and _u(aw.value.value.func) == "asyncio.sleep" and len(aw.value.value.args) == 1
              and isinstance(aw.value.value.args[0], ast.Constant) and aw.value.value.args[0].value >= 3600,
              "task_unique: kill_me arm `await asyncio.sleep(<long>)`")
        parks = True
    # displacing arm
    oe = [s for s in arm.orelse if not _is_log(s)]
    _need(len(oe) == 1, "task_unique: displacing arm (`elif … : cls.reaper_cancel(task)`)")
    conj = []
    if isinstance(oe[0], ast.If):
        _need(not oe[0].orelse, "task_unique: displacing arm has an else")
        t = oe[0].test
        conj = [_u(v, mk) for v in t.values] if isinstance(t, ast.BoolOp) and isinstance(t.op, ast.And) else [_u(t, mk)]
        dis = [s for s in oe[0].body if not _is_log(s)]
    else:
        dis = oe
    _need(len(dis) == 1 and _u(dis[0], mk) == "cls.reaper_cancel(OLD)", "task_unique: displacing arm must hand the OLD OWNER to the reaper")
    not_self = any(_neq(c, "OLD", "CUR") for c in conj)
    only_ours = "OLD in cls.our_tasks" in conj
    _need(len(conj) == int(not_self) + int(only_ours), f"task_unique: unknown conjunct in the displacing guard {conj}")
    # claim block
    others = [st for i, st in enumerate(rest) if i != kill[0]]
    _need(others, "task_unique: claim block missing")
    pos_claim = min(i for i, st in enumerate(rest) if i != kill[0])
    if len(others) == 1 and isinstance(others[0], ast.If) and _u(others[0].test, m) == "CUR in cls.our_tasks" and not others[0].orelse:
        claim_only_ours, cs = True, [s for s in others[0].body if not _is_log(s)]
    else:
        claim_only_ours, cs = False, others
    writes, discards = [], False
    for st in cs:
        txt = _u(st, m)
        if txt == f"{N2T}[KEY] = CUR":
            writes.append("unique_name2task")
        elif txt in (f"{T2N}[CUR].add(KEY)", f"{T2N}.setdefault(CUR, set()).add(KEY)"):
            writes.append("unique_task2name")
        elif txt == f"if CUR not in {T2N}:\n    {T2N}[CUR] = set()":
            pass
        elif isinstance(st, ast.If) and _u(st.test, m) == f"KEY in {N2T}" and not st.orelse:
            b = [s for s in st.body if not _is_log(s)]
            _need(len(b) == 2 and isinstance(b[0], ast.Assign) and isinstance(b[0].targets[0], ast.Name)
                  and _u(b[0].value, m) == f"{N2T}[KEY]", "task_unique: claim block look-up of the previous owner")
            mo = dict(m)
            mo[b[0].targets[0].id] = "OLD"
            _need(_u(b[1], mo) in (f"if OLD in {T2N}:\n    {T2N}[OLD].discard(KEY)",), "task_unique: `unique_task2name[old].discard(key)`")
            _need(not writes, "task_unique: the previous owner's set must be updated before the new owner is stored")
            discards = True
        else:
            raise Shape(f"task_unique: unknown statement in the claim block: {txt.splitlines()[0]}")
    _need(len(set(writes)) == len(writes), "task_unique: a map is stored twice")
    return {"tuple": tuple_keys, "kill_before_claim": kill[0] < pos_claim, "if_other": if_other, "parks": parks,
            "not_self": not_self, "only_ours": only_ours, "claim_only_ours": claim_only_ours, "discards": discards,
            "writes": writes}


def shape_keys_elsewhere(fnpy):
    """unique_name_used and task.name2id: tuple keys (True) / string keys (False)"""
    used = find_func(fnpy, "unique_name_used", "Function")
    _need(used is not None, "Function.unique_name_used not found")
    rets = [n for n in ast.walk(used) if isinstance(n, ast.Return)]
    _need(len(rets) == 1, "unique_name_used: one return")
    r = _u(rets[0].value)
    if r == "(ctx.get_global_ctx_name(), name) in cls.unique_name2task":
        a = True
    elif r == "name in cls.unique_name2task" and "f'{ctx.get_global_ctx_name()}.{name}'" in _u(used):
        a = False
    else:
        raise Shape(f"unique_name_used: unknown membership test `{r}`")
    fac = find_func(fnpy, "task_name2id_factory", "Function")
    _need(fac is not None, "Function.task_name2id_factory not found")
    src = _u(fac)
    tup = ["[0] == ctx_name" in src, "cls.unique_name2task[ctx_name, name]" in src,
           "(ctx_name, name) in cls.unique_name2task" in src, "ret[task_name[1]] = task_id" in src]
    old = [".startswith(prefix)" in src, "[prefix + name]" in src, "prefix + name in cls.unique_name2task" in src]
    if all(tup) and not any(old):
        b = True
    elif all(old) and not any(tup):
        b = False
    else:
        raise Shape("task.name2id: neither the tuple-key nor the prefix-string shape")
    _need("raise NameError" in src, "task.name2id(name): NameError for an unknown name")
    return a, b


def shape_reaper(fnpy):
    init = find_func(fnpy, "init", "Function")
    _need(init is not None, "Function.init not found")
    rp = [n for n in ast.walk(init) if isinstance(n, ast.AsyncFunctionDef) and n.name == "task_reaper"]
    _need(len(rp) == 1, "init: task_reaper coroutine")
    rp = rp[0]
    qarg = rp.args.args[0].arg
    gets = [n for n in ast.walk(rp) if isinstance(n, ast.Await) and _u(n.value) == f"{qarg}.get()"]
    _need(len(gets) == 1, "task_reaper: one `await reaper_q.get()`")
    mk = [n for n in ast.walk(init) if isinstance(n, ast.Assign) and _u(n.targets[0]) == "cls.task_reaper_q"]
    _need(len(mk) == 1 and _u(mk[0].value) in ("asyncio.Queue(0)", "asyncio.Queue()"), "init: `cls.task_reaper_q = asyncio.Queue(0)`")
    start = [n for n in ast.walk(init) if isinstance(n, ast.Assign) and _u(n.targets[0]) == "cls.task_reaper"]
    _need(len(start) == 1 and _u(start[0].value) == "cls.create_task(task_reaper(cls.task_reaper_q))", "init: one reaper task on that queue")
    rc = find_func(fnpy, "reaper_cancel", "Function")
    _need(rc is not None and [_u(s) for s in _body(rc)] == ["cls.task_reaper_q.put_nowait(['cancel', task])"],
          "reaper_cancel: `cls.task_reaper_q.put_nowait(['cancel', task])`")
    arms = [n for n in ast.walk(rp) if isinstance(n, ast.If) and _u(n.test) == "cmd[0] == 'cancel'"]
    _need(len(arms) == 1, "task_reaper: `if cmd[0] == 'cancel':` arm")
    arm = arms[0]
    cancels = [n for n in ast.walk(arm) if isinstance(n, ast.Call) and _u(n) == "cmd[1].cancel()" and n in
               [c for s in arm.body for c in ast.walk(s)]]
    _need(len(cancels) == 1, "task_reaper: one `cmd[1].cancel()`")
    body_aw = [n for s in arm.body for n in ast.walk(s) if isinstance(n, ast.Await)]
    awaits_task = [a for a in body_aw if _u(a.value) == "cmd[1]"]
    waits = [s for s in arm.body if isinstance(s, ast.While)]
    waits_for_start = False
    if waits:
        _need(len(waits) == 1 and _u(waits[0].test) == "cmd[1] in cls.unstarted_tasks and (not cmd[1].done())"
              and [_u(s) for s in waits[0].body] == ["await asyncio.sleep(0)"] and waits[0].lineno < cancels[0].lineno,
              "task_reaper: `while cmd[1] in cls.unstarted_tasks and not cmd[1].done(): await asyncio.sleep(0)` before cancel()")
        waits_for_start = True
    other = [a for a in body_aw if a not in awaits_task and not (waits and a in list(ast.walk(waits[0])))]
    _need(not other, "task_reaper: unknown await in the cancel arm")
    return {"detached": not awaits_task, "waits_for_start": waits_for_start}


def shape_release(fnpy):
    rc = find_func(fnpy, "run_coro", "Function")
    _need(rc is not None, "Function.run_coro not found")
    outer = [s for s in rc.body if isinstance(s, ast.Try)]
    _need(len(outer) == 1 and outer[0].finalbody, "run_coro: try … finally")
    fin = outer[0].finalbody

    def is_release(st):
        return any(f"cls.{r}" in _u(st) for r in REGS) and "cls.task2cb[task]['cb']" not in _u(st)

    inner = [s for s in fin if isinstance(s, ast.Try) and s.finalbody]
    if inner and any(is_release(s) for s in inner[0].finalbody):
        _need(len(inner) == 1, "run_coro: one inner try … finally")
        block = inner[0].finalbody
        _need(not any(is_release(s) for s in fin if s is not inner[0]), "run_coro: release statements outside the inner finally")
    else:
        block = [s for s in fin if is_release(s)]
    order = []
    for st in block:
        t = _u(st)
        if t == ("if task in cls.unique_task2name:\n    for name in cls.unique_task2name[task]:\n"
                 "        del cls.unique_name2task[name]\n    del cls.unique_task2name[task]"):
            order += ["unique_name2task", "unique_task2name"]
        elif t == "cls.task2context.pop(task, None)":
            order.append("task2context")
        elif t == "cls.task2cb.pop(task, None)":
            order.append("task2cb")
        elif t == "cls.our_tasks.discard(task)":
            order.append("our_tasks")
        elif _is_log(st):
            pass
        else:
            raise Shape(f"run_coro: unknown statement in the release block: {t.splitlines()[0]}")
    _need(len(set(order)) == len(order), "run_coro: a registry is released twice")
    atomic = not any(isinstance(n, (ast.Await, ast.AsyncFor, ast.AsyncWith)) for s in block for n in ast.walk(s))
    return {"in_finally": True, "atomic": atomic, "order": order}


def shape_decorators():
    tr = parse("trigger.py")
    ca = find_func(tr, "call_action", "TrigInfo")
    _need(ca is not None, "trigger.TrigInfo.call_action not found")
    dfc = [n for n in ast.walk(ca) if isinstance(n, ast.AsyncFunctionDef) and n.name == "do_func_call"]
    _need(len(dfc) == 1, "call_action: do_func_call coroutine")
    calls = [n for n in ast.walk(dfc[0]) if isinstance(n, ast.Await) and isinstance(n.value, ast.Call)
             and _u(n.value.func) == "task_unique_func"]
    _need(len(calls) == 1, "do_func_call: one `await task_unique_func(...)`")
    c = _u(calls[0].value)
    if c == "task_unique_func(task_unique, **self.task_unique_kwargs or {})":
        passes = True
    elif c == "task_unique_func(task_unique)":
        passes = False
    else:
        raise Shape(f"do_func_call: unknown claim call `{c}`")
    guard = [n for n in ast.walk(dfc[0]) if isinstance(n, ast.If) and calls[0] in list(ast.walk(n))]
    _need(len(guard) == 1, "do_func_call: the claim sits under one `if`")
    g = _u(guard[0].test)
    if g == "task_unique is not None and task_unique_func":
        not_none = True
    elif g == "task_unique and task_unique_func":
        not_none = False
    else:
        raise Shape(f"do_func_call: unknown guard `{g}`")
    # the claim is the first thing after store_hass_context, before the function body is called
    body = [s for s in _body(dfc[0]) if not _is_log(s)]
    _need(body and _u(body[0]) == "Function.store_hass_context(hass_context)" and body[1] is guard[0],
          "do_func_call: store_hass_context, then the claim, then the call")
    # dispatcher check
    chk = [n for n in ca.body if isinstance(n, ast.If) and "Function.unique_name_used(action_ast_ctx, self.task_unique)" in _u(n.test)]
    _need(len(chk) == 1 and "self.task_unique_kwargs['kill_me']" in _u(chk[0].test)
          and any(isinstance(s, ast.Return) and _u(s.value) == "False" for s in chk[0].body),
          "call_action: kill_me check `… and Function.unique_name_used(…): return False`")
    mk = [n for n in ast.walk(ca) if isinstance(n, ast.Call) and _u(n.func) == "Function.create_task"]
    _need(len(mk) == 1 and chk[0].lineno < mk[0].lineno, "call_action: the check precedes create_task")
    # new subsystem
    dt = ast.parse((SRC / "decorators" / "task.py").read_text())
    hc = find_func(dt, "handle_call", "TaskUniqueDecorator")
    _need(hc is not None, "decorators/task.TaskUniqueDecorator.handle_call not found")
    b = [s for s in _body(hc) if not _is_log(s)]
    ok = (len(b) == 4 and isinstance(b[0], ast.If) and _u(b[0].test) == "self.kill_me"
          and len(b[0].body) == 1 and isinstance(b[0].body[0], ast.If)
          and _u(b[0].body[0].test) == "Function.unique_name_used(data.call_ast_ctx, self.args[0])"
          and any(isinstance(s, ast.Return) and _u(s.value) == "False" for s in b[0].body[0].body)
          and _u(b[1]) == "task_unique_func = Function.task_unique_factory(data.call_ast_ctx)"
          and _u(b[2]) == "await task_unique_func(self.args[0])" and _u(b[3]) == "return True")
    _need(ok, "TaskUniqueDecorator.handle_call: `if self.kill_me: if unique_name_used(…): return False`, claim, `return True`")
    return {"passes": passes, "not_none": not_none}


def gen_task_tbl():
    fnpy = parse("function.py")
    body = ["inductive Reg where\n  | " + " | ".join(REGS) + "\nderiving DecidableEq, Repr"]

    def section(name, fn):
        try:
            return fn()
        except Shape as e:
            broken.append(f"function.py/{name}: {e}")
        except Exception as e:  # pylint: disable=broad-except
            broken.append(f"function.py/{name}: {type(e).__name__}: {e}")
        return None

    tu = section("task_unique", lambda: shape_task_unique(fnpy))
    ke = section("keys", lambda: shape_keys_elsewhere(fnpy))
    if tu and ke:
        ks = {tu["tuple"], ke[0], ke[1]}
        if len(ks) == 1:
            body.append(f"def UNIQUE_KEYS_ARE_TUPLES : Bool := {_b(tu['tuple'])}")
        else:
            broken.append("function.py/keys: task_unique, unique_name_used and task.name2id do not build the same kind of key")
    if tu:
        body += [f"def UNIQUE_KILL_BEFORE_CLAIM : Bool := {_b(tu['kill_before_claim'])}",
                 f"def UNIQUE_KILLME_IF_OTHER : Bool := {_b(tu['if_other'])}",
                 f"def UNIQUE_KILLME_PARKS : Bool := {_b(tu['parks'])}",
                 f"def UNIQUE_KILL_NOT_SELF : Bool := {_b(tu['not_self'])}",
                 f"def UNIQUE_KILL_ONLY_OURS : Bool := {_b(tu['only_ours'])}",
                 f"def UNIQUE_CLAIM_ONLY_OURS : Bool := {_b(tu['claim_only_ours'])}",
                 f"def UNIQUE_CLAIM_DISCARDS_OLD : Bool := {_b(tu['discards'])}",
                 "def UNIQUE_CLAIM_WRITES : List Reg := [" + ", ".join("." + w for w in tu["writes"]) + "]"]
    rp = section("task_reaper", lambda: shape_reaper(fnpy))
    if rp:
        body += ["def REAPER_ONE_FIFO_QUEUE : Bool := true",
                 f"def REAPER_DETACHED : Bool := {_b(rp['detached'])}",
                 f"def REAPER_WAITS_FOR_START : Bool := {_b(rp['waits_for_start'])}"]
    rl = section("run_coro", lambda: shape_release(fnpy))
    if rl:
        body += [f"def RELEASE_IN_FINALLY : Bool := {_b(rl['in_finally'])}",
                 f"def RELEASE_ATOMIC : Bool := {_b(rl['atomic'])}",
                 "def RELEASE_ORDER : List Reg := [" + ", ".join("." + w for w in rl["order"]) + "]"]
    dc = section("@task_unique", shape_decorators)
    if dc:
        body += ["def LEGACY_CHECK_BEFORE_TASK : Bool := true",
                 f"def LEGACY_CLAIM_PASSES_KILL_ME : Bool := {_b(dc['passes'])}",
                 f"def LEGACY_CLAIM_GUARD_IS_NOT_NONE : Bool := {_b(dc['not_none'])}",
                 "def NEW_DECO_CHECK_THEN_PLAIN_CLAIM : Bool := true"]
    emit("TaskTbl", "\n".join(body))


EXTRACTORS = [gen_task_tbl]
