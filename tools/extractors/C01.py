"""C01/C02 table: the names of the `ast_*` node handlers that AstEval implements (dispatch is by name in aeval)."""
import ast as _ast


def gen_handlers():
    tree = parse("eval.py")
    names = []
    for node in _ast.walk(tree):
        if isinstance(node, _ast.ClassDef) and node.name == "AstEval":
            for sub in node.body:
                if isinstance(sub, (_ast.FunctionDef, _ast.AsyncFunctionDef)) and sub.name.startswith("ast_"):
                    names.append(sub.name)
    if not names:
        broken.append("eval.AstEval: no ast_* handlers found")
        emit("Handlers", "")
        return
    emit("Handlers", f"def AST_HANDLERS : List String := {lean_list(sorted(names))}")


EXTRACTORS = [gen_handlers]
