"""C06 tables: the unit table of trigger.parse_time_offset (if/elif chain over string sets -> Gen.TimeUnits).

The helpers of tools/extract.py (parse, find_func, emit, broken, lean_list, ast) are in scope."""


def _const_int(node):
    """value of a constant integer expression made of literals, * and + (e.g. 60 * 60 * 24 * 7)"""
    if isinstance(node, ast.Constant) and isinstance(node.value, int):
        return node.value
    if isinstance(node, ast.BinOp) and isinstance(node.op, (ast.Mult, ast.Add)):
        l, r = _const_int(node.left), _const_int(node.right)
        if l is None or r is None:
            return None
        return l * r if isinstance(node.op, ast.Mult) else l + r
    return None


def _str_set(node):
    if isinstance(node, (ast.Set, ast.Tuple, ast.List)) and all(
            isinstance(e, ast.Constant) and isinstance(e.value, str) for e in node.elts):
        return sorted(e.value for e in node.elts)
    return None


def gen_time_units():
    fn = find_func(parse("trigger.py"), "parse_time_offset")
    if fn is None:
        broken.append("C06: parse_time_offset not found")
        emit("TimeUnits", "")
        return
    rows, seconds_names, default_scale = [], None, None
    for n in ast.walk(fn):
        if isinstance(n, ast.Assign) and len(n.targets) == 1 and isinstance(n.targets[0], ast.Name) \
                and n.targets[0].id == "scale" and default_scale is None:
            default_scale = _const_int(n.value)
    for n in ast.walk(fn):
        if not isinstance(n, ast.If) or not isinstance(n.test, ast.Compare) or len(n.test.ops) != 1:
            continue
        names = _str_set(n.test.comparators[0])
        if names is None:
            continue
        if isinstance(n.test.ops[0], ast.In):
            sc = [_const_int(s.value) for s in n.body if isinstance(s, ast.Assign) and isinstance(s.targets[0], ast.Name)
                  and s.targets[0].id == "scale"]
            if len(sc) != 1 or sc[0] is None:
                broken.append("C06: parse_time_offset: an `in {…}` branch does not assign a constant scale")
                emit("TimeUnits", "")
                return
            rows.append((names, sc[0]))
        elif isinstance(n.test.ops[0], ast.NotIn):
            seconds_names = names
    if not rows or seconds_names is None or default_scale is None:
        broken.append("C06: parse_time_offset: unit chain shape not recognised")
        emit("TimeUnits", "")
        return
    rows.insert(0, (seconds_names, default_scale))
    body = "/-- `(unit names, seconds per unit)` of `parse_time_offset`, the first row being the default (seconds) -/\n"
    body += "def timeUnits : List (List String × Nat) :=\n  [" + ",\n   ".join(f"({lean_list(ns)}, {sc})" for ns, sc in rows) + "]"
    emit("TimeUnits", body)


EXTRACTORS = [gen_time_units]
