"""Regenerate MANIFEST.json from tools/manifest_data.py (keeps the file valid at all times)."""
import json
import sys
from pathlib import Path

ROOT = Path(__file__).resolve().parent.parent
sys.path.insert(0, str(ROOT / "tools"))
import manifest_data as md  # noqa: E402

props = [json.loads(l)["id"] for l in (ROOT / "properties.jsonl").read_text().splitlines() if l.strip()]
checks = []
for pid in props:
    if pid not in md.CLAIMED:
        continue
    c = md.CLAIMED[pid]
    checks.append({
        "property_id": pid,
        "quick_cmd": f"./check {pid} --tier quick",
        "thorough_cmd": f"./check {pid} --tier thorough",
        "evidence_file": f"evidence/{pid}.json",
        "replay_cmd_template": f"./check {pid} --replay {{path}}",
        "engine": "lean-proof+correspondence",
        "level_claimed": {"category": "proof", "text": c["text"], "design_ref": c.get("design_ref", f"DESIGN.md §5 {pid}")},
        "level_note": c["note"],
        "technique": c["technique"],
    })
man = {
    "version": 1,
    "setup_cmd": "./check --setup",
    "hooks": {
        "guard": "PYSCRIPT_VERIF",
        "enable": "no source hooks are needed: every observation point is reached by monkey-patching from the harness",
        "baseline_off_cmd": "cd /repo && /venv/bin/python -m pytest -ra -q -p no:cacheprovider --timeout=900 --continue-on-collection-errors",
        "source_commits": md.HOOK_COMMITS,
        "add_only": True,
    },
    "engines": [{
        "name": "lean-proof+correspondence", "path": "check",
        "serves_properties": [p for p in props if p in md.CLAIMED],
        "kind_free_text": "Lean 4 theorems over hand-written executable models (lean/PsModel), tied to /repo on every run by "
                          "extracted tables (tools/extract.py -> Gen/*.lean) and a behavioural correspondence check "
                          "(harness/run_Cxx.py: real pyscript code vs the compiled Lean driver verifdrv)",
    }],
    "checks": checks,
    "notes": md.NOTES,
    "not_applicable": [{"property_id": p, "reason": md.NOT_APPLICABLE.get(p, "model and proofs not built yet in this round; no check is claimed")}
                       for p in props if p not in md.CLAIMED],
}
(ROOT / "MANIFEST.json").write_text(json.dumps(man, indent=1) + "\n")
print("claimed", [c["property_id"] for c in checks])
