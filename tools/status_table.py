"""Print markdown status tables (properties, findings, seeded changes) from the files in this checkout."""
import json, re, sys
from pathlib import Path
ROOT = Path(__file__).resolve().parent.parent
sys.path.insert(0, str(ROOT / "harness"))
import common  # noqa: E402

props = [json.loads(l) for l in (ROOT / "properties.jsonl").read_text().splitlines() if l.strip()]
find = json.loads((ROOT / "known_findings.json").read_text())["findings"]
print("| id | title | theorems (Props/Cxx.lean) | open findings | fixed findings | quick cases (last evidence) |")
print("|---|---|---|---|---|---|")
for p in props:
    pid = p["id"]
    f = ROOT / "lean" / "PsModel" / "Props" / f"{pid}.lean"
    n = len(common.theorem_names(f)) if f.exists() else 0
    op = [e["id"] for e in find if e["property"] == pid and e["status"] == "open"]
    fx = [e["id"] for e in find if e["property"] == pid and e["status"] == "fixed"]
    ev = ROOT / "evidence" / f"{pid}.json"
    cases = json.loads(ev.read_text())["coverage"].get("evaluations", "-") if ev.exists() else "-"
    print(f"| {pid} | {p['title']} | {n if n else 'not built'} | {', '.join(op) or '–'} | {', '.join(fx) or '–'} | {cases} |")
print()
print("Per property: what is proved for all inputs / histories / schedules, and what is only tied by correspondence "
      "(from `tools/manifest/Cxx.json`, the same text as MANIFEST.json's level_claimed.text and level_note):")
print()
for p in props:
    mf = ROOT / "tools" / "manifest" / f"{p['id']}.json"
    if mf.exists():
        j = json.loads(mf.read_text())
        print(f"* **{p['id']}** – {j['text']}  *Assumptions / trusted base:* {j['note']}")
    else:
        print(f"* **{p['id']}** – not claimed (see `not_applicable` in MANIFEST.json).")
print()
print("| finding | status | commit | what |")
print("|---|---|---|---|")
for e in find:
    print(f"| {e['id']} | {e['status']} | {e.get('commit', '')} | {e['what'][:230].replace('|', '/')} |")
print()
sd = ROOT / "seeded"
if sd.exists():
    print("| seeded change | what was changed (seeder's own title) | pinned tests | demo (repo / patched) | detected by | what the check reported |")
    print("|---|---|---|---|---|---|")
    for d in sorted(sd.iterdir()):
        m = d / "meta.json"
        if not m.exists():
            continue
        j = json.loads(m.read_text())
        rep = j.get("first_replay", {})
        what = (rep.get("reason") or rep.get("kind") or "") if isinstance(rep, dict) else ""
        notes = d / "notes.md"
        title = ""
        if notes.exists():
            first = next((l for l in notes.read_text().splitlines() if l.strip()), "")
            title = re.sub(r"^#+\s*", "", first)
            title = re.sub(r"^%s\s*[-–—:]+\s*" % re.escape(j["id"]), "", title)
        print(f"| {j['id']} | {title[:170].replace('|', '/')} | {'pass' if j.get('pinned_tests_pass') else 'FAIL'} | {j.get('demo_on_repo_rc')} / {j.get('demo_on_patched_rc')} | "
              f"{'`./check ' + j['property'] + '` (quick)' if j.get('detected') else ('not a violation any more (demo passes on the patched tree: neutralised by a later fix) - check rightly silent' if j.get('demo_on_patched_rc') == 0 and j.get('patch_applies') else ('patch no longer applies' if j.get('patch_applies') is False else 'MISSED'))} | {str(what)[:160].replace('|', '/')} |")
