"""Shared machinery of the /verif checks: extract -> prove -> correspond -> classify/search -> evidence.

Everything here is run by /venv/bin/python (the interpreter that has pyscript's dependencies).
Paths are relative to this checkout; /repo can be overridden with VERIF_REPO for scratch worktrees.
"""
import fcntl
import json
import os
import random
import re
import subprocess
import sys
import time
from pathlib import Path

ROOT = Path(__file__).resolve().parent.parent
REPO = Path(os.environ.get("VERIF_REPO", "/repo"))
LEAN = ROOT / "lean"
DRV = LEAN / ".lake" / "build" / "bin" / "verifdrv"
# evidence/ only ever describes runs against /repo itself: runs against a scratch tree (VERIF_REPO) write elsewhere
EVID = (Path(os.environ["VERIF_EVIDENCE_DIR"]) if os.environ.get("VERIF_EVIDENCE_DIR")
        else (ROOT / "replays" / "evidence-scratch" if os.environ.get("VERIF_REPO") else ROOT / "evidence"))
REPLAYS = ROOT / "replays"
ALLOWED_AXIOMS = {"propext", "Classical.choice", "Quot.sound"}
FORBIDDEN = re.compile(r"\b(sorry|admit|native_decide|bv_decide|implemented_by)\b|^\s*axiom\s|\bunsafe\s|maxHeartbeats\s+0\b")

if str(REPO) not in sys.path:
    sys.path.insert(0, str(REPO))


def seed():
    try:
        return int(os.environ.get("VERIF_SEED", "0"))
    except ValueError:
        return 0


# --------------------------------------------------------------------------- S-expressions
def sx(obj):
    """Render python ints/strs/bools/lists/tuples as an S-expression understood by PsModel.Util.Sexp."""
    if isinstance(obj, bool):
        return "1" if obj else "0"
    if isinstance(obj, int):
        return str(obj)
    if obj is None:
        return "none"
    if isinstance(obj, (list, tuple)):
        return "(" + " ".join(sx(o) for o in obj) + ")"
    s = str(obj)
    if s == "" or any(c.isspace() or c in '()"\\' for c in s):
        return '"' + s.replace("\\", "\\\\").replace('"', '\\"').replace("\n", "\\n") + '"'
    return s


def parse_sx(s):
    """Parse one S-expression (as printed by the driver) into nested python lists / strings."""
    toks = []
    i, n = 0, len(s)
    while i < n:
        c = s[i]
        if c.isspace():
            i += 1
        elif c in "()":
            toks.append(c)
            i += 1
        elif c == '"':
            i += 1
            buf = []
            while i < n and s[i] != '"':
                if s[i] == "\\" and i + 1 < n:
                    i += 1
                    buf.append("\n" if s[i] == "n" else s[i])
                else:
                    buf.append(s[i])
                i += 1
            i += 1
            toks.append(("a", "".join(buf)))
        else:
            j = i
            while j < n and not s[j].isspace() and s[j] not in "()":
                j += 1
            toks.append(("a", s[i:j]))
            i = j
    stack = [[]]
    for t in toks:
        if t == "(":
            stack.append([])
        elif t == ")":
            x = stack.pop()
            stack[-1].append(x)
        else:
            stack[-1].append(t[1])
    top = stack[0]
    return top[0] if len(top) == 1 else top


# --------------------------------------------------------------------------- extract + build
class BuildResult:
    def __init__(self):
        self.tie_broken = []      # extractor failures
        self.shared_driver_note = None
        self.tie_broken_elsewhere = []   # withheld tables that this property's modules do not import
        self.build_ok = True
        self.driver_ok = True
        self.build_log = ""
        self.theorems = []        # names in Props/Cxx.lean
        self.axioms = {}          # theorem -> list of axioms (None when not printed)
        self.forbidden = []       # forbidden tokens found
        self.bad_axioms = {}      # theorem -> disallowed axioms
        self.missing = []         # theorems without an axioms line

    @property
    def proofs_ok(self):
        return (self.build_ok and not self.tie_broken and not self.forbidden and not self.bad_axioms
                and not self.missing and len(self.theorems) > 0)

    def broken_summary(self):
        out = []
        for t in self.tie_broken:
            out.append(f"extract:{t}")
        if not self.build_ok:
            m = re.findall(r"error: ([^\n]*)", self.build_log)
            out.append("lake-build-failed: " + " | ".join(m[:6]))
        for f in self.forbidden:
            out.append(f"forbidden-token:{f}")
        for t, a in self.bad_axioms.items():
            out.append(f"axioms:{t}:{a}")
        for t in self.missing:
            out.append(f"no-axiom-report:{t}")
        return out


def _lock():
    lock = open(LEAN / ".build.lock", "w")
    fcntl.flock(lock, fcntl.LOCK_EX)
    return lock


def run_extract():
    """Regenerate lean/PsModel/Gen/*.lean from the working tree of REPO.  Returns list of tie failures."""
    p = subprocess.run([sys.executable, str(ROOT / "tools" / "extract.py"), str(REPO)],
                       capture_output=True, text=True)
    broken = [l[len("TIE-BROKEN "):].strip() for l in p.stdout.splitlines() if l.startswith("TIE-BROKEN ")]
    if p.returncode != 0:
        broken.append("extractor-crashed: " + p.stderr.strip().splitlines()[-1] if p.stderr.strip() else "extractor-crashed")
    return broken


def strip_comments(src):
    src = re.sub(r"/-.*?-/", "", src, flags=re.S)
    return re.sub(r"--[^\n]*", "", src)


def theorem_names(path):
    src = strip_comments(Path(path).read_text())
    ns = []
    cur = []
    names = []
    for line in src.splitlines():
        m = re.match(r"\s*namespace\s+(\S+)", line)
        if m:
            cur.append(m.group(1))
            continue
        m = re.match(r"\s*end\s+(\S+)", line)
        if m and cur and cur[-1] == m.group(1):
            cur.pop()
            continue
        m = re.match(r"\s*(?:@\[[^\]]*\]\s*)?(?:private\s+|protected\s+)?theorem\s+([^\s:({\[]+)", line)
        if m:
            names.append(".".join(cur + [m.group(1)]))
    return names


def module_closure(mod):
    """Local (PsModel.*) modules transitively imported by `mod` (dotted name)."""
    seen, todo = [], [mod]
    while todo:
        m = todo.pop()
        if m in seen:
            continue
        f = LEAN / (m.replace(".", "/") + ".lean")
        if not f.exists():
            continue
        seen.append(m)
        for imp in re.findall(r"^\s*import\s+(PsModel\.\S+)", f.read_text(), flags=re.M):
            todo.append(imp)
    return seen


def build_and_audit(prop, extra_targets=()):
    """extract, build Props.<prop> + driver, audit axioms.  Serialised by a file lock."""
    res = BuildResult()
    lock = _lock()
    try:
        props_mod = f"PsModel.Props.{prop}"
        closure = set(module_closure(props_mod)) | set(module_closure(f"PsModel.Drv.{prop}"))
        res.tie_broken = []
        for b in run_extract():
            m = re.match(r"\[([^\]]*)\] (.*)", b)
            # a withheld table only breaks the tie of the properties whose models import it
            if not m or m.group(1).startswith("?") or any(g in closure for g in m.group(1).split(",")):
                res.tie_broken.append(b)
            else:
                res.tie_broken_elsewhere.append(b)
        props_file = LEAN / "PsModel" / "Props" / f"{prop}.lean"
        res.theorems = theorem_names(props_file) if props_file.exists() else []
        global DRV
        d = subprocess.run(["lake", "build", "verifdrv"], cwd=LEAN, capture_output=True, text=True)
        res.driver_ok = d.returncode == 0
        if not res.driver_ok and (LEAN / f"Main{prop}.lean").exists():
            # the shared driver does not link because ANOTHER property's model does not build: use this property's own
            d1 = subprocess.run(["lake", "build", f"verifdrv_{prop}"], cwd=LEAN, capture_output=True, text=True)
            if d1.returncode == 0:
                DRV = LEAN / ".lake" / "build" / "bin" / f"verifdrv_{prop}"
                res.driver_ok = True
                res.shared_driver_note = "shared driver verifdrv did not build (another property's module); used verifdrv_" + prop
        targets = [f"+{props_mod}"] + list(extra_targets)
        p = subprocess.run(["lake", "build"] + targets, cwd=LEAN, capture_output=True, text=True)
        res.build_log = p.stdout + p.stderr + ("" if res.driver_ok else d.stdout + d.stderr)
        res.build_ok = p.returncode == 0 and res.driver_ok
        # forbidden tokens anywhere in the modules the property theorems depend on
        for m in module_closure(props_mod):
            f = LEAN / (m.replace(".", "/") + ".lean")
            for ln, line in enumerate(strip_comments(f.read_text()).splitlines(), 1):
                if FORBIDDEN.search(line):
                    res.forbidden.append(f"{m}:{ln}:{line.strip()[:60]}")
        if res.build_ok and res.theorems:
            audit = LEAN / "PsModel" / "Audit" / f"{prop}.lean"
            audit.parent.mkdir(exist_ok=True)
            audit.write_text(f"import {props_mod}\n" + "".join(f"#print axioms {t}\n" for t in res.theorems))
            q = subprocess.run(["lake", "env", "lean", str(audit.relative_to(LEAN))], cwd=LEAN,
                               capture_output=True, text=True)
            out = q.stdout + q.stderr
            for t in res.theorems:
                m = re.search(r"'" + re.escape(t) + r"' depends on axioms: \[([^\]]*)\]", out, flags=re.S)
                if m:
                    ax = [a.strip() for a in m.group(1).replace("\n", " ").split(",") if a.strip()]
                elif re.search(r"'" + re.escape(t) + r"' does not depend on any axioms", out):
                    ax = []
                else:
                    res.missing.append(t)
                    continue
                res.axioms[t] = ax
                bad = [a for a in ax if a not in ALLOWED_AXIOMS]
                if bad:
                    res.bad_axioms[t] = bad
    finally:
        lock.close()
    return res


def leanchecker(prop):
    """Thorough tier: independent re-check of the compiled property module."""
    p = subprocess.run(["lake", "env", "leanchecker", f"PsModel.Props.{prop}"], cwd=LEAN, capture_output=True, text=True)
    return p.returncode == 0, (p.stdout + p.stderr)[-2000:]


# --------------------------------------------------------------------------- driver
def drive(lines):
    """Pipe lines to the compiled Lean driver; returns one output line per input line."""
    if not lines:
        return []
    data = "\n".join(lines) + "\n"
    p = subprocess.run([str(DRV)], input=data, capture_output=True, text=True)
    outs = p.stdout.splitlines()
    if len(outs) != len(lines):
        outs += [f"err driver-died rc={p.returncode} {p.stderr.strip()[:200]}"] * (len(lines) - len(outs))
    return outs


# --------------------------------------------------------------------------- sharding over cores
def pmap(fn, items, workers=None, chunk=None):
    """Run fn(item) over items in forked worker processes (results in order).  fn and items must be picklable;
    each worker is a fresh fork, so pyscript's class-level state does not leak between shards beyond one worker."""
    import multiprocessing as mp
    from concurrent.futures import ProcessPoolExecutor
    items = list(items)
    if not items:
        return []
    workers = workers or min(12, os.cpu_count() or 4)
    if workers <= 1 or len(items) < 4:
        return [fn(i) for i in items]
    ctx = mp.get_context("fork")
    # ProcessPoolExecutor (unlike multiprocessing.Pool) raises BrokenProcessPool when a worker dies
    with ProcessPoolExecutor(max_workers=workers, mp_context=ctx) as ex:
        return list(ex.map(fn, items, chunksize=chunk or max(1, len(items) // (workers * 4))))


# --------------------------------------------------------------------------- known findings
def load_findings(prop):
    f = ROOT / "known_findings.json"
    if not f.exists():
        return []
    data = json.loads(f.read_text())
    return [e for e in data.get("findings", []) if e.get("property") == prop and e.get("status") == "open"]


def fixed_findings(prop):
    f = ROOT / "known_findings.json"
    if not f.exists():
        return []
    return [e for e in json.loads(f.read_text()).get("findings", [])
            if e.get("property") == prop and e.get("status") == "fixed"]


# --------------------------------------------------------------------------- the generic check
class Case:
    """One correspondence case.  `payload` is JSON-able (goes into replays/evidence)."""
    __slots__ = ("payload", "line", "impl", "model", "spec", "nontrivial", "tags")

    def __init__(self, payload, line, tags=()):
        self.payload = payload
        self.line = line          # driver line (string) or None when the case has no Lean column
        self.impl = None
        self.model = None
        self.spec = None
        self.nontrivial = True
        self.tags = tuple(tags)


def write_replay(prop, name, obj):
    REPLAYS.mkdir(exist_ok=True)
    path = REPLAYS / f"{prop}-{name}.json"
    path.write_text(json.dumps(obj, indent=1, default=str))
    return path


def write_evidence(prop, tier, t0, coverage, assumptions, violations):
    EVID.mkdir(parents=True, exist_ok=True)
    ev = {
        "property_id": prop, "tier": tier, "seed": seed(), "level": "proof",
        "coverage": coverage, "assumptions": assumptions,
        "wall_s": round(time.time() - t0, 2), "violations": violations,
    }
    (EVID / f"{prop}.json").write_text(json.dumps(ev, indent=1, default=str))


def run_check(mod, tier, replay=None):
    """mod: a run_Cxx module with PROP, ASSUMPTIONS, TRUSTED, gen_cases(rng, tier, search=False),
    run_impl(cases) (fills c.impl), split(outline)->(model,spec) optional, verdict(case)->None|reason,
    classify(case, reason)->signature string."""
    t0 = time.time()
    prop = mod.PROP
    rng = random.Random(seed() * 1000003 + sum(map(ord, prop)))
    findings = load_findings(prop)

    br = build_and_audit(prop)
    checker_ok, checker_log = (True, "")
    if tier == "thorough" and br.build_ok:
        checker_ok, checker_log = leanchecker(prop)

    if replay:
        cases = mod.replay_cases(json.loads(Path(replay).read_text()))
    else:
        cases = list(mod.gen_cases(rng, tier, False))
    _execute(mod, cases, br)
    tie_bad, viol, known = _judge(mod, cases, findings)

    searched = 0
    proofs_ok = br.proofs_ok and checker_ok
    if (not proofs_ok or tie_bad) and not viol and not replay:
        # failing-input search: bigger budget, impl vs spec only matters
        extra = list(mod.gen_cases(rng, tier, True))
        searched = len(extra)
        _execute(mod, extra, br)
        tb2, viol2, known2 = _judge(mod, extra, findings)
        cases += extra
        tie_bad += tb2
        viol += viol2
        known += known2

    # ---- report
    lines = []
    for sig, (c, reason, entry) in _dedupe_known(known).items():
        lines.append(f"KNOWN-FINDING: property={prop} {entry['id']}: {entry['what']}")
    nviol = 0
    exit_code = 0
    if viol:
        # report each distinct signature once
        seen = {}
        for c, reason in viol:
            sig = mod.classify(c, reason)
            if sig in seen:
                continue
            seen[sig] = True
            if len(seen) > 5:
                break
            c2 = mod.shrink(c, reason) if hasattr(mod, "shrink") else c
            path = write_replay(prop, f"{seed()}-{len(seen)}", {
                "property": prop, "kind": "failing-input", "reason": reason, "signature": sig,
                "case": c2.payload, "impl": c2.impl, "model": c2.model, "spec": c2.spec,
                "replay_cmd": f"./check {prop} --replay <this file>",
                "broken_obligations": br.broken_summary(),
            })
            lines.append(f"VIOLATION property={prop} replay={path}")
            nviol += 1
        exit_code = 1
    elif not proofs_ok or tie_bad:
        broken = br.broken_summary()
        if not checker_ok:
            broken.append("leanchecker-failed: " + checker_log[-300:])
        path = write_replay(prop, f"{seed()}-unproved", {
            "property": prop, "kind": "no-failing-input-found",
            "broken_obligations": broken,
            "correspondence_mismatches": [
                {"case": c.payload, "impl": c.impl, "model": c.model} for c in tie_bad[:5]],
            "searched_cases": searched,
            "note": "the property is no longer shown to hold: a theorem / the model-code tie does not check, "
                    "and the search found no input on which the implementation violates the property",
        })
        lines.append(f"VIOLATION property={prop} replay={path} no-failing-input-found")
        nviol = 1
        exit_code = 1

    nontriv = {json.dumps(c.payload, sort_keys=True, default=str) for c in cases if c.nontrivial}
    tags = {}
    for c in cases:
        for t in c.tags:
            tags[t] = tags.get(t, 0) + 1
    samples = [{"case": c.payload, "impl": c.impl, "model": c.model} for c in cases[:: max(1, len(cases) // 4)][:4]]
    cov = {
        "obligations": len(br.theorems),
        "discharged": len([t for t in br.theorems if t in br.axioms and t not in br.bad_axioms]) if br.proofs_ok else
                      len([t for t in br.theorems if t in br.axioms and t not in br.bad_axioms and br.build_ok]),
        "checker_cmd": f"cd lean && lake build +PsModel.Props.{prop} && lake env lean PsModel/Audit/{prop}.lean"
                       + (f" && lake env leanchecker PsModel.Props.{prop}" if tier == "thorough" else ""),
        "trusted_base": ["Lean 4.33.0 kernel", "axioms ⊆ {propext, Classical.choice, Quot.sound}: "
                         + json.dumps({t: a for t, a in br.axioms.items()})] + list(mod.TRUSTED),
        "theorems": br.theorems,
        "evaluations": len(cases),
        "distinct_nontrivial": len(nontriv),
        "rule": mod.RULE,
        "samples": samples or [{"note": "no cases"}],
        "traces_validated_against_impl": len([c for c in cases if c.model is not None and c.impl == c.model]),
        "correspondence_mismatches": len(tie_bad),
        "known_findings_hit": sorted({e["id"] for (_, _, e) in known}),
        "tag_histogram": tags,
        "failing_input_search_cases": searched,
        "leanchecker": ("ok" if checker_ok else "failed") if tier == "thorough" else "not-run (quick tier)",
        "proof_status": "ok" if proofs_ok else br.broken_summary(),
    }
    if hasattr(mod, "extra_coverage"):
        cov.update(mod.extra_coverage(cases))
    write_evidence(prop, tier, t0, cov, list(mod.ASSUMPTIONS), nviol)
    for l in lines:
        print(l)
    print(f"{prop} {tier}: theorems={len(br.theorems)} proofs_ok={proofs_ok} cases={len(cases)} "
          f"tie_mismatch={len(tie_bad)} violations={nviol} known={len(known)} wall={time.time()-t0:.1f}s")
    return exit_code


def _execute(mod, cases, br):
    mod.run_impl(cases)
    have = [c for c in cases if c.line is not None]
    if br.driver_ok and DRV.exists():
        outs = drive([c.line for c in have])
        for c, o in zip(have, outs):
            if hasattr(mod, "split"):
                c.model, c.spec = mod.split(o)
            else:
                c.model = o
    else:
        for c in have:
            c.model = "err driver-not-built"


def _judge(mod, cases, findings):
    tie_bad, viol, known = [], [], []
    for c in cases:
        if c.line is not None and c.model != c.impl:
            tie_bad.append(c)
        try:
            reason = mod.verdict(c)
        except Exception as e:  # pylint: disable=broad-except
            # the observation has a shape the oracle does not expect at all (only seen on changed trees): that is a
            # failing input, not a reason to crash the check
            reason = f"the oracle cannot judge this observation ({type(e).__name__}: {str(e)[:120]}): the implementation's " \
                     f"behaviour is outside everything the oracle expects"
        if reason:
            try:
                sig = mod.classify(c, reason)
            except Exception as e:  # pylint: disable=broad-except
                sig = f"unclassifiable:{type(e).__name__}"
            entry = next((e for e in findings if e["signature"] == sig), None)
            if entry:
                known.append((c, reason, entry))
            else:
                viol.append((c, reason))
    # a tie mismatch on a case that is itself a known finding / violation is already explained
    return tie_bad, viol, known


def _dedupe_known(known):
    out = {}
    for c, reason, e in known:
        out.setdefault(e["signature"], (c, reason, e))
    return out
