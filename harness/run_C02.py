"""C02 correspondence: control-flow skeletons run by pyscript's interpreter, by CPython, by the Lean model (PS) and by
the Lean reference semantics (Py).  impl == model is the tie; cpython == spec validates the reference semantics;
impl == cpython is the property itself."""
import asyncio
import itertools
import re

import common
from common import Case, sx

PROP = "C02"
RULE = ("control-flow skeletons over {if, for(-else), while(-else), try/except/else/finally, with(1-2 managers), assert, "
        "raise / raise-from / bare raise, break, continue, return}: (A) every construct with every jump in every block "
        "slot, (B) pairs outer-construct x slot x inner-construct x slot x jump, (C) random nestings to depth 6; each with "
        "random decision tapes.  (K) the same skeletons as `async def`, left by BaseException-only exceptions: raise of "
        "B0 / SystemExit / KeyboardInterrupt / GeneratorExit, and a REAL task cancellation (task.cancel() from the driver "
        "while the function is suspended at `await S(i)`) in every slot of every construct (bare, in a loop, inside "
        "try/finally, inside a suppressing manager) + random nestings; all four columns (pyscript, CPython, Lean model "
        "of today's code, Lean reference) with the finally / __exit__ events in the compared log.  (R) recursion from "
        "inside a finally clause / a script-defined __exit__ while `return <value>` of the same statement is pending; "
        "(W) 2-3 concurrent tasks (one AstEval each, shared EvalFunc) running the same function whose finally clause / "
        "__aexit__ suspends on a gate with `return <value>` pending, every start/release order: each activation must get "
        "its own value (also tied to the Lean marker-store model).  Distinct by (program, tape / schedule); non-trivial "
        "when the program contains at least one compound statement.")
ASSUMPTIONS = [
    "tracer T(i), the managers CM and the exception classes are host objects shared by both interpreters",
    "exceptions are compared by class and class of __cause__; tracebacks are C18's subject",
    "a deviation on a program with a BaseException-only exception is excused as C02-F4 ONLY when the Lean model of today's "
    "code (except clauses / __exit__ info skipped, finally ALWAYS run) reproduces pyscript's whole log and outcome",
    "cancellation is delivered by task.cancel() while the task waits at `await S(i)`; the tape value 2 at S(i) selects it",
    "return values are per activation: checked (families R, W), not assumed - one AstEval per task as in trigger runs",
]
TRUSTED = ["harness/run_C02.py (program renderer to Python source and to the driver's S-expressions)",
           "CPython itself as the oracle for the reference semantics (spec column == CPython on every case)"]

CLS = {0: "Exception", 1: "BaseException", 10: "E0", 11: "E1", 12: "E2",
       200: "B0", 202: "SystemExit", 203: "KeyboardInterrupt", 204: "GeneratorExit"}
CLSNUM = {"E0": 10, "E1": 11, "E2": 12, "RuntimeError": 100, "AssertionError": 101, "TypeError": 102,
          "B0": 200, "CancelledError": 201, "SystemExit": 202, "KeyboardInterrupt": 203, "GeneratorExit": 204}
BASE_ONLY = [200, 202, 203, 204]


# ------------------------------------------------------------------ program representation
class Gen:
    def __init__(self, rng):
        self.rng = rng
        self.t = itertools.count(1)
        self.m = itertools.count(1)

    def T(self):
        return ("T", next(self.t))

    def leaf(self, kind):
        """a leaf jump preceded by a tracer"""
        if kind == "fall":
            return [self.T()]
        if kind == "break":
            return [self.T(), "break"]
        if kind == "continue":
            return [self.T(), "continue"]
        if kind == "ret":
            return [self.T(), ("ret", next(self.t))]
        if kind == "raiseE1":
            return [self.T(), ("raise", 11, None)]
        if kind == "raiseE2":
            return [self.T(), ("raise", 12, None)]
        if kind == "raisefrom":
            return [self.T(), ("raise", 11, 12)]
        if kind == "reraise":
            return [self.T(), "reraise"]
        if kind == "assert":
            return [("assert", next(self.t))]
        if kind == "raiseB0":
            return [self.T(), ("raise", self.rng.choice(BASE_ONLY), None)]
        if kind == "suspend":
            return [self.T(), ("S", next(self.t))]
        raise ValueError(kind)


LEAVES = ["fall", "break", "continue", "ret", "raiseE1", "raiseE2", "raisefrom", "reraise", "assert"]
CONSTRUCTS = ["if", "ifelse", "for", "forelse", "while", "whileelse", "tryexc", "tryfin", "tryfull", "tryany",
              "with1", "with1s", "with2", "with2s", "with1e", "with1b", "with1bs", "with2b", "with2bs", "with1a",
              "tryexcT", "tryexcR", "with1x", "with1xs", "with2x"]
KCONSTRUCTS = CONSTRUCTS + ["tryB", "tryBE"]      # family K only: clauses that name a BaseException-only class / BaseException
KLEAVES = ["raiseB0", "suspend"]
SLOTS = {"tryB": 2, "tryBE": 3, "if": 1, "ifelse": 2, "for": 1, "forelse": 2, "while": 1, "whileelse": 2, "tryexc": 2, "tryfin": 2,
         "tryfull": 4, "tryany": 2, "with1": 1, "with1s": 1, "with2": 1, "with2s": 1, "with1e": 1,
         "with1b": 1, "with1bs": 1, "with2b": 1, "with2bs": 1, "with1a": 1,
         "tryexcT": 3, "tryexcR": 3, "with1x": 1, "with1xs": 1, "with2x": 1}


def build(g, construct, blocks):
    """blocks: list of statement lists, one per slot of the construct"""
    n = lambda: next(g.t)  # noqa: E731
    b = blocks
    if construct == "if":
        return ("if", n(), b[0], [])
    if construct == "ifelse":
        return ("if", n(), b[0], b[1])
    if construct == "for":
        return ("for", n(), b[0], [])
    if construct == "forelse":
        return ("for", n(), b[0], b[1])
    if construct == "while":
        return ("while", n(), b[0], [])
    if construct == "whileelse":
        return ("while", n(), b[0], b[1])
    if construct == "tryexc":
        return ("try", b[0], [([10], b[1])], [], [])
    if construct == "tryany":
        return ("try", b[0], [([12], [g.T()]), (None, b[1])], [], [])
    if construct == "tryfin":
        return ("try", b[0], [], [], b[1])
    if construct == "tryB":
        return ("try", b[0], [([200, 202], b[1])], [], [g.T()])
    if construct == "tryBE":
        return ("try", b[0], [([12], [g.T()]), ([1], b[1])], b[2], [g.T()])
    if construct == "tryfull":
        return ("try", b[0], [([12, 11], b[1])], b[2], b[3])
    if construct == "with1":
        return ("with", [(next(g.m), None, False)], b[0])
    if construct == "with1s":
        return ("with", [(next(g.m), None, True)], b[0])
    if construct == "with1e":
        return ("with", [(next(g.m), 12, False)], b[0])
    if construct == "with2":
        return ("with", [(next(g.m), None, False), (next(g.m), None, False)], b[0])
    if construct == "with2s":
        return ("with", [(next(g.m), None, False), (next(g.m), None, True)], b[0])
    # except clauses whose type expression carries a tracer (TX) or raises (RX raises E2): evaluated lazily, clause by clause
    if construct == "tryexcT":
        return ("try", b[0], [([11], b[1], ("tick", n())), ([12, 10], b[2], ("tick", n()))], [], [])
    if construct == "tryexcR":
        return ("try", b[0], [([12], b[1], ("tick", n())), ([10], [g.T()], ("raises", n(), 12)), ([10], b[2])], [], [g.T()])
    # managers whose __exit__ raises E2 whatever it is called with
    if construct == "with1x":
        return ("with", [(next(g.m), None, False, None, 12)], b[0])
    if construct == "with1xs":
        return ("with", [(next(g.m), None, True, None, 12)], b[0])
    if construct == "with2x":
        return ("with", [(next(g.m), None, True), (next(g.m), None, False, None, 12)], b[0])
    # `as` targets: "ok" binds a name, "fail" is `as (a, b)` of a manager whose __enter__() is not iterable (TypeError)
    if construct == "with1a":
        return ("with", [(next(g.m), None, False, "ok")], b[0])
    if construct == "with1b":
        return ("with", [(next(g.m), None, False, "fail")], b[0])
    if construct == "with1bs":
        return ("with", [(next(g.m), None, True, "fail")], b[0])
    if construct == "with2b":
        return ("with", [(next(g.m), None, False, "ok"), (next(g.m), None, False, "fail")], b[0])
    if construct == "with2bs":
        return ("with", [(next(g.m), None, True, "fail"), (next(g.m), None, False)], b[0])
    raise ValueError(construct)


def random_block(g, depth, rng, maxlen=3, leaves=None, constructs=None):
    out = []
    for _ in range(rng.randrange(1, maxlen + 1)):
        if depth > 0 and rng.random() < 0.55:
            c = rng.choice(constructs or CONSTRUCTS)
            blocks = [random_block(g, depth - 1, rng, 2, leaves, constructs) for _ in range(SLOTS[c])]
            out.append(build(g, c, blocks))
            if rng.random() < 0.5:
                out.append(g.T())
        else:
            out.extend(g.leaf(rng.choice(leaves or LEAVES)))
    return out


def wrap_loop(g, body):
    """put the block inside a loop so that break/continue are legal"""
    return [("for", next(g.t), body + [g.T()], []), g.T()]


def gen_programs(rng, tier, search):
    progs = []
    # (A) every construct x every leaf in every slot (others fall through), bare and inside a loop
    for c in CONSTRUCTS:
        for slot in range(SLOTS[c]):
            for leaf in LEAVES:
                for inloop in (False, True):
                    g = Gen(rng)
                    blocks = [g.leaf(leaf) if s == slot else g.leaf("fall") for s in range(SLOTS[c])]
                    body = [build(g, c, blocks), g.T()]
                    progs.append(("A", wrap_loop(g, body) if inloop else body))
    # (B) pairs
    pairs = []
    for co in CONSTRUCTS:
        for so in range(SLOTS[co]):
            for ci in CONSTRUCTS:
                for si in range(SLOTS[ci]):
                    for leaf in LEAVES:
                        pairs.append((co, so, ci, si, leaf))
    rng.shuffle(pairs)
    nb = len(pairs) if (tier == "thorough" or search) else 1800
    for co, so, ci, si, leaf in pairs[:nb]:
        g = Gen(rng)
        inner = build(g, ci, [g.leaf(leaf) if s == si else g.leaf("fall") for s in range(SLOTS[ci])])
        blocks = [[inner, g.T()] if s == so else g.leaf("fall") for s in range(SLOTS[co])]
        body = [build(g, co, blocks), g.T()]
        progs.append(("B", wrap_loop(g, body) if rng.random() < 0.6 else body))
    # (C) random nestings
    nc = 1500 if tier == "quick" else 20000
    if search:
        nc *= 3
    for _ in range(nc):
        g = Gen(rng)
        d = rng.choice([2, 3, 3, 4, 5, 6])
        body = random_block(g, d, rng)
        progs.append(("C", wrap_loop(g, body) if rng.random() < 0.4 else body))
    return progs


def gen_k_programs(rng, tier, search):
    """family K: skeletons left by BaseException-only exceptions (raise of such a class / cancellation at `await S(i)`)"""
    progs = []
    for c in KCONSTRUCTS:
        for slot in range(SLOTS[c]):
            for leaf in KLEAVES:
                for wrap in ("bare", "loop", "tryfin", "with"):
                    g = Gen(rng)
                    blocks = [g.leaf(leaf) if s == slot else g.leaf("fall") for s in range(SLOTS[c])]
                    body = [build(g, c, blocks), g.T()]
                    if wrap == "loop":
                        body = wrap_loop(g, body)
                    elif wrap == "tryfin":
                        body = [("try", body, [], [], [g.T()] + g.leaf(rng.choice(["fall", "fall", "ret", "reraise"]))), g.T()]
                    elif wrap == "with":
                        body = [("with", [(next(g.m), None, True)], body), g.T()]
                    progs.append(("K", body))
    nk = 450 if tier == "quick" else 6000
    if search:
        nk *= 3
    leaves = LEAVES + KLEAVES * 3
    for _ in range(nk):
        g = Gen(rng)
        body = random_block(g, rng.choice([2, 3, 3, 4, 5]), rng, leaves=leaves, constructs=KCONSTRUCTS)
        progs.append(("K", wrap_loop(g, body) if rng.random() < 0.4 else body))
    return progs


# ------------------------------------------------------------------ rendering
def to_src(block, ind=1):
    pad = "    " * ind
    out = []
    for s in block:
        if s == "break" or s == "continue":
            out.append(pad + s)
        elif s == "reraise":
            out.append(pad + "raise")
        elif s[0] == "T":
            out.append(f"{pad}T({s[1]})")
        elif s[0] == "ret":
            out.append(f"{pad}return {s[1]}")
        elif s[0] == "raise":
            out.append(f"{pad}raise {CLS[s[1]]}()" + (f" from {CLS[s[2]]}()" if s[2] is not None else ""))
        elif s[0] == "assert":
            out.append(f"{pad}assert D({s[1]})")
        elif s[0] == "S":
            out.append(f"{pad}await S({s[1]})")
        elif s[0] in ("if", "while"):
            out.append(f"{pad}{s[0]} D({s[1]}):")
            out += to_src(s[2], ind + 1)
            if s[3]:
                out.append(pad + "else:")
                out += to_src(s[3], ind + 1)
        elif s[0] == "for":
            out.append(f"{pad}for _ in range(D({s[1]})):")
            out += to_src(s[2], ind + 1)
            if s[3]:
                out.append(pad + "else:")
                out += to_src(s[3], ind + 1)
        elif s[0] == "try":
            out.append(pad + "try:")
            out += to_src(s[1], ind + 1)
            for h in s[2]:
                cls, hb, pre = h[0], h[1], (h[2] if len(h) > 2 else None)
                if cls is None:
                    expr = None
                elif len(cls) == 1:
                    expr = CLS[cls[0]]
                else:
                    expr = f"({', '.join(CLS[c] for c in cls)})"
                if pre and pre[0] == "tick":
                    expr = f"TX({pre[1]}, {expr})"
                elif pre and pre[0] == "raises":
                    expr = f"RX({pre[1]})"
                out.append(pad + ("except:" if expr is None else f"except {expr}:"))
                out += to_src(hb, ind + 1)
            if s[3]:
                out.append(pad + "else:")
                out += to_src(s[3], ind + 1)
            if s[4]:
                out.append(pad + "finally:")
                out += to_src(s[4], ind + 1)
        elif s[0] == "with":
            items = ", ".join(
                (f"CMX({it[0]}, {CLS[it[4]]}, {it[2]})" if len(it) > 4 and it[4] is not None else
                 f"CM({it[0]}, {CLS[it[1]] if it[1] is not None else None}, {it[2]})") +
                ({"ok": f" as v{it[0]}", "fail": f" as (a{it[0]}, b{it[0]})"}.get(it[3], "") if len(it) > 3 else "")
                for it in s[1])
            out.append(f"{pad}with {items}:")
            out += to_src(s[2], ind + 1)
        else:
            raise ValueError(s)
    if not block:
        out.append(pad + "pass")
    return out


def to_sx(block):
    out = []
    for s in block:
        if isinstance(s, str):
            out.append(s)
        elif s[0] == "raise":
            out.append(["raise", s[1], "-" if s[2] is None else s[2]])
        elif s[0] in ("if", "while", "for"):
            out.append([s[0], s[1], to_sx(s[2]), to_sx(s[3])])
        elif s[0] == "try":
            hs = []
            for h in s[2]:
                cls, hb, pre = h[0], h[1], (h[2] if len(h) > 2 else None)
                if cls is None:
                    hs.append(["any", to_sx(hb)])
                elif pre:
                    hs.append([list(cls), list(pre), to_sx(hb)])
                else:
                    hs.append([list(cls), to_sx(hb)])
            out.append(["try", to_sx(s[1]), hs, to_sx(s[3]), to_sx(s[4])])
        elif s[0] == "with":
            out.append(["with", [[it[0], "-" if it[1] is None else it[1], it[2]] +
                                 ([102 if it[3] == "fail" else "-"] if len(it) > 3 else []) +
                                 (["-" if it[4] is None else it[4]] if len(it) > 4 else []) for it in s[1]], to_sx(s[2])])
        else:
            out.append(list(s))
    return out


def features(block, acc=None, in_else=False):
    """syntactic features used for tags and for classifying deviations"""
    acc = acc if acc is not None else set()
    for s in block:
        if isinstance(s, str):
            if s in ("break", "continue") and in_else:
                acc.add("jump-in-loop-else")
            continue
        if s[0] in ("for", "while"):
            acc.add(s[0])
            features(s[2], acc, False)
            if s[3]:
                acc.add("loop-else")
                features(s[3], acc, True)
        elif s[0] == "if":
            acc.add("if")
            features(s[2], acc, in_else)
            features(s[3], acc, in_else)
        elif s[0] == "try":
            acc.add("try")
            features(s[1], acc, in_else)
            for h in s[2]:
                features(h[1], acc, in_else)
                if len(h) > 2:
                    acc.add("except-expr-" + h[2][0])
            features(s[3], acc, in_else)
            features(s[4], acc, in_else)
        elif s[0] == "with":
            acc.add("with")
            if len(s[1]) > 1:
                acc.add("with-multi")
            if any(it[1] is not None for it in s[1]):
                acc.add("with-enter-raises")
            if any(len(it) > 3 and it[3] == "fail" for it in s[1]):
                acc.add("with-bind-fails")
            if any(len(it) > 3 and it[3] == "ok" for it in s[1]):
                acc.add("with-as")
            if any(len(it) > 4 and it[4] is not None for it in s[1]):
                acc.add("with-exit-raises")
            features(s[2], acc, in_else)
        elif s[0] == "raise" and (s[1] >= 200 or (s[2] or 0) >= 200):
            acc.add("baseexception")
        elif s[0] == "S":
            acc.add("suspend")
    return acc


def gen_cases(rng, tier, search):
    cases = []
    seen = set()
    for fam, body in gen_programs(rng, tier, search):
        src = "def f():\n" + "\n".join(to_src(body)) + "\n"
        try:
            compile(src, "t", "exec")
        except SyntaxError:
            continue
        ntape = 1 if fam == "B" else 2
        for _ in range(ntape):
            tape = [rng.choice([0, 1, 1, 2]) for _ in range(rng.randrange(0, 9))]
            key = (src, tuple(tape))
            if key in seen:
                continue
            seen.add(key)
            feats = sorted(features(body))
            line = "C02 " + sx(["run", ["tape"] + tape, to_sx(body)])
            c = Case({"src": src, "tape": tape, "family": fam, "features": feats}, line, tags=[fam] + feats)
            c.nontrivial = bool(feats)
            cases.append(c)
    # family K (all four columns): BaseException-only exceptions incl. real task cancellation at a suspension point
    for fam, body in gen_k_programs(rng, tier, search):
        src = "async def f():\n" + "\n".join(to_src(body)) + "\n"
        try:
            compile(src, "t", "exec")
        except SyntaxError:
            continue
        feats = sorted(features(body))
        tapes = [[2] * 10, [rng.choice([0, 1, 1, 2, 2]) for _ in range(rng.randrange(1, 10))]]
        if "suspend" in feats:
            tapes.append([rng.choice([1, 1, 2]) for _ in range(10)])
        for tape in tapes:
            key = (src, tuple(tape))
            if key in seen:
                continue
            seen.add(key)
            line = "C02 " + sx(["run", ["tape"] + tape, to_sx(body)])
            c = Case({"src": src, "tape": tape, "family": fam, "mode": "async", "features": feats, "line": line}, line,
                     tags=[fam] + feats)
            cases.append(c)
    cases += pending_return_cases(rng, tier, search)
    cases += iter_cases(rng, tier)
    cases += glue_cases(rng, tier)
    return cases


# ------------------------------------------------------------------ families R and W: a pending `return <value>` is per activation
# Between `ast_return` and `EvalFunc.call` the EvalReturn marker travels up through finally clauses and manager exits, which run
# arbitrary script code: they may call the same function again (R) or suspend while another task runs it (W; every task
# has its own AstEval but shares the EvalFunc and its AST).  Each activation must deliver the value of ITS return statement.
# Tied to the Lean marker store (`markers` command: one fresh marker object per execution of a return statement).
WRAPS = {"for": "for _ in range(2):", "while": "while True:", "if": "if {v} >= 0:", "with": "with CM(9, None, False):",
         "tryexc": "try:", "tryfin": "try:"}


def _wrap_lines(wrappers, inner, var):
    """nest `inner` (list of lines) inside the wrapper statements"""
    lines = inner
    for wname in reversed(wrappers):
        lines = [WRAPS[wname].format(v=var)] + ["    " + l for l in lines]
        if wname == "tryexc":
            lines += ["except E1:", "    T(99)"]
        elif wname == "tryfin":
            lines += ["finally:", "    T(98)"]
    return lines


def gen_rec(rng):
    hold = rng.choice(["finally", "finally", "exit", "finally-in-with", "else-finally"])
    wrappers = [rng.choice(list(WRAPS)) for _ in range(rng.choice([0, 1, 1, 2]))]
    depth = rng.choice([1, 2, 2, 3])
    k = rng.randrange(1, 10)
    rec = ["T(20 + {n})", "if {n} > 0:", "    TR({n} - 1, g({n} - 1))"]
    head = []
    if hold == "exit":
        head = ["class M:", "    def __init__(self, n):", "        self.n = n", "    def __enter__(self):", "        T(30 + self.n)",
                "        return self", "    def __exit__(self, t, v, tb):"] + \
               ["        " + l.format(n="self.n") for l in rec] + ["        return False"]
        core = ["with M(n):", "    T(10 + n)", f"    return n * 10 + {k}"]
    elif hold == "finally-in-with":
        core = ["with CM(8, None, False):", "    try:", "        T(10 + n)", f"        return n * 10 + {k}", "    finally:"] + \
               ["        " + l.format(n="n") for l in rec]
    elif hold == "else-finally":
        core = ["try:", "    T(10 + n)", "except E1:", "    T(97)", "else:", f"    return n * 10 + {k}", "finally:"] + \
               ["    " + l.format(n="n") for l in rec]
    else:
        core = ["try:", "    T(10 + n)", f"    return n * 10 + {k}", "finally:"] + ["    " + l.format(n="n") for l in rec]
    body = _wrap_lines(wrappers, core, "n")
    src = "\n".join(head + ["def g(n):"] + ["    " + l for l in body] + ["def f():", f"    return [g({depth}), g(0)]"]) + "\n"
    # marker events: activations depth..0 execute the return statement (node 0) innermost last, are consumed innermost first;
    # then the second call g(0) is activation 100
    evs = [["ret", a, 0, a * 10 + k] for a in range(depth, -1, -1)] + [["take", a] for a in range(0, depth + 1)] + \
          [["ret", 100, 0, k], ["take", 100]]
    return src, {"depth": depth, "hold": hold, "wrappers": wrappers}, evs


def gen_tasks(rng):
    hold = rng.choice(["finally", "finally", "aexit", "finally-in-with", "finally-in-asyncwith"])
    wrappers = [rng.choice(list(WRAPS)) for _ in range(rng.choice([0, 1, 1, 2]))]
    ntask = rng.choice([2, 2, 3])
    k = rng.randrange(1, 10)
    wait = ["TT(tag, 2)", "await GATE(tag)", "TT(tag, 3)"]
    if hold == "aexit":
        core = ["async with Hold(tag):", "    TT(tag, 1)", f"    return tag * 1000 + {k}"]
    elif hold == "finally-in-with":
        core = ["with CM(8, None, False):", "    try:", "        TT(tag, 1)", f"        return tag * 1000 + {k}", "    finally:"] + \
               ["        " + l for l in wait]
    elif hold == "finally-in-asyncwith":
        core = ["async with Hold(tag):", "    try:", "        TT(tag, 1)", f"        return tag * 1000 + {k}", "    finally:"] + \
               ["        " + l for l in wait]
    else:
        core = ["try:", "    TT(tag, 1)", f"    return tag * 1000 + {k}", "finally:"] + ["    " + l for l in wait]
    body = _wrap_lines(wrappers, core, "tag")
    src = "\n".join(["async def f(tag):"] + ["    " + l for l in body]) + "\n"
    starts = list(range(1, ntask + 1))
    release = starts[:]
    rng.shuffle(release)
    # `finally-in-asyncwith` passes two gates (the finally clause, then __aexit__): every task is released twice
    gates = 2 if hold == "finally-in-asyncwith" else 1
    evs = [["ret", t, 0, t * 1000 + k] for t in starts] + [["take", t] for t in release]
    return src, {"starts": starts, "release": release, "gates": gates, "hold": hold, "wrappers": wrappers}, evs


def pending_return_cases(rng, tier, search):
    out, seen = [], set()
    nr, nw = (60, 90) if tier == "quick" else (600, 900)
    if search:
        nr, nw = nr * 3, nw * 3
    for mode, n, gen in (("rec", nr, gen_rec), ("tasks", nw, gen_tasks)):
        for _ in range(n):
            src, sched, evs = gen(rng)
            key = (src, repr(sched))
            if key in seen:
                continue
            seen.add(key)
            compile(src, "t", "exec")
            fam = "R" if mode == "rec" else "W"
            line = "C02 " + sx(["markers"] + evs)
            feats = ["pending-return", mode, sched["hold"]]
            out.append(Case({"src": src, "tape": [], "family": fam, "mode": mode, "sched": sched, "features": feats,
                             "line": line}, line, tags=[fam] + feats + ["wrap:" + w for w in sched["wrappers"]]))
    return out


# ------------------------------------------------------------------ glue stream (no Lean column)
# what surrounds the modelled skeleton: except-clause type EXPRESSIONS (evaluated lazily, clause by clause, only until one
# matches; an expression that raises replaces the exception), `__exit__` / `__enter__` that raise on the clean path,
# managers whose `__exit__` raises while an exception is propagating, `finally` after each of them
def glue_random(rng):
    k = itertools.count(1)
    n = lambda: next(k)  # noqa: E731
    raised = rng.choice(["E1", "E2", "E0", None])
    clauses = []
    for _ in range(rng.randrange(1, 4)):
        cls = rng.choice(["E0", "E1", "E2", "(E1, E2)", "Exception"])
        form = rng.random()
        if form < 0.45:
            expr = f"TX({n()}, {cls})"            # a tracer in the clause's type expression
        elif form < 0.6:
            expr = f"RX({n()})"                    # the type expression itself raises E2
        elif form < 0.7:
            expr = "undefined_name_zz"
        else:
            expr = cls
        clauses.append(expr)
    lines = ["def f():", "    try:", f"        T({n()})"]
    if raised:
        lines.append(f"        raise {raised}()")
    for e in clauses:
        lines += [f"    except {e}:", f"        T({n()})"]
    if rng.random() < 0.5:
        lines += ["    finally:", f"        T({n()})"]
    lines += [f"    return {n()}"]
    return "\n".join(lines) + "\n"


def glue_with_random(rng):
    k = itertools.count(1)
    n = lambda: next(k)  # noqa: E731
    nm = rng.choice([1, 1, 2])
    items = []
    for j in range(nm):
        exit_raises = rng.choice(["None", "None", "E2", "E1"])
        sup = rng.choice(["False", "True"])
        items.append(f"CMX({j + 1}, {exit_raises}, {sup})")
    leave = rng.choice(["fall", "return", "break", "continue", "raise"])
    body = {"fall": [f"T({n()})"], "return": [f"return {n()}"], "break": ["break"], "continue": ["continue"],
            "raise": ["raise E1()"]}[leave]
    lines = ["def f():", "    for _ in range(2):", f"        T({n()})", f"        with {', '.join(items)}:"] + \
            ["            " + l for l in body] + [f"        T({n()})", "    else:", f"        T({n()})", f"    return {n()}"]
    return "\n".join(lines) + "\n"


GLUE_TEMPLATES = [
    ("except-expr-lazy", "def f():\n    try:\n        raise E1()\n    except TX(1, E1):\n        T(2)\n    except TX(3, E2):\n        T(4)\n    return 5\n"),
    ("except-expr-later-raises", "def f():\n    try:\n        raise E1()\n    except E1:\n        T(2)\n    except undefined_name_zz:\n        T(4)\n    return 5\n"),
    ("except-expr-raises-first", "def f():\n    try:\n        raise E1()\n    except RX(1):\n        T(2)\n    except E1:\n        T(3)\n    return 5\n"),
    ("except-expr-not-evaluated-without-exception", "def f():\n    try:\n        T(1)\n    except TX(2, E1):\n        T(3)\n    return 5\n"),
    ("assert-message-lazy", "def f():\n    assert D(1), TX(2, 'm')\n    try:\n        assert D(3), TX(4, 'm2')\n    except AssertionError as e:\n        return e.args\n    return 5\n", [1, 0]),
    ("assert-message-raises", "def f():\n    try:\n        assert D(1), RX(2)\n    except E2:\n        return 3\n    return 4\n", [0]),
    ("return-in-finally-overrides", "def f():\n    for _ in range(2):\n        try:\n            raise E1()\n        finally:\n            T(1)\n            continue\n    try:\n        return 2\n    finally:\n        T(3)\n        return 4\n", []),
    ("nested-finally-order", "def f():\n    try:\n        try:\n            raise E1()\n        finally:\n            T(1)\n            try:\n                raise E2()\n            except E2:\n                T(2)\n    except E1:\n        T(3)\n    return 4\n", []),
    ("loop-var-after-loop", "def f():\n    for i in [1, 2, 3]:\n        if i == 2:\n            break\n    else:\n        T(9)\n    return i\n", []),
    ("while-else-break-in-try", "def f():\n    n = 0\n    while n < 3:\n        n += 1\n        try:\n            if n == 2:\n                break\n        finally:\n            T(n)\n    else:\n        T(9)\n    return n\n", []),
    ("clean-exit-raises-suppressing", "def f():\n    with CMX(1, E2, True):\n        T(1)\n    return 2\n"),
    ("clean-exit-raises-on-return", "def f():\n    with CMX(1, E2, True):\n        return 1\n    return 2\n"),
    ("clean-exit-raises-on-break", "def f():\n    for _ in range(2):\n        with CMX(1, E2, True):\n            break\n    else:\n        T(9)\n    return 2\n"),
    ("clean-exit-raises-outer-sees", "def f():\n    with CMX(1, None, False), CMX(2, E2, False):\n        T(1)\n    return 2\n"),
    ("exit-raises-while-propagating", "def f():\n    with CMX(1, E2, False):\n        raise E1()\n    return 2\n"),
]


def glue_cases(rng, tier):
    out, seen = [], set()
    for t in GLUE_TEMPLATES:
        name, src, tape = t[0], t[1], (t[2] if len(t) > 2 else [])
        out.append(Case({"src": src, "tape": tape, "family": "G", "features": ["glue", name]}, None, tags=["G", "glue", name]))
    for _ in range(160 if tier == "quick" else 2000):
        src = glue_random(rng) if rng.random() < 0.55 else glue_with_random(rng)
        if src in seen:
            continue
        seen.add(src)
        try:
            compile(src, "t", "exec")
        except SyntaxError:
            continue
        out.append(Case({"src": src, "tape": [], "family": "G", "features": ["glue", "random"]}, None, tags=["G", "glue", "random"]))
    return out


# ------------------------------------------------------------------ iteration stream (no Lean column)
# `for` runs over the LIVE iterable / iterator, exactly like Python: the body may grow, shrink or clear the list it iterates,
# resize a dict (RuntimeError), share one iterator between loops, or iterate a lazy map() whose function has side effects.
ITER_TEMPLATES = [
    ("worklist-append", "def f():\n    L = [3]\n    for x in L:\n        T(x)\n        if x > 0:\n            L.append(x - 1)\n    return len(L)\n"),
    ("remove-upcoming", "def f():\n    L = [1, 2, 3, 4, 5]\n    for x in L:\n        T(x)\n        if x == 2:\n            L.remove(3)\n    return len(L)\n"),
    ("clear-inside", "def f():\n    L = [1, 2, 3]\n    for x in L:\n        T(x)\n        L.clear()\n    else:\n        T(90)\n    return len(L)\n"),
    ("dict-resize", "def f():\n    d = {1: 1, 2: 2}\n    for k in d:\n        T(k)\n        d[k + 10] = 0\n    return len(d)\n"),
    ("iterator-after-break", "def f():\n    it = iter([1, 2, 3, 4])\n    for x in it:\n        T(x)\n        if x == 2:\n            break\n    for y in it:\n        T(10 + y)\n    return 0\n"),
    ("iterator-after-return-in-try", "def g(it):\n    for x in it:\n        T(x)\n        return x\ndef f():\n    it = iter([5, 6, 7])\n    a = g(it)\n    b = g(it)\n    return a * 10 + b\n"),
    ("lazy-map", "def f():\n    for x in map(T2, [1, 2, 3]):\n        T(20 + x)\n        if x == 2:\n            break\n    return 0\n"),
    ("shared-iterator-nested", "def f():\n    it = iter(range(6))\n    for x in it:\n        T(x)\n        for y in it:\n            T(10 + y)\n            if y % 2 == 0:\n                break\n    return 0\n"),
    ("zip-same-iterator", "def f():\n    it = iter([1, 2, 3, 4, 5])\n    for a, b in zip(it, it):\n        T(a * 10 + b)\n    return list(it)\n"),
    ("enumerate-grow", "def f():\n    L = [0]\n    for i, x in enumerate(L):\n        T(i)\n        if i < 3:\n            L.append(i)\n    return len(L)\n"),
    ("insert-front", "def f():\n    L = [1, 2]\n    n = 0\n    for x in L:\n        T(x)\n        n += 1\n        if n < 4:\n            L.insert(0, 9)\n    return len(L)\n"),
    ("pop-current", "def f():\n    L = [1, 2, 3, 4]\n    for x in L:\n        T(x)\n        L.pop(0)\n    return len(L)\n"),
    ("set-resize", "def f():\n    s = {1}\n    for k in s:\n        T(k)\n        s.add(k + 1)\n    return 0\n"),
    ("stopiteration", "def f():\n    it = iter([1, 2])\n    while True:\n        try:\n            T(next(it))\n        except StopIteration:\n            break\n    else:\n        T(99)\n    return 0\n"),
    ("reversed-mutation", "def f():\n    L = [1, 2, 3]\n    for x in reversed(L):\n        T(x)\n        if x == 3:\n            L.append(7)\n    return len(L)\n"),
    ("generator-side-effects-in-iter-expr", "def f():\n    for x in [T2(1), T2(2)]:\n        T(10 + x)\n    return 0\n"),
]


def iter_random(rng):
    """a loop over a list that its own body edits, with a random edit script"""
    n0 = rng.randrange(1, 5)
    edits = []
    for i in range(rng.randrange(1, 4)):
        at = rng.randrange(0, 6)
        op = rng.choice(["L.append(T2(%d))" % (50 + i), "L.pop()", "L.pop(0)", "L.insert(0, %d)" % (60 + i), "L.clear()",
                         "L.remove(x)", "L.reverse()", "L.extend([7, 8])", "del L[-1]"])
        edits.append((at, op))
    lines = ["def f():", f"    L = list(range({n0}))", "    n = 0", "    for x in L:", "        T(x)", "        n += 1"]
    for at, op in edits:
        lines += [f"        if n == {at + 1} and L:", f"            {op}"]
    lines += ["        if n > 12:", "            break"]
    if rng.random() < 0.4:
        lines += ["    else:", "        T(91)"]
    lines += ["    return len(L) * 100 + n"]
    return "\n".join(lines) + "\n"


def iter_cases(rng, tier):
    out = []
    for name, src in ITER_TEMPLATES:
        out.append(Case({"src": src, "tape": [], "family": "I", "features": ["iter", name]}, None, tags=["I", "iter", name]))
    seen = set()
    for _ in range(120 if tier == "quick" else 1500):
        src = iter_random(rng)
        if src in seen:
            continue
        seen.add(src)
        out.append(Case({"src": src, "tape": [], "family": "I", "features": ["iter", "random-edits"]}, None,
                        tags=["I", "iter", "random-edits"]))
    return out


# ------------------------------------------------------------------ running
class E0(Exception):
    pass


class E1(E0):
    pass


class E2(Exception):
    pass


class B0(BaseException):
    pass


def make_globals(tape, log, ctl=None):
    tape = list(tape)
    ctl = ctl if ctl is not None else {}
    ctl.update({"cancel_req": False, "entered": {}, "gate": {}})

    def TR(a, v):
        """logs the value activation `a` returned to the finally clause / __exit__ that called it"""
        log.append(f"R{a}={v}")

    def TT(tag, i):
        log.append(f"T{tag}.{i}")

    async def S(i):
        """a suspension point: logs T(i), consumes one tape cell; 2 = the driver cancels the task while it waits here"""
        d = D(i)
        if d == 2:
            ctl["cancel_req"] = True
            await asyncio.Event().wait()
        else:
            await asyncio.sleep(0)

    async def _gate(tag):
        ctl["entered"][tag] = True
        while not ctl["gate"].get(tag):
            await asyncio.sleep(0)
        ctl["gate"][tag] = False

    async def GATE(tag):
        log.append(f"G{tag}")
        await _gate(tag)

    class Hold:
        """async manager (host object) whose __aexit__ waits on the task's gate"""
        def __init__(self, tag):
            self.tag = tag

        async def __aenter__(self):
            log.append(f"aen{self.tag}")
            return self

        async def __aexit__(self, t, v, tb):
            log.append(f"aex{self.tag}:{CLSNUM.get(t.__name__, t.__name__) if t else '-'}")
            await _gate(self.tag)
            return False

    def T(i):
        log.append(f"T{i}")

    def T2(i):
        log.append(f"T{i}")
        return i

    def D(i):
        """a tracer that is also a decision: consumes one tape cell (0 when the tape is exhausted)"""
        log.append(f"T{i}")
        return tape.pop(0) if tape else 0

    class CM:
        def __init__(self, k, er, sup):
            self.k, self.er, self.sup = k, er, sup
            log.append(f"in{k}")

        def __enter__(self):
            log.append(f"en{self.k}")
            if self.er is not None:
                raise self.er()
            return self

        def __exit__(self, t, v, tb):
            log.append(f"ex{self.k}:{CLSNUM.get(t.__name__, t.__name__) if t else '-'}")
            return self.sup

    def TX(i, cls):
        """a tracer inside an except clause's type expression"""
        log.append(f"T{i}")
        return cls

    def RX(i):
        log.append(f"T{i}")
        raise E2()

    class CMX:
        """a manager whose __exit__ raises er (when given), whatever it is called with"""
        def __init__(self, k, er, sup):
            self.k, self.er, self.sup = k, er, sup
            log.append(f"in{k}")

        def __enter__(self):
            log.append(f"en{self.k}")
            return self

        def __exit__(self, t, v, tb):
            log.append(f"ex{self.k}:{CLSNUM.get(t.__name__, t.__name__) if t else '-'}")
            if self.er is not None:
                raise self.er()
            return self.sup

    return {"T": T, "T2": T2, "TX": TX, "RX": RX, "CMX": CMX, "D": D, "CM": CM, "E0": E0, "E1": E1, "E2": E2, "B0": B0,
            "TR": TR, "TT": TT, "S": S, "GATE": GATE, "Hold": Hold}


def canon_exc(e):
    n = CLSNUM.get(type(e).__name__, type(e).__name__)
    if e.__cause__ is not None:
        return f"exc:{n}/{CLSNUM.get(type(e.__cause__).__name__, type(e.__cause__).__name__)}"
    return f"exc:{n}"


def canon(log, kind, val):
    if kind == "exc":
        r = canon_exc(val)
    else:
        r = "none" if val is None else f"ret:{val}"
    return ",".join(log) + "|" + r


async def _guarded(coro):
    """nothing escapes the task (SystemExit / KeyboardInterrupt would otherwise stop the event loop)"""
    try:
        return ("ret", await coro)
    except BaseException as e:  # pylint: disable=broad-except
        return ("exc", e)


async def drive_async(entry, log, ctl):
    """run `entry()` as a task; whenever it asks for it at a suspension point (S with tape value 2) cancel it from outside"""
    task = asyncio.ensure_future(_guarded(entry()))
    for _ in range(3000):
        if task.done():
            break
        if ctl["cancel_req"]:
            ctl["cancel_req"] = False
            task.cancel()
        await asyncio.sleep(0)
    else:
        task.cancel()
        return canon(log, "ret", "HANG")
    kind, val = task.result()
    return canon(log, kind, val)


async def drive_tasks(entry, log, ctl, sched):
    """start the tasks one after the other (each runs until it waits on its gate with `return` pending), then open the gates
    in the release order; returns (canonical string, results string)"""
    tasks = {}

    async def until(pred):
        for _ in range(2000):
            if pred():
                return True
            await asyncio.sleep(0)
        return False

    ok = True
    for t in sched["starts"]:
        tasks[t] = asyncio.ensure_future(_guarded(entry(t)))
        ok = await until(lambda: ctl["entered"].get(t) or tasks[t].done()) and ok  # pylint: disable=cell-var-from-loop
    for rnd in range(sched["gates"]):
        for t in sched["release"]:
            ctl["entered"][t] = False
            ctl["gate"][t] = True
            last = rnd == sched["gates"] - 1
            ok = await until(lambda: tasks[t].done() or (not last and ctl["entered"].get(t))) and ok  # pylint: disable=cell-var-from-loop
    res = []
    for t in sched["release"]:
        if not tasks[t].done():
            tasks[t].cancel()
            res.append(f"{t}=HANG")
            continue
        kind, val = tasks[t].result()
        res.append(f"{t}={val}" if kind == "ret" else f"{t}={canon_exc(val)}")
    results = ",".join(res)
    return ",".join(log) + "|" + results, results


def rec_results(canon_str, sched):
    """families R: the value every activation delivered - the inner ones were logged by TR, the two outer ones are f()'s list"""
    log, _, res = canon_str.partition("|")
    inner = [e[1:] for e in log.split(",") if e.startswith("R") and "=" in e]
    m = re.match(r"ret:\[(.*), (.*)\]$", res)
    if not m:
        return ",".join(inner) + "," + res
    return ",".join(inner + [f"{sched['depth']}={m.group(1)}", f"100={m.group(2)}"])


async def _ps_env(src, tape, log):
    import interp_env
    ctl = {}
    G = make_globals(tape, log, ctl)
    g, a = interp_env.new_ctx("c02", G)
    a.parse(src)
    await a.eval()
    return G, g, ctl


async def run_pyscript(src, tape, mode="sync", sched=None):
    """returns (canonical observation, tied string = what the Lean model column must equal)"""
    import interp_env
    log = []
    try:
        G, g, ctl = await _ps_env(src, tape, log)
        if mode == "async":
            r = await drive_async(lambda: G["f"](), log, ctl)
            return r, r
        if mode == "tasks":
            def entry(tag):
                # one interpreter context per task, like one per trigger run; the EvalFunc (and its AST) is shared
                a2 = interp_env.AstEval(f"c02.t{tag}", global_ctx=g)
                interp_env.Function.install_ast_funcs(a2)
                return G["f"].call(a2, tag)
            return await drive_tasks(entry, log, ctl, sched)
        val = await G["f"]()
        r = canon(log, "ret", val)
    except BaseException as e:  # pylint: disable=broad-except
        r = canon(log, "exc", e)
    return r, (rec_results(r, sched) if mode == "rec" else r)


async def run_cpython_async(src, tape, mode, sched):
    log, ctl = [], {}
    G = make_globals(tape, log, ctl)
    try:
        exec(compile(src, "t", "exec"), G)  # pylint: disable=exec-used
        if mode == "async":
            r = await drive_async(lambda: G["f"](), log, ctl)
            return r, r
        return await drive_tasks(lambda tag: G["f"](tag), log, ctl, sched)
    except BaseException as e:  # pylint: disable=broad-except
        r = canon(log, "exc", e)
        return r, r


def run_cpython(src, tape, mode="sync", sched=None, loop=None):
    if mode in ("async", "tasks"):
        return loop.run_until_complete(run_cpython_async(src, tape, mode, sched))
    log = []
    G = make_globals(tape, log)
    try:
        exec(compile(src, "t", "exec"), G)  # pylint: disable=exec-used
        r = canon(log, "ret", G["f"]())
    except BaseException as e:  # pylint: disable=broad-except
        r = canon(log, "exc", e)
    return r, (rec_results(r, sched) if mode == "rec" else r)


def run_pair(loop, p):
    """(pyscript observation, pyscript tied, CPython observation, CPython tied) of one payload"""
    mode, sched = p.get("mode", "sync"), p.get("sched")
    a, at = loop.run_until_complete(run_pyscript(p["src"], p["tape"], mode, sched))
    b, bt = run_cpython(p["src"], p["tape"], mode, sched, loop)
    return a, at, b, bt


def _new_loop():
    import interp_env
    loop = asyncio.new_event_loop()
    asyncio.set_event_loop(loop)
    interp_env.setup_stub(loop)
    return loop


def _worker(items):
    loop = _new_loop()
    out = [run_pair(loop, p) for p in items]
    loop.close()
    return out


def run_impl(cases):
    import interp_env  # noqa: F401  imported BEFORE forking: the workers inherit the loaded Home Assistant modules
    items = [{k: c.payload.get(k) for k in ("src", "tape", "mode", "sched") if c.payload.get(k) is not None} for c in cases]
    nshard = 12
    shards = [items[i::nshard] for i in range(nshard)]
    res = common.pmap(_worker, shards, workers=nshard, chunk=1) if len(items) > 200 else [_worker(s) for s in shards]
    for si, shard in enumerate(res):
        for j, (a, at, b, bt) in enumerate(shard):
            c = cases[si + j * nshard]
            c.impl = f"model={at} spec={bt}"
            c.payload["pyscript"] = a
            c.payload["cpython"] = b
            c.payload["tied"] = at


def verdict(c):
    if c.payload["pyscript"] != c.payload["cpython"]:
        return f"pyscript {c.payload['pyscript']!r} != CPython {c.payload['cpython']!r}"
    return None


def classify(c, reason):
    f = set(c.payload.get("features", []))
    ps, cp = c.payload.get("pyscript") or "", c.payload.get("cpython") or ""
    if c.line is not None and c.model is not None:
        m = re.match(r"model=(\S*) spec=", c.model)
        if not m or m.group(1) != c.payload.get("tied", ps):
            # the model does not reproduce this behaviour: not one of the modelled (known) deviations
            return "unmodelled:" + "+".join(sorted(f))
        # C02-F4 excuses exactly what the Lean model of today's code does with a BaseException-only exception: it passes the
        # `except` clauses and reaches `__exit__` without exception info - and the finally clause RUNS (C02_finally_every_outcome).
        # Only a deviation that this model reproduces event by event gets the signature; a skipped finally never does.
        if f & {"baseexception", "suspend"}:
            return "baseexception"
    # C02-F5 excuses exactly: the StopIteration of a called function surfaces as RuntimeError(cause StopIteration) where CPython
    # went on; everything pyscript did before that point must be what CPython did
    if "stopiteration" in f and ps.endswith("|exc:100/StopIteration") and cp.startswith(ps.split("|")[0]):
        return "stopiteration"
    return "other:" + "+".join(sorted(f))


def replay_cases(obj):
    p = obj["case"]
    # replays re-run impl vs CPython (the property); the driver line is kept in the payload of the tied families
    q = {"src": p["src"], "tape": p["tape"], "family": p.get("family", "R"), "features": p.get("features", [])}
    for k in ("mode", "sched", "line"):
        if p.get(k) is not None:
            q[k] = p[k]
    return [Case(q, p.get("line"))]


def shrink(c, reason):
    """drop statements line by line while the disagreement persists (source level)"""
    loop = _new_loop()
    p = c.payload

    def obs(s):
        a, _, b, _ = run_pair(loop, dict(p, src=s))
        return a, b

    def bad(s):
        try:
            compile(s, "t", "exec")
        except SyntaxError:
            return False
        a, b = obs(s)
        return a != b
    lines = p["src"].split("\n")
    changed = True
    while changed:
        changed = False
        for i in range(1, len(lines)):
            if re.match(r"\s*T\(\d+\)$", lines[i]):
                cand = lines[:i] + lines[i + 1:]
                if bad("\n".join(cand)):
                    lines = cand
                    changed = True
                    break
    final = "\n".join(lines)
    ps, cp = obs(final)
    loop.close()
    c2 = Case(dict(c.payload, src=final, pyscript=ps, cpython=cp, original_src=p["src"]), c.line, c.tags)
    c2.impl, c2.model, c2.spec = c.impl, c.model, c.spec
    return c2


def extra_coverage(cases):
    fams = {}
    for c in cases:
        fams[c.payload["family"]] = fams.get(c.payload["family"], 0) + 1
    dis = sum(1 for c in cases if c.payload.get("pyscript") != c.payload.get("cpython"))
    return {"families": fams, "pyscript_vs_cpython_differences": dis,
            "spec_vs_cpython_checked": sum(1 for c in cases if c.line is not None)}
