"""C06 correspondence + property oracle: time triggers fire at exactly the instants their specification denotes.

Streams
  next   TrigTime.timer_trigger_next(specs, now, startup) called directly on grammar-generated specification lists x current
         times (boundary biased); each result is also re-queried just before and exactly at the returned instant
         (no instant skipped, none repeated)
  parse  TrigTime.parse_date_time / parse_time_offset directly (calendar layer, unit table)
  ha     running @time_trigger functions on the virtual clock under both subsystems: trigger_time and run time of every
         run against the successor chain, startup / shutdown entries; functions that also carry @state_trigger(state_hold=h)
         whose hold is started and abandoned while the timer is pending
  dst    running cron() / once() / period() functions for 50-62 h across the fall-back and the spring-forward change of
         America/Los_Angeles, both subsystems, on a DST-aware wall clock (naive local time of a UTC instant that advances with
         the virtual loop): every run must happen when the wall clock reads its trigger_time, period() runs equally spaced
  lag    the same loops on a wall clock that runs 1-160 ppm slower (or 40 ppm faster) than the clock asyncio sleeps on, so that
         a timer wakes up 2 us ... 1.6 ms before the instant: every denoted instant must run exactly once, not before its time

The spec AST, its renderer and the datetime oracle are shared with run_C07.
"""
import asyncio
import datetime as dt
import json
import logging
import math
import random
import re
import types
import zoneinfo
from fractions import Fraction
from unittest.mock import patch

import common
from common import Case, sx
import run_C07 as W
from run_C07 import EPOCH, US, BASE, us_of, dt_of, off_us, render_dt, Sun, oracle_dt, cron_match

PROP = "C06"
RULE = ("next: lists of 1-3 specifications generated from the documented grammar - once() with full date / month-day / weekday / "
        "today / tomorrow / no date x h:m[:s[.f]] / noon / midnight / sunrise / sunset / now x offsets in all units; period() "
        "with and without end (dated, now-relative, time-only incl. windows wrapping midnight, sub-second intervals); cron() - x "
        "current times from a two-year window biased to every denoted instant +-1 us, midnights, month / year ends, 29 Feb and "
        "the DST days of America/Los_Angeles; every answer t is re-queried at t-1us (same answer) and at t (a later one); "
        "parse: every date/time/offset form through parse_date_time with day offsets -1..2; ha: 1-3 specifications per function "
        "running on the virtual clock (strictly increasing dt_now) under legacy and new subsystem, run instants and trigger_time "
        "against the successor chain; a third of the functions have only startup / shutdown entries (or no argument list), another "
        "fifth has the two words anywhere between the specifications - the runs at definition / removal are judged like instants; dst: 4-6 single-specification functions "
        "(daily and hourly cron, once(h:m[:s]), period with dated / time-only start, intervals 90 min - 1 d) started the day before "
        "the fall-back / spring-forward night and run for 50-62 h of real time under both subsystems; boundary (stream next + a Home Assistant "
        "corpus): 24:00-like times, 29 Feb / 31 Dec / 1 Jan, sunrise / sunset offsets in every unit name, period() with interval == / > window, "
        "end == start, zero / negative interval, crontab ranges / steps / lists / names / both day fields / impossible days / out-of-range "
        "values, duplicate entries and several spellings of one instant, each evaluated at, 1 us before and after its 1st..5th occurrence and "
        "at start-up; upper-case / capitalised / blank-padded spellings everywhere; sun-window (stream next, 16 cases): period(start, interval, end) "
        "with undated sunrise / sunset (+- offset) start / end - same-day and over-midnight windows - asked inside today's window, after it ended, "
        "after midnight inside a window still open from the evening before and before today's window, oracle per date from astral; state-hold "
        "(stream ha, 3 functions x both subsystems): functions carrying @state_trigger(..., state_hold=h) next to @time_trigger, the state "
        "trigger becoming true (hold deadline before the next instant) and false again during the hold between the instants and after the "
        "last one, then a hold that completes - every time run's trigger_time against the chain, exactly one state run.  Non-trivial: every case has at least one specification; "
        "distinct by payload.")
ASSUMPTIONS = [
    "croniter.get_next, astral sunrise/sunset and the zone offset (dt_util.as_local) are parameters of the model (cronNext, sun, "
    "utcOff); the oracle uses an independent crontab matcher (minute scan), astral directly and zoneinfo",
    "period() ticks are exact timedelta arithmetic since fix c80f3bb (model: exact integer division, TFlags.current); the float "
    "quotient of the earlier code survives only as TFlags.preFix for the regression theorem",
    "string tokenisation (regular expressions) is covered by correspondence only; locale weekday names are the C/English ones",
    "asyncio timers fire no earlier than requested; Home Assistant start/stop events as delivered by the test instance",
    "lag stream: whether a wake-up lands exactly 1 us before its instant is decided by the float rounding of asyncio's sleep arithmetic; "
    "immediate repetitions of one run are collapsed for the model tie and judged by the oracle on the raw runs instead",
    "an out-of-range crontab expression (croniter.is_valid false) is logged and skipped by the code: it is dropped from the model's list",
]
TRUSTED = ["tools/extractors/C06.py (unit table of parse_time_offset)", "harness/run_C06.py, harness/run_C07.py (spec AST renderer, "
           "datetime oracle)", "harness/ha_env.py, harness/vclock.py", "modelled not verified: croniter, astral, zoneinfo"]

LA = zoneinfo.ZoneInfo("America/Los_Angeles")
DAY = dt.timedelta(days=1)


# ------------------------------------------------------------------------------------------------ AST helpers
# tspec = {"kind": "once", "d": dt} | {"kind": "period", "s": dt, "per": [1, "num", "unit"], "e": dt | None} | {"kind": "cron", "expr": str}

def off_ast(off):
    """[sign, "12.5", "min"] -> (neg mant dec unit) for the driver (which applies the extracted unit table itself)"""
    if off is None:
        return "none"
    sign, num, unit = off
    if "." in num:
        a, b = num.split(".")
        mant, dec = int(a + b), len(b)
    else:
        mant, dec = int(num), 0
    return [sign < 0, mant, dec, unit or "-"]


def sx_dt6(d):
    if d[0] == "now":
        return ["now", off_ast(d[1])]
    return ["at", W.sx_date(d[1]), W.sx_date(d[2]), off_ast(d[3])]


def per_float(per):
    """the float `parse_time_offset` returns for the interval (value * scale in double arithmetic)"""
    return (-1 if per[0] < 0 else 1) * float(per[1]) * W.UNITS[per[2]]


def cron_valid(expr):
    """field values inside their ranges (what croniter.is_valid refuses otherwise; the code logs an error and skips the entry)"""
    fields = expr.lower().split()
    if len(fields) != 5:
        return False
    for f, (lo, hi) in zip(fields, ((0, 59), (0, 23), (1, 31), (1, 12), (0, 7))):
        f = re.sub(r"[a-z]{3}", lambda m: str(W.CRON_NAMES.get(m.group(0), 99)), f)
        for n in re.findall(r"\d+", re.sub(r"/\d+", "", f)):       # (step widths are not field values)
            if not lo <= int(n) <= hi:
                return False
    return True


def model_specs(specs):
    """the specifications the model sees: an invalid crontab expression is dropped (`if not croniter.is_valid(...): continue`)"""
    return [s for s in specs if not (s["kind"] == "cron" and not cron_valid(s["expr"]))]


def sx_tspec(s, cron_ids):
    if s["kind"] == "once":
        return ["once", sx_dt6(s["d"])]
    if s["kind"] == "cron":
        return ["cron", cron_ids.setdefault(s["expr"], len(cron_ids))]
    num, den = per_float(s["per"]).as_integer_ratio()
    return ["period", sx_dt6(s["s"]), off_ast(s["per"]), "none" if s["e"] is None else sx_dt6(s["e"]), num, den]


def render_tspec(s, style=0):
    if s["kind"] == "once":
        return f"once({render_dt(s['d'], style)})"
    if s["kind"] == "cron":
        return f"cron({s['expr']})"
    sep = ", " if style & 512 else ","
    per = f"{'-' if s['per'][0] < 0 else ''}{s['per'][1]}{' ' if style & 4 and s['per'][2] else ''}{s['per'][2]}"
    out = f"period({render_dt(s['s'], style)}{sep}{per}"
    if s["e"] is not None:
        out += f"{sep}{render_dt(s['e'], style >> 1)}"
    return out + ")"


# ------------------------------------------------------------------------------------------------ oracle
def utc_us(t):
    """UTC microseconds of the naive local time t (first occurrence when ambiguous, pre-gap offset when non-existent)"""
    off = t.replace(tzinfo=LA, fold=0).utcoffset()
    return us_of(t) - off // US


def _exists_local(t):
    back = t.replace(tzinfo=LA, fold=0).astimezone(dt.timezone.utc).astimezone(LA).replace(tzinfo=None)
    return back == t


def cron_next(expr, t, limit_days=3300):
    """first minute strictly after t matching the crontab expression (naive local time)"""
    if not cron_valid(expr):
        return None
    key = (expr, t.replace(second=0, microsecond=0))
    if key in _CRON_CACHE:
        return _CRON_CACHE[key]
    r = _CRON_CACHE[key] = _cron_next(expr, t, limit_days)
    return r


_CRON_CACHE = {}


def _cron_next(expr, t, limit_days):
    cur = t.replace(second=0, microsecond=0) + dt.timedelta(minutes=1)
    mi, hr, dom, mon, dow = expr.split()
    day = cur.replace(hour=0, minute=0)
    for i in range(limit_days):
        d0 = day + i * DAY
        # day-level test with a minute that matches everything else
        if not any(cron_match(f"* * {dom} {mon} {dow}", d0) for _ in (0,)):
            continue
        for h in range(24):
            if not W._cron_field(hr, 0, 23, h):
                continue
            for m in range(60):
                if not W._cron_field(mi, 0, 59, m):
                    continue
                c = d0.replace(hour=h, minute=m)
                if c >= cur:
                    return c
    return None


class Tables:
    """what the driver needs besides the specification: sun lookups, cron successors, zone offsets"""

    def __init__(self):
        self.sun = Sun()
        self.cron = {}
        self.off = {}

    def cron_chain(self, cid, expr, t, n=4):
        for _ in range(n):
            nx = cron_next(expr, t)
            if nx is None:
                # no such day ever (30 Feb): croniter's get_next raises - for the model an iterator that does not advance
                self.cron[(cid, us_of(t))] = us_of(t)
                return
            self.cron[(cid, us_of(t))] = us_of(nx)
            self.off[us_of(t)] = us_of(t) - utc_us(t)
            self.off[us_of(nx)] = us_of(nx) - utc_us(nx)
            t = nx


def strict_class(s):
    """specifications whose denotation the property pins down (everything else is checked by the model tie and the
    metamorphic relations only)"""
    def dated(d):
        return d[0] == "now" or (d[1] != "none" and d[1][0] == "full" and d[2] not in ("sunrise", "sunset"))

    def timeonly(d):
        return d[0] == "at" and d[1] == "none" and d[2] not in ("sunrise", "sunset")

    def sunonly(d):
        # undated sunrise / sunset with an offset that stays inside the day (C06-F4 is about multi-day offsets)
        return d[0] == "at" and d[1] == "none" and d[2] in ("sunrise", "sunset") and abs(off_us(d[3])) <= 6 * 3600 * 1000000
    if s["kind"] == "cron":
        return True
    if s["kind"] == "once":
        d = s["d"]
        return d[0] == "now" or d[1] == "none" or (not isinstance(d[1], str) and d[1][0] in ("full", "md", "dow"))
    per = off_us(s["per"])
    if per <= 0:
        return True          # "Invalid non-positive period": the entry denotes nothing
    if s["e"] is None:
        if dated(s["s"]):
            return True
        if timeonly(s["s"]):
            start = (oracle_dt(s["s"], EPOCH, EPOCH)[0] - EPOCH) // US
            return 0 <= start < per and (86400 * 1000000) % per == 0
        return False
    if (sunonly(s["s"]) or sunonly(s["e"])) and all(timeonly(d) or sunonly(d) for d in (s["s"], s["e"])):
        return True          # period(sunrise, 1h, sunset), period(sunset, 2h, sunrise): each day's window from that day's sun times
    return (dated(s["s"]) and dated(s["e"])) or (timeonly(s["s"]) and timeonly(s["e"]))


def instants_once(d, now, startup, sun):
    """denoted instants of once(d) around `now` (enough of them to contain the least one after now)"""
    if d[0] == "now":
        return [startup + off_us(d[1]) * US]
    _, date, tm, off = d
    shift = off_us(off) * US
    ref = now - shift
    out = []

    def at(day):
        try:
            return oracle_dt(["at", ["full", day.year, day.month, day.day], tm, off], now, startup, 0, sun)[0]
        except ValueError:
            return None
    if date == "none":
        days = [ref.date() + i * DAY for i in range(-2, 3)]
    elif date[0] == "full":
        return [oracle_dt(d, now, startup, 0, sun)[0]]
    elif date[0] == "md":
        days = []
        for y in range(ref.year - 1, ref.year + 9):
            try:
                days.append(dt.date(y, date[1], date[2]))
            except ValueError:
                pass
    elif date[0] == "dow":
        days = [ref.date() + i * DAY for i in range(-8, 9) if (ref.date() + i * DAY).isoweekday() % 7 == date[1]]
    else:
        days = []
    for day in days:
        t = at(day)
        if t is not None:
            out.append(t)
    return out


def least_after(cands, now, startup):
    if now == startup and now in cands:
        return now                      # the start-up instant itself counts at start-up
    later = [c for c in cands if c > now]
    return min(later) if later else None


def progression_after(start, per_us, now, stop=None):
    """least start + k*per (k >= 0) strictly after now, not beyond stop"""
    if now < start:
        t = start
    else:
        k = (us_of(now) - us_of(start)) // per_us + 1
        t = start + k * per_us * US
    return t if stop is None or t <= stop else None


def oracle_next1(s, now, startup, tabs, cid=None):
    """least denoted instant strictly after now (the start-up rule aside); None when there is none;
    'n/a' outside the strict class"""
    if s["kind"] == "period" and off_us(s["per"]) > 0 and (_no_such_day(s["s"], now) or _no_such_day(s["e"], now)):
        return None          # like once(2/29 ...) in a common year (fix b7a2f54): nothing to announce, the other entries count
    if not strict_class(s):
        return "n/a"
    sun = tabs.sun
    if s["kind"] == "cron":
        t = now
        for _ in range(6):
            nx = cron_next(s["expr"], t)
            if nx is None:
                return None
            if utc_us(nx) - utc_us(now) > 0:
                return nx
            t = nx
        return None
    if s["kind"] == "once":
        d = s["d"]
        if d[0] == "at" and isinstance(d[1], str) and d[1] in ("today", "tomorrow"):
            return "n/a"
        return least_after(instants_once(d, now, startup, sun), now, startup)
    per = off_us(s["per"])
    if per <= 0:
        return None
    if s["e"] is None:
        if s["s"][0] == "now" or s["s"][1] != "none":
            start = oracle_dt(s["s"], now, startup, 0, sun)[0]
            if now == startup == start:
                return start
            return progression_after(start, per, now)
        # time-only, self-consistent: one global progression
        start = oracle_dt(s["s"], now, startup, 0, sun)[0]
        if now == startup == start:
            return start
        k = (us_of(now) - us_of(start)) // per + 1
        return start + k * per * US
    if s["s"][0] == "now" or s["s"][1] != "none":
        start = oracle_dt(s["s"], now, startup, 0, sun)[0]
        stop = oracle_dt(s["e"], now, startup, 0, sun)[0]
        if now == startup == start and start <= stop:
            return start
        if start > stop:
            return None
        return progression_after(start, per, now, stop)
    # daily windows
    best = None
    for i in range(-2, 3):
        day = now + i * DAY
        start = oracle_dt(s["s"], day, startup, 0, sun)[0]
        stop = oracle_dt(s["e"], day, startup, 0, sun)[0]
        if stop < start:
            # the window is open across midnight: it ends at the end time of the FOLLOWING day (for a clock time that is
            # stop + 24 h; tomorrow's sunrise is not today's plus 24 h)
            stop = oracle_dt(s["e"], day + DAY, startup, 0, sun)[0]
        t = progression_after(start, per, now, stop)
        if now == startup == start:
            t = start
        if t is not None and (best is None or t < best):
            best = t
    return best


def oracle_next(specs, now, startup, tabs):
    res = [oracle_next1(s, now, startup, tabs) for s in specs]
    if any(r == "n/a" for r in res):
        return "n/a", res
    vals = [r for r in res if r is not None]
    return (min(vals) if vals else None), res


# ------------------------------------------------------------------------------------------------ generators
PERIODS = [[1, "0.1", "s"], [1, "0.25", "sec"], [1, "1", "s"], [1, "2.5", "s"], [1, "30", ""], [1, "1", "min"], [1, "7", "m"],
           [1, "15", "minutes"], [1, "1", "h"], [1, "1.5", "hr"], [1, "6", "hours"], [1, "7", "h"], [1, "1", "d"], [1, "1", "day"],
           [1, "2", "days"], [1, "1", "w"], [1, "0.5", "week"], [1, "0.3", "s"], [1, "0.7", "s"], [1, "1.1", "s"], [1, "90", "min"],
           [1, "0", "s"]]
CRONS = ["* * * * *", "0 12 * * *", "*/5 * * * *", "30 2 * * *", "30 1 * * *", "0 6 * * *", "0 0 1 * *", "15 10 * * 1", "0 0 29 2 *",
         "59 23 31 12 *", "0 */6 * * *", "1 1-4 * * *", "0 18 * * 0", "45 1 10 3 *", "15 1 3 11 *", "0 3 * * 7"]


def gen_tspec(rng, base):
    r = rng.random()
    if r < 0.12:
        return {"kind": "cron", "expr": rng.choice(CRONS)}
    if r < 0.6:
        d = W.gen_dt(rng, base)
        while d[0] == "at" and not isinstance(d[1], str) and d[1][0] in ("md", "full") and not _date_ok(d[1], base):
            d = W.gen_dt(rng, base)
        return {"kind": "once", "d": d}
    k = rng.random()
    per = rng.choice(PERIODS)
    if k < 0.3:       # dated start
        s = ["at", _full(base.date() + rng.choice([-400, -30, -1, 0, 0, 1, 30]) * DAY), W.gen_time(rng, False), W.gen_off(rng)]
        e = None
        if rng.random() < 0.5:
            e = ["at", _full(base.date() + rng.choice([-1, 0, 0, 1, 2, 40]) * DAY), W.gen_time(rng, False), W.gen_off(rng)]
    elif k < 0.45:    # now-relative
        s = ["now", W.gen_off(rng)]
        e = ["now", [1, rng.choice(["30", "3600", "90"]), rng.choice(["s", "min"])]] if rng.random() < 0.5 else None
    elif k < 0.85:    # time-only (daily), often self-consistent
        if rng.random() < 0.6:
            per = rng.choice([[1, "1", "h"], [1, "6", "hours"], [1, "15", "minutes"], [1, "30", ""], [1, "1", "d"], [1, "0.25", "sec"], [1, "90", "min"]])
            p = off_us(per)
            st = rng.choice([0, p // 2, p - 1000000 if p > 1000000 else 0, rng.randrange(0, max(1, p // 1000000)) * 1000000])
            st = max(0, min(st, p - 1))
            s = ["at", "none", ["hms", st // 3600000000, st // 60000000 % 60, st % 60000000], None]
        else:
            s = ["at", "none", W.gen_time(rng, False), None]
            if s[2] == "none":
                s[2] = "midnight"
        e = None
        if rng.random() < 0.5:
            e = ["at", "none", W.gen_time(rng, False), None]
            if e[2] == "none":
                e[2] = "noon"
        if rng.random() < 0.35:
            s, per, e = _over_midnight(rng)
    else:             # anything
        s = W.gen_dt(rng, base, sunok=False)
        e = W.gen_dt(rng, base, sunok=False) if rng.random() < 0.4 else None
        for d in (s, e):
            if d and d[0] == "at" and not isinstance(d[1], str) and d[1][0] in ("md", "full") and not _date_ok(d[1], base):
                d[1] = "none"
                if d[2] == "none" and d[3] is None:
                    d[2] = "midnight"
    return {"kind": "period", "s": s, "per": per, "e": e}


def _over_midnight(rng):
    """an undated window that is open across midnight NOT because the end time of day precedes the start (the documented wrap
    form) but because an OFFSET carries the end - or start and end - into the next day: period(22:00, 1 hour, 23:00 + 3 hours),
    period(21:30 + 1h, 30 min, 22:00 + 5 hours); also windows pulled back over midnight by a negative start offset"""
    per = rng.choice([[1, "1", "hour"], [1, "30", "min"], [1, "90", "minutes"], [1, "45", "m"], [1, "2", "h"]])
    h = rng.choice([19, 20, 21, 22, 23])
    shape = rng.random()
    if shape < 0.6:
        s = ["at", "none", ["hms", h, rng.choice([0, 30]), 0], None]
        e = ["at", "none", ["hms", min(23, h + rng.choice([0, 1])), rng.choice([0, 30, 59]), 0], [1, rng.choice(["2", "3", "5", "6.5"]), rng.choice(["h", "hours", "hr"])]]
    elif shape < 0.8:
        s = ["at", "none", ["hms", h - 1, 30, 0], [1, rng.choice(["1", "90"]), "h" if rng.random() < 0.5 else "min"]]
        if s[3][2] == "min":
            s[3][1] = rng.choice(["45", "90"])
        e = ["at", "none", "noon", [1, rng.choice(["13", "14", "15.5"]), "hours"]]
    else:
        s = ["at", "none", ["hms", 1, 0, 0], [-1, rng.choice(["2", "3"]), "h"]]          # starts yesterday evening
        e = ["at", "none", ["hms", rng.choice([2, 4]), 30, 0], None]
    return s, per, e


def _full(day):
    return ["full", day.year, day.month, day.day]


def _date_ok(date, base):
    try:
        if date[0] == "full":
            dt.date(date[1], date[2], date[3])
        else:
            for y in range(base.year - 1, base.year + 3):
                dt.date(y, date[1], date[2])
        return True
    except ValueError:
        return False


def gen_next(rng, n_lists):
    cases = []
    for _ in range(n_lists):
        base = W.rand_base(rng)
        startup = base - dt.timedelta(seconds=rng.choice([0, 0, 1, 60, 3600, 86400 * 3, 86400 * 40]))
        if rng.random() < 0.1:
            startup = base.replace(hour=rng.choice([0, 10, 12]), minute=0, second=0, microsecond=0)
        specs = [gen_tspec(rng, base) for _ in range(rng.choice([1, 1, 1, 2, 2, 3]))]
        style = rng.randrange(8192)
        strs = [render_tspec(s, style) for s in specs]
        tabs = Tables()
        nows = {base, startup, base.replace(hour=0, minute=0, second=0, microsecond=0)}
        must = set()
        for s in specs:
            for ref in (base, base - DAY):
                try:
                    t = oracle_next1(s, ref, startup, tabs)
                except (ValueError, OverflowError):
                    t = None
                if isinstance(t, dt.datetime) and dt.datetime(1971, 1, 1) < t < dt.datetime(2100, 1, 1):
                    nows.update((t, t - US, t + US))
            if s["kind"] == "period" and off_us(s["per"]) > 0:
                try:
                    st = oracle_dt(s["s"], base, startup)[0]
                    p = off_us(s["per"])
                    for k in (1, 2, 3, 7, 10):
                        nows.add(st + k * p * US)
                    if s["e"] is not None and s["s"][0] == "at" and s["s"][1] == "none":
                        # undated window: the small hours of the following day (a window still open from the evening before)
                        mid = base.replace(hour=0, minute=0, second=0, microsecond=0) + DAY
                        for q in range(rng.randrange(0, 3), 12, 3):
                            must.add(mid + dt.timedelta(minutes=30 * q))
                        en = oracle_dt(s["e"], st, startup)[0]
                        must.update((en, en - p * US, en + US))
                except (ValueError, OverflowError):
                    pass
        nows = sorted(n for n in nows if startup <= n < dt.datetime(2100, 1, 1))
        if len(nows) > 8:
            nows = sorted(rng.sample(nows, 8))
        nows = sorted(set(nows) | {n for n in must if startup <= n < dt.datetime(2100, 1, 1)})
        as_str = len(strs) == 1 and rng.random() < 0.5
        for now in nows:
            cases.append(Case({"kind": "next", "specs": specs, "strs": strs, "now": us_of(now), "startup": us_of(startup),
                               "as_str": as_str}, None, tags=("next",) + tuple(sorted({s["kind"] for s in specs}))))
    return cases


def _chain_nows(specs, base, startup, depth):
    """evaluation times along the successor chain: the k-th denoted instant after `base` (k = 1..depth), 1 us before and after
    it; with the oracle where it applies (strict class), else with the single specifications' own answers"""
    nows, tabs = {base: "base", startup: "startup"}, Tables()
    now = base
    for k in range(depth):
        try:
            t, singles = oracle_next(specs, now, startup, tabs)
        except (ValueError, OverflowError):
            break
        if t == "n/a":
            ts = [r for r in singles if isinstance(r, dt.datetime)]
            t = min(ts) if ts else None
        if t is None or not dt.datetime(1971, 1, 1) < t < dt.datetime(2100, 1, 1):
            break
        for n, rel in ((t, "at"), (t - US, "1us before"), (t + US, "1us after")):
            nows.setdefault(n, f"{rel} occurrence {k + 1}")
        now = t if t > now else t + US
    return sorted((n, rel) for n, rel in nows.items() if n >= startup)


def _bcases(rng, specs, base, startup, cat, depth=2, style=None):
    style = rng.randrange(8192) if style is None else style
    strs = [render_tspec(x, style) for x in specs]
    as_str = len(strs) == 1 and rng.random() < 0.5
    return [Case({"kind": "next", "specs": specs, "strs": strs, "now": us_of(now), "startup": us_of(startup), "as_str": as_str, "rel": rel}, None,
                 tags=("next", "boundary", cat) + tuple(sorted({x["kind"] for x in specs}))) for now, rel in _chain_nows(specs, base, startup, depth)]


BOUNDARY_CRONS = ["0 12 13 * 5", "0 0 1-7 * 1", "30 6 * jan,jun mon-fri", "0 0 * JAN MON", "*/7 8-10,14 1-7 * *", "10-20/5 */12 * * *", "0 0 * * 0,6",
                  "0 0 * * 7", "59 23 31 12 *", "0 0 29 2 *", "0 0 31 * *", "15,45 9-17 * * 1-5", "0 0 1 1 *"]
DEAD_CRONS = ["0 0 30 2 *", "0 0 31 4,6 *"]
INVALID_CRONS = ["61 * * * *", "* 24 * * *", "0 0 0 * *", "0 0 * 13 *"]


def gen_boundary(rng, k):
    """boundary values of the documented grammar (each list evaluated along its successor chain: at the instant, 1 us either side,
    at start-up, up to the 4th occurrence)"""
    D = dt.datetime
    out = []
    bases = [D(2024, 6, 3, 12), D(2024, 2, 28, 23, 59, 59), D(2024, 2, 29, 12), D(2023, 12, 31, 23, 0), D(2024, 12, 31, 23, 59, 59, 999999),
             D(2025, 1, 1), D(2025, 2, 28, 12), D(2024, 6, 2, 23, 59, 59, 999999), D(2024, 3, 1)]

    def once(date, tm, off=None):
        return {"kind": "once", "d": ["at", date, tm, off]}

    def per(s_, p_, e_=None):
        return {"kind": "period", "s": s_, "per": p_, "e": e_}

    def hm(h, m, us=0, date="none", off=None):
        return ["at", date, ["hms", h, m, us], off]
    for _ in range(k):
        # ---- edge values of h:m[:s]: 24:00, 23:60, 23:59:60 (the next midnight), the last microsecond, 0:00 - with every date form
        for tm in (["hms", 24, 0, 0], ["hms", 23, 60, 0], ["hms", 23, 59, 60000000], ["hms", 23, 59, 59999999], ["hms", 0, 0, 0]):
            base = rng.choice(bases)
            date = rng.choice(["none", ["dow", rng.randrange(7)], ["md", 12, 31], ["md", 2, 28], _full(base.date()), _full(base.date() + DAY)])
            out += _bcases(rng, [once(date, tm, rng.choice([None, None, [1, "0", "s"], [-1, "1", "s"]]))], base, base - rng.choice([0, 1, 3600]) * dt.timedelta(seconds=1),
                           "edge-time", depth=3)
        # ---- dates: 29 Feb (dated, month/day in leap and common years), 31 Dec -> 1 Jan through the time / an offset
        for date, tm, off in ((["full", 2024, 2, 29], ["hms", 8, 0, 0], None), (["md", 2, 29], ["hms", 8, 0, 0], None), (["md", 2, 29], "noon", [1, "1", "d"]),
                              (["md", 12, 31], ["hms", 23, 59, 59999999], [1, "1", "s"]), (["md", 12, 31], ["hms", 24, 0, 0], None),
                              (["md", 1, 1], "midnight", [-1, "0.000001", "s"]), (["md", 1, 1], ["hms", 0, 0, 0], None), (["full", 2024, 12, 31], "midnight", [1, "1", "day"]),
                              (["md", 2, 28], ["hms", 24, 0, 0], None), (["md", 3, 1], "midnight", [-1, "1", "d"])):
            base = rng.choice(bases)
            out += _bcases(rng, [once(date, tm, off)], base, base - dt.timedelta(seconds=rng.choice([0, 60, 86400 * 40])), "date", depth=2)
        # 29 Feb next to another entry (since b7a2f54 a once() that has no date this year is skipped) and as start / end of a period()
        for sp in (once(["md", 2, 29], ["hms", 8, 0, 0]), per(hm(8, 0, 0, ["md", 2, 29]), [1, "1", "h"]),
                   per(hm(8, 0), [1, "1", "h"], hm(12, 0, 0, ["md", 2, 29])), per(hm(8, 0, 0, ["md", 2, 29]), [1, "6", "hours"], hm(20, 0, 0, ["md", 2, 29]))):
            base = rng.choice([D(2023, 12, 31, 23, 0), D(2025, 2, 28, 12), D(2025, 1, 1), D(2024, 2, 28, 23, 59, 59), D(2024, 2, 29, 7, 30)])
            specs = [sp, once("none", "noon")]
            rng.shuffle(specs)
            out += _bcases(rng, specs, base, base - dt.timedelta(seconds=rng.choice([0, 3600])), "no such day this year", depth=2)
        # ---- sunrise / sunset with an offset in every unit name, whole and fractional, both signs, zero
        units = list(W.UNITS)
        rng.shuffle(units)
        for u in units[:11]:
            sc = W.UNITS[u]
            num = rng.choice({1: ["1", "90", "0.5", "0"], 60: ["1", "2.5", "0", "90"], 3600: ["1", "1.5", "0.25", "0"], 86400: ["1", "0.5", "0"],
                              604800: ["1", "0.5", "2"]}[sc])
            base = rng.choice(bases)
            out += _bcases(rng, [once(rng.choice(["none", "none", ["dow", rng.randrange(7)], _full(base.date() + DAY)]), rng.choice(["sunrise", "sunset"]),
                                      [rng.choice([1, -1]), num, u])], base, base - DAY, "sun-offset", depth=2)
        # ---- period(): interval equal to / longer than the window, end == start, zero and negative interval, also next to another entry
        h = rng.choice([0, 9, 13, 22])
        for shape, spec in (("interval == window", per(hm(h, 0), [1, "1", "h"], hm(h + 1, 0))),
                            ("interval > window", per(hm(h, 0), [1, "2", "hours"], hm(h + 1, 0))),
                            ("end == start", per(hm(h, 0), [1, "1", "h"], hm(h, 0))),
                            ("end == start", per(hm(h, 30, 0, _full(D(2024, 6, 4).date())), [1, "15", "min"], hm(h, 30, 0, _full(D(2024, 6, 4).date())))),
                            ("interval == window", per(hm(h, 0, 0, _full(D(2024, 6, 4).date())), [1, "90", "min"], hm(h + 1, 30, 0, _full(D(2024, 6, 4).date())))),
                            ("interval > window", per(["now", [1, "10", "m"]], [1, "1", "h"], ["now", [1, "30", "min"]])),
                            ("interval == a day", per(hm(h, 0), [1, "1", "d"], hm(h, 0, 0, "none", [1, "1", "d"]))),
                            ("zero interval", per(hm(h, 0), [1, "0", "s"])), ("zero interval", per(hm(h, 0), [1, "0.0", "min"], hm(h + 1, 0))),
                            ("negative interval", per(hm(h, 0), [-1, "5", "s"])), ("negative interval", per(["now", None], [-1, "1", "h"], ["now", [1, "1", "d"]]))):
            base = rng.choice([D(2024, 6, 3, 12), D(2024, 6, 4, h, 0), D(2024, 6, 3, 23, 59, 59, 999999)])
            specs = [spec]
            if rng.random() < 0.4:
                specs.insert(rng.randrange(2), once("none", ["hms", (h + 2) % 24, 0, 0]))
            out += _bcases(rng, specs, base, D(2024, 6, 3, 12), "period: " + shape, depth=4)
        # ---- crontab: ranges / steps / lists / names / both day fields / rare and impossible days / out-of-range values
        for expr in BOUNDARY_CRONS:
            out += _bcases(rng, [{"kind": "cron", "expr": expr}], rng.choice(bases), D(2023, 12, 1), "cron-form", depth=3)
        for expr in DEAD_CRONS + INVALID_CRONS:
            specs = [{"kind": "cron", "expr": expr}]
            if rng.random() < 0.6:
                specs.insert(rng.randrange(2), once("none", "noon"))
            out += _bcases(rng, specs, rng.choice(bases), D(2023, 12, 1), "cron-impossible-day" if expr in DEAD_CRONS else "cron-out-of-range", depth=1)
        # ---- several entries: duplicates, different spellings of one instant, instants 1 us apart
        noon_forms = [once("none", "noon"), once("none", ["hms", 12, 0, 0]), once("none", ["hms", 11, 0, 0], [1, "60", "min"]), once("none", "midnight", [1, "0.5", "d"]),
                      per(hm(12, 0), [1, "1", "d"]), {"kind": "cron", "expr": "0 12 * * *"}, once("none", ["hms", 24, 0, 0], [-1, "12", "h"])]
        for _ in range(4):
            n = rng.choice([2, 2, 3, 4])
            specs = [dict(rng.choice(noon_forms)) for _ in range(n)]
            if rng.random() < 0.3:
                specs.append(once("none", ["hms", 12, 0, rng.choice([1, 999999])]))       # the next instant is 1 us later
            base = rng.choice([D(2024, 6, 3, 11, 59, 59, 999999), D(2024, 6, 3, 12), D(2024, 11, 2, 12), D(2024, 3, 9, 13)])
            out += _bcases(rng, specs, base, rng.choice([base, D(2024, 1, 1)]), "same-instant list", depth=3)
        for _ in range(3):
            sp = gen_tspec(rng, D(2024, 6, 3, 12))
            out += _bcases(rng, [sp, dict(sp)] + ([dict(sp)] if rng.random() < 0.3 else []), D(2024, 6, 3, 12), D(2024, 6, 3, 9), "duplicate entry", depth=2)
        # ---- the third and later occurrence of one specification
        for _ in range(4):
            sp = gen_tspec(rng, D(2024, 6, 3, 12))
            out += _bcases(rng, [sp], rng.choice(bases), D(2023, 6, 1), "later occurrences", depth=5)
    return out


def gen_parse(rng, n):
    cases = []
    for _ in range(n):
        base = W.rand_base(rng)
        startup = base - dt.timedelta(seconds=rng.choice([0, 7, 86400]))
        d = W.gen_dt(rng, base)
        cases.append(Case({"kind": "parse", "d": d, "str": render_dt(d, rng.randrange(8192)), "day_offset": rng.choice([0, 0, 1, -1, 2]),
                           "now": us_of(base), "startup": us_of(startup)}, None, tags=("parse",)))
    for off in ([1, "1", u] for u in W.UNITS):
        cases.append(Case({"kind": "offset", "off": off, "str": W.render_off(off, rng.randrange(8)).strip()}, None, tags=("offset",)))
    for _ in range(n // 4):
        off = W.gen_off(rng, big=True) or [1, "3", "h"]
        cases.append(Case({"kind": "offset", "off": off, "str": W.render_off(off, rng.randrange(8)).strip()}, None, tags=("offset",)))
    return cases


def corpus_cases():
    """the witnesses of the findings, always run (C06-F1, the float floor of period(), is fixed by c80f3bb: its witnesses now
    must give the exact answers - regression cases; F2a-d, F3 are open)"""
    D = dt.datetime
    out = []

    def one(spec, now, startup=D(2024, 1, 1)):
        out.append(Case({"kind": "next", "specs": [spec], "strs": [render_tspec(spec)], "now": us_of(now), "startup": us_of(startup),
                         "as_str": True}, None, tags=("next", "corpus", spec["kind"])))
    per = {"kind": "period", "s": ["at", ["full", 2024, 6, 3], ["hms", 12, 0, 0], None], "per": [1, "0.1", "s"], "e": None}
    for us in (100000, 200000, 300000, 400000, 300001):
        one(per, D(2024, 6, 3, 12, 0, 0, us))
    mon = {"kind": "once", "d": ["at", ["dow", 1], ["hms", 10, 0, 0], None]}
    for now in (D(2024, 6, 3, 9, 0), D(2024, 6, 3, 10, 0), D(2024, 6, 3, 10, 0, 1), D(2024, 6, 3, 23, 59, 59), D(2024, 6, 4, 0, 0)):
        one(mon, now)
    yr = {"kind": "once", "d": ["at", ["md", 3, 1], ["hms", 10, 0, 0], None]}
    for now in (D(2024, 2, 29, 23, 0), D(2024, 3, 1, 10, 0), D(2024, 3, 1, 10, 0, 1), D(2024, 12, 31, 23, 59, 59), D(2025, 1, 1, 0, 0)):
        one(yr, now)
    late = {"kind": "period", "s": ["at", "none", ["hms", 22, 0, 0], None], "per": [1, "1", "hour"],
            "e": ["at", "none", ["hms", 23, 0, 0], [1, "3", "hours"]]}
    for now in (D(2019, 9, 1, 23, 30), D(2019, 9, 2, 0, 0), D(2019, 9, 2, 0, 30), D(2019, 9, 2, 1, 59, 59, 999999), D(2019, 9, 2, 2, 0), D(2019, 9, 2, 12, 0)):
        one(late, now, D(2019, 9, 1))
    daily = {"kind": "once", "d": ["at", "none", ["hms", 10, 0, 0], None]}
    one(daily, D(2024, 3, 1, 10, 0, 5), D(2024, 3, 1, 10, 0, 0))
    one(daily, D(2024, 3, 1, 10, 0, 0), D(2024, 3, 1, 10, 0, 0))
    one(daily, D(2024, 3, 2, 9, 0, 0), D(2024, 3, 1, 10, 0, 0))
    # C06-F3 through an offset that crosses midnight: once(midnight - 12 hour) started at noon - on the following day the first
    # parse (today's midnight - 12 h = yesterday noon) IS the start-up time, the re-parse is suppressed, that day's noon is dropped
    back = {"kind": "once", "d": ["at", "none", "midnight", [-1, "12", "hour"]]}
    for now in (D(2024, 10, 7, 12, 0), D(2024, 10, 7, 18, 0), D(2024, 10, 8, 6, 0), D(2024, 10, 8, 11, 59, 59, 999999), D(2024, 10, 8, 12, 0), D(2024, 10, 9, 6, 0)):
        one(back, now, D(2024, 10, 7, 12, 0))
    return out


def gen_ha(rng, n_scen):
    cases = []
    for sc_i in range(n_scen):
        horizon = rng.choice([20, 40, 130])
        funcs = []
        for fi in range(rng.choice([3, 4, 5])):
            specs = []
            for _ in range(rng.choice([1, 1, 2, 3])):
                r = rng.random()
                t0 = rng.randrange(1, horizon * 4) / 4
                if r < 0.35:
                    specs.append({"kind": "once", "d": _near(rng, t0)})
                elif r < 0.5:
                    specs.append({"kind": "once", "d": ["now", [1, _rel(rng, t0), rng.choice(["s", "sec", ""])]]})
                elif r < 0.8:
                    per = rng.choice([[1, "0.5", "s"], [1, "2.5", "s"], [1, "7", "sec"], [1, "0.25", "min"], [1, "1", "m"]])
                    e = None
                    if rng.random() < 0.6:
                        e = _near(rng, t0 + rng.randrange(0, horizon * 2) / 4, True)
                    st = _near(rng, t0, True) if rng.random() < 0.6 else ["now", [1, _rel(rng, t0), "s"]]
                    if st[0] == "now" and e is not None:
                        e = ["now", [1, _rel(rng, t0 + rng.randrange(0, horizon * 2) / 4), "s"]]
                    specs.append({"kind": "period", "s": st, "per": per, "e": e})
                elif r < 0.9:
                    specs.append({"kind": "cron", "expr": rng.choice(["* * * * *", "1 12 * * *", "*/2 * * * *", "0-1 12 3 6 *"])})
                else:
                    specs.append({"kind": "once", "d": ["now", None]})
            if rng.random() < 0.2:
                # the same entry twice, or the same instant written differently (noon + N s): still ONE run at that instant
                j = rng.randrange(len(specs))
                d0 = specs[j].get("d")
                if d0 and d0[0] == "at" and d0[1] == "none" and rng.random() < 0.5:
                    secs = Fraction(d0[2][3], 1000000) + 60 * d0[2][2] + 3600 * (d0[2][1] - 12)
                    specs.append({"kind": "once", "d": ["at", "none", "noon", [1, str(float(secs)) if secs.denominator > 1 else str(int(secs)), "s"]]})
                else:
                    specs.insert(rng.randrange(len(specs) + 1), json.loads(json.dumps(specs[j])))
            at_start = any(s["kind"] == "once" and s["d"] == ["now", None] for s in specs)
            # ("startup" is documented as equivalent to once(now); the two subsystems disagree on whether both together give
            #  one run or two, which the property does not settle - the combination is not generated)
            f = {"specs": specs, "startup": rng.random() < 0.35 and not at_start, "shutdown": rng.random() < 0.35,
                 "style": rng.randrange(8192)}
            r = rng.random()
            if r < 0.3:
                # only "startup" / "shutdown" entries, or no argument list at all: the runs at definition / removal are part of
                # "exactly the instants the specification denotes" (a decorator naming only "shutdown" must not run at definition)
                f["specs"] = []
                f["argv"] = rng.choice([None, ["startup"], ["shutdown"], ["shutdown"], ["startup", "shutdown"], ["shutdown", "startup"],
                                        ["shutdown", "shutdown"], ["startup", "startup", "shutdown"]])
            elif r < 0.5 and not at_start:
                # the two words anywhere between the time specifications, possibly repeated
                argv = list(range(len(specs)))
                for w in rng.choice([["startup"], ["shutdown"], ["shutdown", "startup"], ["shutdown", "shutdown"], ["startup", "shutdown"]]):
                    argv.insert(rng.randrange(len(argv) + 1), w)
                f["argv"] = argv
            if "argv" in f:
                f["startup"] = f["argv"] is None or "startup" in f["argv"]
                f["shutdown"] = f["argv"] is not None and "shutdown" in f["argv"]
            funcs.append(f)
        scen = {"id": sc_i, "horizon": horizon, "funcs": funcs}
        for legacy in (True, False):
            for fi in range(len(funcs)):
                cases.append(Case({"kind": "ha", "legacy": legacy, "scen": scen, "fi": fi}, None,
                                  tags=("ha", "legacy" if legacy else "new")))
    return cases


def ha_corpus():
    """always run: functions whose decorator names only "startup" / "shutdown" (seeded change C06_3 made a shutdown-only
    function run at definition as well), the bare decorator, and "shutdown" next to a time specification"""
    once = {"kind": "once", "d": ["at", "none", ["hms", 12, 0, 5000000], None]}
    funcs = [{"specs": [], "argv": None}, {"specs": [], "argv": ["startup"]}, {"specs": [], "argv": ["shutdown"]},
             {"specs": [], "argv": ["startup", "shutdown"]}, {"specs": [once], "argv": ["shutdown", 0]},
             {"specs": [once], "argv": [0, "startup"]}]
    for f in funcs:
        f["style"] = 0
        f["startup"] = f["argv"] is None or "startup" in f["argv"]
        f["shutdown"] = f["argv"] is not None and "shutdown" in f["argv"]
    scen = {"id": "corpus-markers", "horizon": 20, "funcs": funcs}
    return [Case({"kind": "ha", "legacy": legacy, "scen": scen, "fi": fi}, None, tags=("ha", "corpus", "legacy" if legacy else "new"))
            for legacy in (True, False) for fi in range(len(funcs))]


def ha_boundary_corpus():
    """always run, both subsystems: several entries denoting one instant (ONE run), duplicates, period() with the interval equal to /
    longer than the window, end == start, zero / negative interval (no run; the other entries still fire), a crontab day that
    never exists next to a once() (finding C06-F9), upper-case / blank-padded spellings"""
    def t(sec):
        x = BASE + dt.timedelta(seconds=sec)
        return ["at", "none", ["hms", x.hour, x.minute, x.second * 1000000 + x.microsecond], None]

    def once(sec, **kw):
        return {"kind": "once", "d": t(sec)}

    def per(a, p_, b=None):
        return {"kind": "period", "s": t(a), "per": p_, "e": None if b is None else t(b)}
    five = ["at", "none", "noon", [1, "5", "s"]]
    funcs = [{"specs": [once(5), {"kind": "once", "d": five}, {"kind": "once", "d": ["at", ["full", 2024, 6, 3], ["hms", 12, 0, 5000000], None]}]},
             {"specs": [once(4.25), once(4.25), once(4.25)]},
             {"specs": [per(3, [1, "2.5", "s"], 5.5)]},                       # interval == window: 3 and 5.5
             {"specs": [per(3, [1, "7", "sec"], 5.5)]},                       # interval > window: 3 only
             {"specs": [per(3.25, [1, "1", "s"], 3.25)]},                     # end == start: that instant only
             {"specs": [per(3, [1, "0", "s"]), once(6.5)]},                   # zero interval: skipped, the once() fires
             {"specs": [once(2.75), per(3, [-1, "2", "s"], 9)]},              # negative interval
             {"specs": [{"kind": "cron", "expr": "0 0 30 2 *"}, once(7.25)]},  # C06-F9: the impossible day takes the once() with it
             {"specs": [once(8.5), per(8.5, [1, "30", "s"]), {"kind": "once", "d": ["at", ["dow", 1], ["hms", 12, 0, 8500000], None]}], "style": 1024 | 4096},
             {"specs": [per(2, [1, "1.5", "s"], 11), once(3.5), once(5)], "style": 2048 | 4}]     # 3.5 and 5 are ticks of the period too
    for f in funcs:
        f.setdefault("style", 0)
        f["startup"] = f["shutdown"] = False
    scen = {"id": "corpus-boundary", "horizon": 12, "funcs": funcs}
    return [Case({"kind": "ha", "legacy": legacy, "scen": scen, "fi": fi}, None, tags=("ha", "corpus", "boundary", "legacy" if legacy else "new"))
            for legacy in (True, False) for fi in range(len(funcs))]


def sun_window_cases(rng):
    """stream next, 16 cases: period(start, interval, end) with UNDATED sunrise / sunset (+- offset) start and end, asked inside
    today's window, after it has ended (the answer lies in tomorrow's window), after midnight inside a window that is open across
    midnight (period(sunset, 2h, sunrise): ticks anchored at YESTERDAY's sunset, end = today's sunrise) and in the small hours
    before today's window.  The oracle takes every day's window from astral for that date (seeded change C06_8 moved today's
    window by whole days instead)."""
    D = dt.datetime

    def sr(off=None):
        return ["at", "none", "sunrise", off]

    def ss(off=None):
        return ["at", "none", "sunset", off]
    shapes = [(sr(), [1, "1", "h"], ss()), (ss(), [1, "2", "h"], sr()), (ss([-1, "1", "h"]), [1, "45", "min"], sr([1, "30", "min"])),
              rng.choice([(sr([1, rng.choice(["15", "20.5"]), "min"]), [1, "90", "min"], ss([-1, "0.5", "h"])),
                          (ss([1, "10", "min"]), [1, rng.choice(["1", "2.5"]), "hours"], ["at", "none", ["hms", 5, 30, 0], None]),
                          (["at", "none", ["hms", 22, 15, 0], None], [1, "50", "min"], sr([-1, rng.choice(["5", "40"]), "m"]))])]
    days = [D(2024, 9, 1), D(2024, 3, 18), D(2023, 12, 20), D(2024, 6, 21), D(2025, 4, 2), D(2024, 10, 12)]
    rng.shuffle(days)
    out = []
    for (s_, p_, e_), day in zip(shapes, days):
        spec = {"kind": "period", "s": s_, "per": p_, "e": e_}
        startup = day - 3 * DAY
        nows = [day + dt.timedelta(hours=13), day + dt.timedelta(hours=21, minutes=rng.randrange(60)),
                day + DAY + dt.timedelta(hours=1, minutes=rng.randrange(60), seconds=24, microseconds=rng.choice([0, 250000])),
                day + DAY + dt.timedelta(hours=4, minutes=rng.randrange(30))]
        style = rng.choice([0, 512, rng.randrange(8192)])
        for now in nows:
            out.append(Case({"kind": "next", "specs": [spec], "strs": [render_tspec(spec, style)], "now": us_of(now), "startup": us_of(startup),
                             "as_str": rng.random() < 0.5, "rel": "sun-window"}, None, tags=("next", "corpus", "sun-window", "period")))
    return out


def ha_hold_cases(rng):
    """stream ha, both subsystems, 3 functions each: a function that carries `@state_trigger(expr, state_hold=h)` NEXT TO its
    @time_trigger.  While the function waits for its next instant the state trigger becomes true (the hold starts, its deadline
    lies BEFORE the next instant) and false again half-way through the hold - nothing may run, and the next time run must happen at
    the denoted instant with that instant as trigger_time (seeded change C06_7 handed it the abandoned hold's deadline).  One
    function repeats the pulse after its last instant (the specification is exhausted) and then keeps the state true: exactly one
    state run must follow - the trigger must not have died."""
    def t(sec):
        x = BASE + dt.timedelta(seconds=sec)
        return ["at", "none", ["hms", x.hour, x.minute, x.second * 1000000 + x.microsecond], None]
    T = rng.choice([9, 10, 11])
    h = [rng.choice([1.5, 2.0, 0.75]) for _ in range(3)]
    g = rng.choice([0.1, 0.35, 0.6])           # off the 1/4 s grid of the instants
    funcs = [
        # once(T): pulse before T; after T (nothing left to wait for) a second abandoned pulse, then a hold that completes
        {"specs": [{"kind": "once", "d": t(T)}], "hold": h[0], "want_state": 1,
         "pulses": [[T - 6 + g, T - 6 + g + h[0] / 2], [T + 2 + g, T + 2 + g + h[0] / 2], [T + 5 + g, None]]},
        # period(12:00:02, 7 s): instants 2, 9, 16, 23 - a pulse in two of the gaps
        {"specs": [{"kind": "period", "s": t(2), "per": [1, "7", "sec"], "e": None}], "hold": h[1], "want_state": 0,
         "pulses": [[10 + g, 10 + g + h[1] / 2], [(a := rng.choice([17, 19])) + g, a + g + h[1] / 4]]},
        # two entries: once(12:00:05) and once(now + 14.6 s) - pulses before the first and between the two
        {"specs": [{"kind": "once", "d": t(5)}, {"kind": "once", "d": ["now", [1, "14.6", "s"]]}], "hold": h[2], "want_state": 0,
         "pulses": [[1 + g, 1 + g + h[2] / 2], [7 + g, 7 + g + h[2] / 2], [10 + g, 10 + g + h[2] / 3]]},
    ]
    for f in funcs:
        f["style"] = 0
        f["startup"] = f["shutdown"] = False
    scen = {"id": "hold", "horizon": 26, "funcs": funcs}
    return [Case({"kind": "ha", "legacy": legacy, "scen": scen, "fi": fi}, None, tags=("ha", "corpus", "state-hold", "legacy" if legacy else "new"))
            for legacy in (True, False) for fi in range(len(funcs))]


def _rel(rng, t):
    """start-up relative offsets end in .1 / .6: they never coincide with the absolute instants on the 1/4 s grid (the
    start-up time of a running trigger is BASE plus a few microseconds of dt_now() ticks)"""
    return f"{int(t)}.{rng.choice([1, 6])}"


def _near(rng, t, period=False):
    x = BASE + dt.timedelta(seconds=t)
    tm = ["hms", x.hour, x.minute, x.second * 1000000 + x.microsecond]
    k = rng.random()
    if k < 0.6:
        return ["at", "none", tm, None]
    if k < 0.75:
        return ["at", ["full", 2024, 6, 3], tm, None]
    if k < 0.85 and not period:
        return ["at", ["dow", 1], tm, None]
    if k < 0.95 and not period:
        return ["at", ["md", 6, 3], tm, None]
    return ["at", "none", tm, None]


def gen_cases(rng, tier, search):
    k = {"quick": 1, "thorough": 8}[tier] * (3 if search else 1)
    return corpus_cases() + dst_corpus() + ha_corpus() + ha_boundary_corpus() + sun_window_cases(rng) + ha_hold_cases(rng) + gen_boundary(rng, k) + gen_next(rng, 360 * k) + gen_parse(rng, 240 * k) + gen_ha(rng, 6 * k) + gen_dst(rng, 5 * k) + lag_corpus() + gen_lag(rng, 4 * k)


# ------------------------------------------------------------------------------------------------ running the real code
def _show_dt(t):
    return "none" if t is None else str(us_of(t))


async def _next(TrigTime, arg, now, startup):
    try:
        r = await TrigTime.timer_trigger_next(arg, now, startup)
        return f"next={_show_dt(r[0])} adj={_show_dt(r[1])}", r[0]
    except Exception as e:  # an exception of pyscript is an outcome
        if type(e).__name__ == "CroniterBadDateError":
            return "raise", None          # the iterator has no next value (model: cronLoop runs out of fuel)
        return W._exc_name(e), None


async def _run_next(c, TrigTime):
    p = c.payload
    now, st = dt_of(p["now"]), dt_of(p["startup"])
    arg = p["strs"][0] if p["as_str"] else list(p["strs"])
    c.impl, t = await _next(TrigTime, arg, now, st)
    meta = {}
    if t is not None and t > now:
        if _exists_local(t - US):      # (a wall clock never shows a time inside the spring-forward gap)
            meta["before"] = (await _next(TrigTime, arg, t - US, st))[0]   # no instant skipped: same answer just before it
        r_at, t2 = await _next(TrigTime, arg, t, st)                       # none repeated: strictly later at the instant
        meta["at_ok"] = t2 is None or t2 > t or r_at.startswith("raise") or t2 == t == st
        meta["at"] = r_at
    p["_meta"] = meta
    single = []
    if len(p["strs"]) > 1:
        for s in p["strs"]:
            single.append((await _next(TrigTime, s, now, st))[0])
    p["_single"] = single


async def _run_parse(c, TrigTime, trigger):
    p = c.payload
    if p["kind"] == "offset":
        try:
            v = trigger.parse_time_offset(p["str"])
            c.impl = str(int(round(v * 1000000))) if abs(v * 1000000 - round(v * 1000000)) < 1e-3 else f"inexact:{v!r}"
        except Exception as e:
            c.impl = W._exc_name(e)
        return
    try:
        t, fixed = await TrigTime.parse_date_time(p["str"], p["day_offset"], dt_of(p["now"]), dt_of(p["startup"]))
        c.impl = f"ok {us_of(t)} {1 if fixed else 0}"
    except Exception as e:
        c.impl = W._exc_name(e)


def _run_direct(cases):
    logging.disable(logging.CRITICAL)
    trigger, TrigTime = W._direct_env()
    from homeassistant.util import dt as dt_util
    dt_util.set_default_time_zone(LA)
    loop = asyncio.new_event_loop()
    asyncio.set_event_loop(loop)
    try:
        with patch.object(trigger.sun, "get_astral_location", lambda hass: (Sun.loc(), 0)):
            for c in cases:
                if c.payload["kind"] == "next":
                    loop.run_until_complete(_run_next(c, TrigTime))
                else:
                    loop.run_until_complete(_run_parse(c, TrigTime, trigger))
    finally:
        loop.close()


def argv_of(f):
    """the decorator's argument list: "startup" / "shutdown" / index of a time specification; None = bare @time_trigger"""
    if "argv" in f:
        return f["argv"]
    return (["startup"] if f["startup"] else []) + list(range(len(f["specs"]))) + (["shutdown"] if f["shutdown"] else [])


def ha_script(scen):
    lines = ["def tt(kw):", "    t = kw.get('trigger_time')", "    return t if isinstance(t, str) else str(t)", ""]
    for fi, f in enumerate(scen["funcs"]):
        argv = argv_of(f)
        if argv is None:
            dec = "@time_trigger"
        else:
            dec = "@time_trigger(" + ", ".join(json.dumps(a if isinstance(a, str) else render_tspec(f["specs"][a], f["style"])) for a in argv) + ")"
        if f.get("hold"):
            lines.append(f"@state_trigger(\"pyscript.c06_v{fi} == '1'\", state_hold={f['hold']})")
        lines += [dec, f"def f{fi}(**kw):", f"    rec('run', {fi}, tt(kw), kw.get('trigger_type'))", ""]
    return "\n".join(lines) + "\n"


def _run_scenario(arg):
    scen, legacy = arg
    from ha_env import run_ha
    from custom_components.pyscript.function import Function
    early = []
    Function.register({"rec": lambda *a: early.append([0.0] + list(a)), "vtime": lambda: 0.0})

    async def body(env):
        stim = []
        for fi, f in enumerate(scen["funcs"]):
            for on, off in f.get("pulses", []):
                stim.append((on, fi, "1"))
                if off is not None:
                    stim.append((off, fi, "0"))
        for ts, fi, v in sorted(stim):
            await W._goto(env, ts)
            env.hass.states.async_set(f"pyscript.c06_v{fi}", v)
        await W._goto(env, scen["horizon"])
        n_before = len(env.records)
        env.remove("c06.py")
        await env.reload()
        await W._goto(env, scen["horizon"] + 1)
        recs = early + [list(r) for r in env.records]
        return recs, len(early) + n_before

    try:
        return run_ha({"c06.py": ha_script(scen)}, legacy, body, vnow_tick=True)
    except Exception as e:
        return "harness:" + type(e).__name__ + ":" + str(e)[:200]


def _today(d):
    return ["at", ["full", BASE.year, BASE.month, BASE.day], d[2], d[3]] if d is not None and d[0] == "at" and d[1] == "none" else d


def chain_oracle(f, horizon, tabs):
    """expected runs of one function: the successor chain of its specification list from start-up (BASE) up to the horizon
    (a scenario never crosses midnight, so a time-only period() is simply today's)"""
    out = []
    now, st = BASE, BASE
    specs = [dict(s, s=_today(s["s"]), e=_today(s["e"])) if s["kind"] == "period" else s for s in f["specs"]]
    for _ in range(4000):
        t, _ = oracle_next(specs, now, st, tabs)
        if t == "n/a" or t is None:
            break
        if (t - BASE).total_seconds() > horizon:
            break
        if t == now and now != st:
            break
        out.append(t)
        now = t + US if t == now else t
    return out


def run_impl(cases):
    direct = [c for c in cases if c.payload["kind"] in ("next", "parse", "offset")]
    if direct:
        _run_direct(direct)
    run_dst_cases([c for c in cases if c.payload["kind"] == "dst"])
    run_lag_cases([c for c in cases if c.payload["kind"] == "lag"])
    ha = [c for c in cases if c.payload["kind"] == "ha"]
    groups = {}
    for c in ha:
        groups.setdefault((json.dumps(c.payload["scen"], sort_keys=True), c.payload["legacy"]), []).append(c)
    for k, cs in groups.items():
        res = _run_scenario((cs[0].payload["scen"], k[1]))
        for c in cs:
            if isinstance(res, str):
                c.impl = res
                continue
            recs, n_live = res
            fi = c.payload["fi"]
            mine = [(i, r) for i, r in enumerate(recs) if len(r) >= 4 and r[1] == "run" and r[2] == fi]
            parts, late, state_runs = [], [], []
            for i, r in mine:
                tt = r[3]
                if len(r) > 4 and r[4] == "state":
                    state_runs.append(round(r[0], 3))      # (judged by the verdict; the model's chain has time runs only)
                    continue
                if tt in ("startup", "shutdown"):
                    parts.append(tt + ("" if (tt == "shutdown") == (i >= n_live) else "@wrong-phase"))
                    continue
                t = dt.datetime.fromisoformat(tt)
                parts.append(str((us_of(t) + 500) // 1000 * 1000))     # millisecond grid (see _rel)
                if abs((t - BASE).total_seconds() - r[0]) > 0.02:
                    late.append(f"{tt}@{r[0]}")
            c.impl = " ".join(parts) + ("" if not late else " late=" + ",".join(late))
            c.payload["_state_runs"] = state_runs
    for c in cases:
        c.line = make_line(c)


# ================================================================================================ DST stream
# Running @time_trigger functions across a daylight-saving change: the wall clock dt_now() is the naive local time of
# America/Los_Angeles at a UTC instant that advances with the virtual loop (real elapsed seconds), so that a day has 25 h or
# 23 h of real time.  Oracle: a cron()/once() run happens when the wall clock reads the denoted instant and gets that instant as
# trigger_time; period() runs are equally spaced in real time.
UTC = dt.timezone.utc
DST_DAYS = {"fall": dt.datetime(2024, 11, 3), "spring": dt.datetime(2024, 3, 10)}
H_US = 3600 * 1000000


def _zone_tables():
    """piecewise constant offsets (us) of the wall clock: by real (UTC) time, and by naive local time with fold=0"""
    real, naive = [], []
    t = dt.datetime(2023, 12, 31, tzinfo=UTC)
    prev = t.astimezone(LA).utcoffset() // US
    real.append([-10**18, prev])
    naive.append([-10**18, prev])
    end = dt.datetime(2025, 1, 2, tzinfo=UTC)
    while t < end:
        t += dt.timedelta(hours=1)
        off = t.astimezone(LA).utcoffset() // US
        if off != prev:
            u = (t - dt.datetime(1970, 1, 1, tzinfo=UTC)) // US
            real.append([u, off])
            naive.append([u + max(prev, off), off])
            prev = off
    return real, naive


ZREAL, ZNAIVE = _zone_tables()


def gen_dst(rng, n_scen):
    cases = []
    for sc_i in range(n_scen):
        which = "fall" if sc_i % 2 == 0 else "spring"
        day0 = DST_DAYS[which] - DAY
        # minute 7: no denoted instant coincides with the start-up time (on a clock that does not tick between two reads the
        # start-up rule `now == this_t == startup_time` would re-fire forever)
        start = day0.replace(hour=rng.choice([4, 9, 15, 20]), minute=7)
        hours = rng.choice([50, 56, 62])
        funcs = []
        for _ in range(rng.choice([4, 5, 6])):
            r = rng.random()
            hh, mm = rng.choice([0, 3, 4, 5, 6, 9, 12, 18, 22, 23]), rng.choice([0, 0, 15, 30, 45])
            if r < 0.3:
                funcs.append({"kind": "cron", "expr": f"{mm} {hh} * * *"})
            elif r < 0.4:
                funcs.append({"kind": "cron", "expr": f"{mm} * * * *"})
            elif r < 0.65:
                funcs.append({"kind": "once", "d": ["at", "none", ["hms", hh, mm, rng.choice([0, 0, 30000000])], None]})
            elif r < 0.92:
                per = rng.choice([[1, "1", "d"], [1, "12", "h"], [1, "6", "hours"], [1, "90", "min"], [1, "24", "h"]])
                funcs.append({"kind": "period", "s": ["at", ["full", day0.year, day0.month, day0.day], ["hms", hh, mm, 0], None], "per": per,
                              "e": None})
            else:
                funcs.append({"kind": "period", "s": ["at", "none", ["hms", 0, mm, 0], None], "per": [1, "6", "h"], "e": None})
        scen = {"id": sc_i, "which": which, "start": us_of(start), "hours": hours, "funcs": funcs}
        for legacy in (True, False):
            for fi in range(len(funcs)):
                cases.append(Case({"kind": "dst", "legacy": legacy, "scen": scen, "fi": fi}, None,
                                  tags=("dst", which, "legacy" if legacy else "new", funcs[fi]["kind"])))
    return cases


def dst_corpus():
    """the seeder's witness (cron(0 6 * * *) over the fall-back night) and its spring counterpart, plus once()/period()"""
    out = []
    for i, which in enumerate(("fall", "spring")):
        day0 = DST_DAYS[which] - DAY
        funcs = [{"kind": "cron", "expr": "0 6 * * *"}, {"kind": "once", "d": ["at", "none", ["hms", 6, 30, 0], None]},
                 {"kind": "period", "s": ["at", ["full", day0.year, day0.month, day0.day], ["hms", 18, 0, 0], None], "per": [1, "1", "d"], "e": None},
                 {"kind": "cron", "expr": "30 * * * *"}]
        scen = {"id": f"corpus-{which}", "which": which, "start": us_of(day0.replace(hour=5, minute=7)), "hours": 62, "funcs": funcs}
        for legacy in (True, False):
            for fi in range(len(funcs)):
                out.append(Case({"kind": "dst", "legacy": legacy, "scen": scen, "fi": fi}, None,
                                tags=("dst", "corpus", which, "legacy" if legacy else "new", funcs[fi]["kind"])))
    return out


def _dst_script(scen):
    lines = []
    for fi, f in enumerate(scen["funcs"]):
        lines += [f"@time_trigger({json.dumps(render_tspec(f))})", f"def f{fi}(**kw):", f"    rec2({fi}, str(kw['trigger_time']))", ""]
    return "\n".join(lines) + "\n"


def _spin_guard(loop, limit=400):
    """The wall clocks of the dst / lag streams are functions of the virtual loop time, which stands still while tasks are ready.
    A trigger loop that keeps announcing the CURRENT instant (seeded change C06_2: the next tick of a period is `now` itself)
    would then spin forever at one virtual instant.  After `limit` readings without any progress of the loop time the clock
    creeps on by 1 us per reading, so the run terminates and the repeated runs reach the verdict."""
    st = {"t": None, "n": 0}

    def extra_us():
        t = loop.time()
        if t != st["t"]:
            st["t"], st["n"] = t, 0
        st["n"] += 1
        return max(0, st["n"] - limit)
    return extra_us


def _run_dst(arg):
    scen, legacy = arg
    from ha_env import run_ha
    from custom_components.pyscript import trigger
    from custom_components.pyscript.function import Function
    start_local = dt_of(scen["start"])

    async def body(env):
        loop = env.loop
        utc0 = start_local.replace(tzinfo=LA).astimezone(UTC)
        t_ref = loop.time()

        spin = _spin_guard(loop)

        def real_us():
            return int(round((loop.time() - t_ref) * 1000)) * 1000

        def wall():
            return (utc0 + dt.timedelta(microseconds=real_us() + spin())).astimezone(LA).replace(tzinfo=None)
        recs = []
        Function.register({"rec2": lambda fi, tt: len(recs) < 100000 and recs.append([fi, tt, us_of(wall()), real_us()])})
        old = trigger.dt_now
        trigger.dt_now = wall
        try:
            env.write("c06dst.py", _dst_script(scen))
            await env.reload()
            await W._goto(env, (loop.time() - loop.T0) + scen["hours"] * 3600)
        finally:
            trigger.dt_now = old
        return recs

    try:
        return run_ha({}, legacy, body, vnow_tick=False)
    except Exception as e:
        return "harness:" + type(e).__name__ + ":" + str(e)[:200]


def _dst_r0(scen):
    return (dt_of(scen["start"]).replace(tzinfo=LA).astimezone(UTC) - dt.datetime(1970, 1, 1, tzinfo=UTC)) // US


def run_dst_cases(cases):
    groups = {}
    for c in cases:
        groups.setdefault((json.dumps(c.payload["scen"], sort_keys=True), c.payload["legacy"]), []).append(c)
    for k, cs in groups.items():
        res = _run_dst((cs[0].payload["scen"], k[1]))
        r0 = _dst_r0(cs[0].payload["scen"])
        for c in cs:
            if isinstance(res, str):
                c.impl = res
                continue
            mine = [r for r in res if r[0] == c.payload["fi"]]
            c.impl = " ".join(f"{us_of(dt.datetime.fromisoformat(tt))}@{w}@{r0 + r}" for _, tt, w, r in mine)


def dst_line(c):
    p = c.payload
    scen, f = p["scen"], p["scen"]["funcs"][p["fi"]]
    cron_ids = {}
    spec = sx_tspec(f, cron_ids)
    start = dt_of(scen["start"])
    lists = []
    for expr, cid in cron_ids.items():
        ts, t = [], start - DAY
        stop = start + dt.timedelta(hours=scen["hours"]) + 2 * DAY
        while t is not None and t < stop:
            t = cron_next(expr, t)
            if t is not None:
                ts.append(us_of(t))
        lists.append([cid] + ts)
    r0 = _dst_r0(scen)
    p["_oracle"] = None
    return "C06 " + sx(["dst", "legacy" if p["legacy"] else "new", [spec], scen["start"], r0, 400, r0 + scen["hours"] * H_US,
                        ZREAL, ZNAIVE, lists])


def _dst_runs(text):
    return [tuple(int(x) for x in tok.split("@")) for tok in (text or "").split()]


def _gray(which, t):
    """the hours 01:00-04:00 of the DST night: local times that do not exist / exist twice, and the hour next to them into which
    the affected runs spill (after spring-forward the 03:30 run of an hourly cron carries the non-existent trigger_time 02:30).
    The documentation describes the cron behaviour there; the verdict does not judge it (the model tie still covers it)."""
    x = dt_of(t)
    return x.date() == DST_DAYS[which].date() and 1 <= x.hour < 4


def dst_verdict(c):
    p = c.payload
    if (c.impl or "").startswith("harness:"):
        return None
    scen, f = p["scen"], p["scen"]["funcs"][p["fi"]]
    which, sub = scen["which"], "legacy" if p["legacy"] else "new"
    runs = _dst_runs(c.impl)
    start = dt_of(scen["start"])
    safe_end = us_of(start + dt.timedelta(hours=scen["hours"] - 3))       # a run near the end may still be pending
    if f["kind"] in ("cron", "once"):
        for tt, w, r in runs:
            if _gray(which, tt) or _gray(which, w):
                continue
            if abs(w - tt) > 1000:
                return (f"dst:{sub}:{f['kind']}:{which}:{'late' if w > tt else 'early'} | trigger_time {dt_of(tt)} ran when the "
                        f"local wall clock read {dt_of(w)}")
        # every denoted instant once
        want, t = [], start
        while True:
            if f["kind"] == "cron":
                t = cron_next(f["expr"], t)
            else:
                tm = f["d"][2]
                cand = t.replace(hour=tm[1], minute=tm[2], second=tm[3] // 1000000, microsecond=0)
                t = cand if cand > t else cand + DAY
            if t is None or us_of(t) > safe_end:
                break
            if not _gray(which, us_of(t)):
                want.append(us_of(t))
        got = [tt for tt, w, r in runs if tt <= safe_end and not _gray(which, tt)]
        if got != want:
            return (f"dst:{sub}:{f['kind']}:{which}:instants | trigger_times {[str(dt_of(x)) for x in got][:6]} expected "
                    f"{[str(dt_of(x)) for x in want][:6]}")
        return None
    if f["s"][1] == "none":
        return None          # time-only period(): daily re-anchoring, tie only
    per = off_us(f["per"])
    for (t1, w1, r1), (t2, w2, r2) in zip(runs, runs[1:]):
        if abs((r2 - r1) - per) > 1000:
            return (f"dst:period:unequal-spacing | period instants {dt_of(t1)} and {dt_of(t2)} ran {(r2 - r1) / 3.6e9:g} h apart "
                    f"(interval {per / 3.6e9:g} h, {sub}, {which})")
        if t2 - t1 != per:
            return f"dst:{sub}:period:{which}:trigger_time-step | {dt_of(t1)} -> {dt_of(t2)}"
    return None


# ================================================================================================ lag stream
# A wall clock that runs slightly slower (or faster) than the clock asyncio sleeps on: the timer wakes up while dt_now() is
# still 2 us ... 1.6 ms short of the instant.  Oracle: every denoted instant runs exactly once, not before its time.
LAG_START = dt.datetime(2024, 6, 3, 12, 0, 0, 250000)


def gen_lag(rng, n_scen):
    cases = []
    for sc_i in range(n_scen):
        ppm = rng.choice([1, 3, 20, 40, 40, 75, 88, 160, -40, 0])     # (n + 3/4 s) x ppm never ends in half a microsecond: no wake-up decided by float rounding
        funcs = []
        for _ in range(rng.choice([3, 4])):
            r = rng.random()
            t0 = rng.randrange(1, 20)
            x = BASE + dt.timedelta(seconds=t0)
            tm = ["hms", x.hour, x.minute, x.second * 1000000]
            if r < 0.5:
                per = rng.choice([[1, "10", "sec"], [1, "5", "s"], [1, "12.5", "s"], [1, "20", ""]])
                funcs.append({"kind": "period", "s": ["at", ["full", 2024, 6, 3], tm, None], "per": per,
                              "e": ["at", ["full", 2024, 6, 3], ["hms", 12, 1, rng.choice([0, 10, 30]) * 1000000], None] if rng.random() < 0.6 else None})
            elif r < 0.7:
                funcs.append({"kind": "period", "s": ["at", "none", tm, None], "per": [1, "10", "s"], "e": ["at", "none", ["hms", 12, 1, 0], None]})
            elif r < 0.85:
                funcs.append({"kind": "once", "d": ["at", "none", ["hms", 12, rng.choice([0, 1]), rng.choice([20, 40, 55]) * 1000000], None]})
            else:
                funcs.append({"kind": "cron", "expr": "* * * * *"})
        scen = {"id": sc_i, "ppm": ppm, "secs": rng.choice([70, 95, 130]), "funcs": funcs}
        for legacy in (True, False):
            for fi in range(len(funcs)):
                cases.append(Case({"kind": "lag", "legacy": legacy, "scen": scen, "fi": fi}, None,
                                  tags=("lag", "legacy" if legacy else "new", funcs[fi]["kind"])))
    return cases


def lag_corpus():
    """the seeder's witness: a 10 s period on a wall clock 40 ppm slower than the sleep clock (400 us short at each wake-up)"""
    f = {"kind": "period", "s": ["at", ["full", 2024, 6, 3], ["hms", 12, 0, 10000000], None], "per": [1, "10", "sec"],
         "e": ["at", ["full", 2024, 6, 3], ["hms", 12, 0, 40000000], None]}
    scen = {"id": "corpus-lag", "ppm": 40, "secs": 60, "funcs": [f, {"kind": "once", "d": ["at", "none", ["hms", 12, 0, 25000000], None]}]}
    # the witness of the open finding C06-F8: 1 ppm over the first 0.75 s sleep = a wake-up exactly 1 us early
    g = {"kind": "period", "s": ["at", ["full", 2024, 6, 3], ["hms", 12, 0, 1000000], None], "per": [1, "5", "s"],
         "e": ["at", ["full", 2024, 6, 3], ["hms", 12, 1, 0], None]}
    scen1 = {"id": "corpus-lag-1us", "ppm": 1, "secs": 70, "funcs": [g]}
    return [Case({"kind": "lag", "legacy": legacy, "scen": sc, "fi": fi}, None, tags=("lag", "corpus", "legacy" if legacy else "new"))
            for legacy in (True, False) for sc in (scen, scen1) for fi in range(len(sc["funcs"]))]


def _run_lag(arg):
    scen, legacy = arg
    from ha_env import run_ha
    from custom_components.pyscript import trigger
    from custom_components.pyscript.function import Function
    rate = 1.0 - scen["ppm"] * 1e-6

    async def body(env):
        loop = env.loop
        t_ref = loop.time()

        spin = _spin_guard(loop)

        def wall():
            return LAG_START + dt.timedelta(seconds=(loop.time() - t_ref) * rate) + dt.timedelta(microseconds=spin())
        recs = []
        Function.register({"rec2": lambda fi, tt: len(recs) < 100000 and recs.append([fi, tt, us_of(wall())])})
        old = trigger.dt_now
        trigger.dt_now = wall
        try:
            env.write("c06lag.py", _dst_script(scen))
            await env.reload()
            await W._goto(env, (loop.time() - loop.T0) + scen["secs"])
        finally:
            trigger.dt_now = old
        return recs

    try:
        return run_ha({}, legacy, body, vnow_tick=False)
    except Exception as e:
        return "harness:" + type(e).__name__ + ":" + str(e)[:200]


def run_lag_cases(cases):
    groups = {}
    for c in cases:
        groups.setdefault((json.dumps(c.payload["scen"], sort_keys=True), c.payload["legacy"]), []).append(c)
    for k, cs in groups.items():
        res = _run_lag((cs[0].payload["scen"], k[1]))
        for c in cs:
            if isinstance(res, str):
                c.impl = res
                continue
            mine = [(us_of(dt.datetime.fromisoformat(tt)), w) for fi, tt, w in res if fi == c.payload["fi"]]
            c.payload["_raw"] = mine
            c.impl = _collapse(" ".join(f"{t}@{(w + 500) // 1000 * 1000}" for t, w in mine))


def _collapse(text):
    """immediate repetitions of one `instant@wall(ms)` entry count once for the model tie: whether a wake-up lands exactly 1 us
    before its instant (and the new subsystem then dispatches it twice, finding C06-F8) is decided by the float rounding of
    asyncio's sleep arithmetic, which the integer model does not reproduce.  Repetitions are judged by lag_verdict on the raw runs."""
    out = []
    for tok in text.split():
        if not out or out[-1] != tok:
            out.append(tok)
    return " ".join(out)


def lag_line(c):
    p = c.payload
    scen, f = p["scen"], p["scen"]["funcs"][p["fi"]]
    cron_ids = {}
    spec = sx_tspec(f, cron_ids)
    lists = []
    for expr, cid in cron_ids.items():
        ts, t = [], LAG_START - dt.timedelta(minutes=5)
        while t is not None and t < LAG_START + dt.timedelta(seconds=scen["secs"] + 300):
            t = cron_next(expr, t)
            if t is not None:
                ts.append(us_of(t))
        lists.append([cid] + ts)
    r0 = us_of(LAG_START)
    return "C06 " + sx(["lag", "legacy" if p["legacy"] else "new", [spec], r0, r0, 400, r0 + int(scen["secs"] * 1000000), scen["ppm"], lists])


def lag_verdict(c):
    p = c.payload
    if (c.impl or "").startswith("harness:"):
        return None
    scen, f = p["scen"], p["scen"]["funcs"][p["fi"]]
    sub = "legacy" if p["legacy"] else "new"
    runs = p.get("_raw", [])
    for t, w in runs:
        if w < t - 1:           # (one microsecond is what `if timeout <= 1e-6: break` deliberately tolerates)
            return f"lag:{sub}:early | trigger_time {dt_of(t)} ran when the wall clock read {dt_of(w)} ({t - w} us before its time)"
        if w > t + 5000:
            return f"lag:{sub}:late | trigger_time {dt_of(t)} ran when the wall clock read {dt_of(w)}"
    seen = {}
    for t, w in runs:
        if t in seen:
            return (f"lag:{sub}:regressed:instant-twice-after-1us-early-wakeup | trigger_time {dt_of(t)} was dispatched twice: first when the wall "
                    f"clock read {dt_of(seen[t])}, again at {dt_of(w)} (wall clock {scen['ppm']} ppm slower than the sleep clock)")
        seen[t] = w
    # every denoted instant of the window, in order (the last 3 s are left to whatever is still pending)
    tabs = Tables()
    want, now = [], LAG_START
    end = LAG_START + dt.timedelta(seconds=scen["secs"] * (1.0 - scen["ppm"] * 1e-6) - 3)
    for _ in range(400):
        t, _ = oracle_next([f], now, LAG_START, tabs)
        if t in ("n/a", None) or t > end:
            break
        want.append(us_of(t))
        now = t
    got = [t for t, w in runs if t <= us_of(end)]
    if got != want:
        return (f"lag:{sub}:instants | trigger_times {[str(dt_of(x))[11:] for x in got][:8]} expected "
                f"{[str(dt_of(x))[11:] for x in want][:8]}")
    return None


# ------------------------------------------------------------------------------------------------ driver lines
def _uses_sun(s):
    ds = [s.get("d"), s.get("s"), s.get("e")]
    return any(d is not None and d[0] == "at" and d[2] in ("sunrise", "sunset") for d in ds)


def tables_for(specs, now, startup, cron_ids):
    tabs = Tables()
    for s in specs:
        if s["kind"] == "cron":
            tabs.cron_chain(cron_ids.setdefault(s["expr"], len(cron_ids)), s["expr"], now)
        elif _uses_sun(s):
            # every day the model may ask for: today +- the day offsets of once()/period(), explicit dates
            days = {now.date() + i * DAY for i in range(-3, 10)}
            for d in (s.get("d"), s.get("s"), s.get("e")):
                if d is not None and d[0] == "at" and not isinstance(d[1], str) and d[1][0] in ("full", "md"):
                    try:
                        days.add(oracle_dt(["at", d[1], "midnight", None], now, startup)[0].date())
                    except ValueError:
                        pass
            for day in days:
                tabs.sun.get(True, day)
                tabs.sun.get(False, day)
    return tabs


def tab_sx(tabs):
    return [tabs.sun.table(), [[k[0], k[1], v] for k, v in sorted(tabs.cron.items())], [[k, v] for k, v in sorted(tabs.off.items())]]


def make_line(c):
    p = c.payload
    if p["kind"] == "dst":
        return dst_line(c)
    if p["kind"] == "lag":
        return lag_line(c)
    if p["kind"] == "offset":
        p["_oracle"] = str(off_us(p["off"]))
        return "C06 " + sx(["off", off_ast(p["off"])])
    if p["kind"] == "parse":
        sun = Sun()
        try:
            t, fixed = oracle_dt(p["d"], dt_of(p["now"]), dt_of(p["startup"]), p["day_offset"], sun)
            p["_oracle"] = f"ok {us_of(t)} {1 if fixed else 0}"
        except ValueError:
            p["_oracle"] = "raise"
        return "C07 " + sx(["parse", W.sx_dt(p["d"]), p["day_offset"], p["now"], p["startup"], sun.table()])
    cron_ids = {}
    if p["kind"] == "next":
        now, st = dt_of(p["now"]), dt_of(p["startup"])
        specs = [sx_tspec(s, cron_ids) for s in model_specs(p["specs"])]
        tabs = tables_for(model_specs(p["specs"]), now, st, cron_ids)
        try:
            t, singles = oracle_next(p["specs"], now, st, tabs)
            p["_oracle"] = t if t == "n/a" else _show_dt(t)
            p["_oracle_single"] = [r if r == "n/a" else _show_dt(r) for r in singles]
            if t == now == st and not any(d_ is not None and d_[0] == "now" for x in p["specs"] for d_ in (x.get("d"), x.get("s"), x.get("e"))):
                # a RECURRING entry whose instant coincides with the start-up time: documented only for once(now) / "startup";
                # the instant itself and the next one are both accepted
                t2, _ = oracle_next(p["specs"], now, st - US, tabs)
                p["_oracle_alt"] = t2 if t2 == "n/a" else _show_dt(t2)
        except (ValueError, OverflowError):
            p["_oracle"] = "raise"
            p["_oracle_single"] = []
        return "C06 " + sx(["next", specs, p["now"], p["startup"]] + tab_sx(tabs))
    scen, f = p["scen"], p["scen"]["funcs"][p["fi"]]
    specs = [sx_tspec(s, cron_ids) for s in f["specs"]]
    tabs = Tables()
    exp = chain_oracle(f, scen["horizon"], tabs)
    for s in f["specs"]:
        if s["kind"] == "cron":
            t = BASE
            for _ in range(6):
                tabs.cron_chain(cron_ids[s["expr"]], s["expr"], t, 1)
                t = cron_next(s["expr"], t)
                if t is None:
                    break
            for e in exp:
                tabs.cron_chain(cron_ids[s["expr"]], s["expr"], e, 2)
                tabs.cron_chain(cron_ids[s["expr"]], s["expr"], e + US, 2)
    body = [str(us_of(t)) for t in exp]
    argv = argv_of(f)
    # the property: one run at definition iff there is a "startup" entry or no argument at all, one at removal iff there is a
    # "shutdown" entry, and in between one run per denoted instant
    want_su = argv is None or "startup" in argv
    want_sd = argv is not None and "shutdown" in argv
    p["_oracle"] = " ".join((["startup"] if want_su else []) + body + (["shutdown"] if want_sd else []))
    p["_n"] = len(exp)
    hor = us_of(BASE) + int(scen["horizon"] * 1000000)
    targs = "bare" if argv is None else [a if isinstance(a, str) else specs[a] for a in argv]
    return "C06 " + sx(["chain", "legacy" if p["legacy"] else "new", targs, us_of(BASE), len(exp) + 3, hor] + tab_sx(tabs))


# ------------------------------------------------------------------------------------------------ verdict
def split(outline):
    lag = bool(outline.split()) and outline.split()[0].count("@") == 1          # the lag stream's `instant@wall` entries
    return (_collapse(outline) if lag else outline), None


def verdict(c):
    p = c.payload
    want = p.get("_oracle")
    if p["kind"] == "dst":
        return dst_verdict(c)
    if p["kind"] == "lag":
        return lag_verdict(c)
    if p["kind"] == "ha":
        if " late=" in (c.impl or ""):
            return "run happened away from its trigger_time: " + c.impl.split(" late=")[1][:80]
        if c.impl != want:
            return f"{'legacy' if p['legacy'] else 'new'}: runs [{c.impl[:200]}] expected [{want[:200]}]"
        f = p["scen"]["funcs"][p["fi"]]
        if f.get("hold") and len(p.get("_state_runs", [])) != f["want_state"]:
            return (f"{'legacy' if p['legacy'] else 'new'}: state-hold {len(p.get('_state_runs', []))} state runs at {p.get('_state_runs')} expected "
                    f"{f['want_state']} (abandoned holds run nothing; a completed hold runs once, also after the last time instant)")
        return None
    if p["kind"] in ("offset", "parse"):
        if c.impl != want:
            return f"{p['kind']} {p['str']!r}: got {c.impl}, denotes {want}"
        return None
    # next
    now = p["now"]
    m = re.match(r"next=(\S+) adj=(\S+)$", c.impl or "")
    if not m:
        return None if want in ("raise", "n/a") else f"raised {c.impl} where the specification denotes {want}"
    nxt = None if m.group(1) == "none" else int(m.group(1))
    if nxt is not None and not (nxt > now or (nxt == now == p["startup"])):
        return f"next trigger time {nxt} is not after now {now}"
    if want in ("n/a", "raise"):
        return None
    if m.group(1) != want and m.group(1) != p.get("_oracle_alt"):
        return f"next={m.group(1)} but the least denoted instant after now is {want}"
    meta = p.get("_meta", {})
    if meta.get("before") is not None and meta["before"] != c.impl and not _adj_only_diff(meta["before"], c.impl):
        return f"next=asked 1 us before the announced instant the answer changes: {meta['before']} vs {c.impl}"
    if meta.get("at_ok") is False:
        return f"next=asked at the announced instant the same or an earlier instant is announced again: {meta['at']}"
    return None


def _adj_only_diff(a, b):
    return a.split(" adj=")[0] == b.split(" adj=")[0]


def classify(c, reason):
    p = c.payload
    if p["kind"] == "lag":
        return reason.split(" | ")[0]
    if p["kind"] == "dst":
        sig = reason.split(" | ")[0]
        # fixed by 0421163 (new subsystem re-checked the wall clock against time_next_adj): a regression, never a known finding
        return "dst:regressed:new:cron:fall:late" if sig == "dst:new:cron:fall:late" else sig
    if p["kind"] == "ha" and any(x["kind"] == "cron" and x["expr"] in DEAD_CRONS for x in p["scen"]["funcs"][p["fi"]]["specs"]):
        # every announced run is missing and nothing else happened: the trigger died on the exception.  Fixed by b7a2f54 (the
        # entry is skipped): a regression, never a known finding
        return "cron:regressed:impossible-day-raises" if c.impl == "" else "cron:impossible-day:other"
    if p["kind"] != "next":
        return p["kind"] + ":" + re.sub(r"\d+", "N", reason)[:50]
    if c.impl == "raise" and reason.startswith("raised"):
        now_ = dt_of(p["now"])
        # C06-F9 / C06-F10 are fixed by b7a2f54 (such entries are skipped): these signatures match no known finding
        if any(x["kind"] == "cron" and cron_valid(x["expr"]) and cron_next(x["expr"], now_) is None for x in p["specs"]):
            return "cron:regressed:impossible-day-raises"
        if any(_no_such_day(d_, now_) for x in p["specs"] if x["kind"] == "period" for d_ in (x["s"], x["e"])):
            return "period:regressed:month-day-not-this-year-raises"   # fixed finding C06-F11 (period() start/end parsed inside try)
        if any(x["kind"] == "once" and _no_such_day(x["d"], now_) for x in p["specs"]):
            return "once:regressed:feb-29-raises-in-common-year"
    if not reason.startswith("next=") and "is not after now" not in reason:
        return "next:" + re.sub(r"-?\d+", "N", reason)[:60]
    # which specification deviates?
    specs = p["specs"]
    singles_impl = p.get("_single") or [c.impl]
    singles_or = p.get("_oracle_single") or [p["_oracle"]]
    now, st = dt_of(p["now"]), dt_of(p["startup"])
    requery = "asked" in reason or "is not after now" in reason
    times = [now]
    m = re.match(r"next=(\d+)", c.impl or "")
    if requery and m:
        t = dt_of(int(m.group(1)))
        times += [t - US, t]
    for s, im, orc in zip(specs, singles_impl, singles_or):
        got = im.split(" adj=")[0].replace("next=", "")
        if not requery and (got == orc or orc in ("n/a", "raise")):
            continue
        if s["kind"] == "period":
            try:
                per = off_us(s["per"])
                pf = per_float(s["per"])
                for tq in times:
                    for doff in (0, -1, 1):         # the day_dither starts
                        start = oracle_dt(s["s"], tq, st, doff)[0]
                        el = us_of(tq) - us_of(start)
                        if per > 0 and el >= 0 and math.floor((el / 1000000) / pf) != el // per:
                            return "period:regressed:float-floor"      # fixed by c80f3bb: matches no known finding
            except (ValueError, OverflowError):
                pass
            if requery:
                continue
            return "period:other"
        if s["kind"] == "once" and s["d"][0] == "at" and s["d"][1] == "none" and s["d"][2] in ("sunrise", "sunset") \
                and abs(off_us(s["d"][3])) >= 12 * 3600 * 1000000 and (requery or got != orc):
            # sunrise / sunset move from day to day, `day_offset = (now - this_t).days + 1` assumes exact 24 h steps
            return "once:sun-multi-day-offset"
        if requery and s["kind"] == "once" and s["d"][0] == "at":
            # C06-F3 reached at the re-query: the FIRST parse (today's date, time and offset) equals the start-up time - with an
            # offset that crosses midnight (once(midnight - 12 hour) started at noon) that happens on the day AFTER the start-up,
            # the day-offset re-parse is suppressed and that day's instant is dropped
            try:
                if any(oracle_dt(s["d"], tq, st)[0] == st and tq != st for tq in times[1:]):
                    return "once:regressed:startup-coincidence"
            except ValueError:
                pass
        if requery:
            # the answer moves when asked again: a weekday / month-day date whose offset carries the instant out of its day
            if s["kind"] == "once" and s["d"][0] == "at" and not isinstance(s["d"][1], str) and s["d"][1][0] in ("dow", "md") \
                    and _out_of_day(s["d"], now, st):
                return "once:weekday-offset-skips-an-instant" if s["d"][1][0] == "dow" else "once:month-day-offset-skips-an-instant"
            continue
        if s["kind"] == "once":
            d = s["d"]
            if d[0] == "at":
                try:
                    today = oracle_dt(d, now, st)[0]
                except ValueError:
                    if got == "none" and not isinstance(d[1], str) and d[1][0] == "md":
                        # 2/29 asked in a common year: since b7a2f54 the entry is skipped - only this year's date is looked at,
                        # next year's 29 February is never announced from here (the cause of C06-F2b)
                        return "once:month-day-after-this-years"
                    return "once:raise"
                form = None if isinstance(d[1], str) else d[1][0]
                if got == "none":
                    if today == st and now != st and form is None:
                        # only a date-less (daily) specification has a day-offset re-parse that C06-F3 could suppress; for a
                        # weekday / month-day date the day offset makes no difference, so `none` after this week's / this year's
                        # instant is C06-F2a / F2b whatever the start-up time was (mis-attribution found by `vp check`, seed 1:
                        # once(01-01 midnight -0.000001s) started exactly at that instant)
                        return "once:regressed:startup-coincidence"
                    if form == "dow" and today <= now:
                        return "once:weekday-same-day-after"
                    if form == "md" and today <= now:
                        return "once:month-day-after-this-years"
                elif got == str(us_of(today)) and orc != "none" and int(orc) < us_of(today):
                    # the only candidate the code looks at (first such weekday on/after today, this year's date) lies beyond
                    # an instant denoted through the offset
                    if form == "dow":
                        return "once:weekday-offset-skips-an-instant"
                    if form == "md":
                        return "once:month-day-offset-skips-an-instant"
            return "once:other"
        return s["kind"] + ":other"
    return "next:requery" if requery else "next:list-combination"


def _out_of_day(d, ref, st):
    """time of day plus offset carry the instant out of the day the date names (sunrise / sunset: looked up)"""
    try:
        inst = oracle_dt(d, ref, st)[0]
        day = oracle_dt(["at", d[1], "midnight", None], ref, st)[0]
    except ValueError:
        return False
    return not day <= inst < day + DAY


def _no_such_day(d, now):
    """a month/day date that does not exist in the year of `now` (2/29 in a common year)"""
    if d is None or d[0] != "at" or isinstance(d[1], str) or d[1][0] != "md":
        return False
    try:
        dt.date(now.year, d[1][1], d[1][2])
        return False
    except ValueError:
        return True


def _leap(y):
    return y % 4 == 0 and (y % 100 != 0 or y % 400 == 0)


def _tod_us(tm):
    if tm == "noon":
        return 12 * 3600 * 1000000
    if isinstance(tm, str):
        return 0          # midnight / none (sunrise, sunset: somewhere inside the day)
    return tm[3] + 60000000 * (tm[2] + 60 * tm[1])


def replay_cases(obj):
    return [Case(obj["case"], None)]


def extra_coverage(cases):
    cov = {"streams": {}, "spec_kinds": {}, "once_date_forms": {}, "time_forms": {}, "period_shapes": {}, "answers": {"none": 0, "some": 0, "raise": 0},
           "strict_class_cases": 0, "boundary_nows": 0, "requeried": 0, "dst_day_cases": 0, "leap_day_cases": 0, "ha_runs_checked": 0,
           "startup_shutdown_functions": 0, "dst_runs_checked": {}, "dst_functions": {},
           "boundary_categories": {}, "boundary_ha_functions": {}, "spellings": {"upper": 0, "capitalised": 0, "blank_runs": 0},
           "edge_times_24_00_like": 0, "zero_offsets": 0, "boundary_evaluation_points": {}, "asked_1us_before_the_answer": 0,
           "asked_at_startup_time": 0, "lists_with_equal_answers": 0}

    def scan_dt(d):
        if d is None:
            return
        if d[0] == "at":
            if not isinstance(d[2], str) and (d[2][1] >= 24 or d[2][2] >= 60 or d[2][3] >= 60000000):
                cov["edge_times_24_00_like"] += 1
            off = d[3]
        else:
            off = d[1]
        if off is not None and float(off[1]) == 0:
            cov["zero_offsets"] += 1

    def bump(d, k):
        d[k] = d.get(k, 0) + 1
    for c in cases:
        p = c.payload
        bump(cov["streams"], p["kind"])
        if p["kind"] == "lag":
            cov.setdefault("lag_runs_checked", {})
            key = f"{p['scen']['ppm']}ppm/" + ("legacy" if p["legacy"] else "new")
            cov["lag_runs_checked"][key] = cov["lag_runs_checked"].get(key, 0) + len((c.impl or "").split())
            if p["scen"]["ppm"] > 0:
                cov["lag_runs_after_an_early_wakeup"] = cov.get("lag_runs_after_an_early_wakeup", 0) + len(p.get("_raw", []))
            continue
        if p["kind"] == "dst":
            key = p["scen"]["which"] + "/" + ("legacy" if p["legacy"] else "new") + "/" + p["scen"]["funcs"][p["fi"]]["kind"]
            bump(cov["dst_functions"], key)
            cov["dst_runs_checked"][key] = cov["dst_runs_checked"].get(key, 0) + len((c.impl or "").split())
            continue
        if p["kind"] == "ha":
            cov["ha_runs_checked"] += len((c.impl or "").split())
            f = p["scen"]["funcs"][p["fi"]]
            if "boundary" in c.tags:
                bump(cov["boundary_ha_functions"], "legacy" if p["legacy"] else "new")
            if f.get("hold"):
                cov.setdefault("state_hold_functions", {"abandoned_holds": 0, "completed_holds_run": 0, "functions": 0})
                cov["state_hold_functions"]["functions"] += 1
                cov["state_hold_functions"]["abandoned_holds"] += sum(1 for _, off in f["pulses"] if off is not None)
                cov["state_hold_functions"]["completed_holds_run"] += len(p.get("_state_runs", []))
            cov["startup_shutdown_functions"] += int(f["startup"] or f["shutdown"])
            if not f["specs"]:
                key = "bare" if argv_of(f) is None else ",".join(argv_of(f))
                cov.setdefault("marker_only_functions", {})
                cov["marker_only_functions"][key] = cov["marker_only_functions"].get(key, 0) + 1
            continue
        if p["kind"] != "next":
            continue
        now = dt_of(p["now"])
        if "sun-window" in c.tags:
            cov["sun_window_period_cases"] = cov.get("sun_window_period_cases", 0) + 1
        if len(c.tags) > 2 and c.tags[1] == "boundary":
            bump(cov["boundary_categories"], c.tags[2])
            bump(cov["boundary_evaluation_points"], p.get("rel", "-"))
        for st_ in p["strs"]:
            body = st_[st_.index("(") + 1:]
            if not st_.startswith("cron") and body != body.lower():
                cov["spellings"]["upper" if body == body.upper() else "capitalised"] += 1
            if "   " in body:
                cov["spellings"]["blank_runs"] += 1
        for x in p["specs"]:
            for d_ in (x.get("d"), x.get("s"), x.get("e")):
                scan_dt(d_)
        if p.get("_oracle") not in ("n/a", "raise", None, "none"):
            cov["asked_1us_before_the_answer"] += int(int(p["_oracle"]) - p["now"] == 1)
        osn = [o for o in p.get("_oracle_single", []) if o not in ("n/a", "none")]
        if len(osn) > 1 and len(set(osn)) < len(osn):
            cov["lists_with_equal_answers"] += 1
        cov["asked_at_startup_time"] += int(p["now"] == p["startup"])
        if (now.month, now.day) in ((3, 10), (11, 3)) and now.year == 2024:
            cov["dst_day_cases"] += 1
        if (now.month, now.day) == (2, 29):
            cov["leap_day_cases"] += 1
        bump(cov["answers"], "raise" if (c.impl or "").startswith("raise") else "none" if "next=none" in (c.impl or "") else "some")
        if p.get("_oracle") not in ("n/a", "raise", None):
            cov["strict_class_cases"] += 1
            if p["_oracle"] != "none" and abs(int(p["_oracle"]) - p["now"]) <= 1:
                cov["boundary_nows"] += 1
        if p.get("_meta", {}).get("before") is not None:
            cov["requeried"] += 1
        for s in p["specs"]:
            bump(cov["spec_kinds"], s["kind"])
            if s["kind"] == "once":
                d = s["d"]
                bump(cov["once_date_forms"], "now" if d[0] == "now" else d[1] if isinstance(d[1], str) else d[1][0])
                if d[0] == "at":
                    bump(cov["time_forms"], d[2] if isinstance(d[2], str) else "hms")
            elif s["kind"] == "period":
                def shape(d):
                    return "-" if d is None else "now" if d[0] == "now" else ("time" if d[1] == "none" else d[1] if isinstance(d[1], str) else d[1][0])
                bump(cov["period_shapes"], shape(s["s"]) + "/" + shape(s["e"]))
    return cov
