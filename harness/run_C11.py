"""C11 correspondence: isolated global contexts / shared module singletons.

Three columns per case:
  impl   – the real pyscript interpreter (GlobalContext / AstEval / module_import / EvalFunc.call from /repo) running
           generated multi-file programs: module and package files in a real temp pyscript directory, main contexts
           (script files, an app, i.e. what load_scripts or a Jupyter session would create) executed statement by
           statement so that the evaluator's context pointers can be read after every top-level statement;
           a second family runs whole files inside a real Home Assistant instance (harness/ha_env.py) and calls the
           functions through @service / @event_trigger / task.create (both decorator subsystems);
  model  – the Lean model (verifdrv), same program as an S-expression;
  oracle – CPython importing the very same files as ordinary modules/packages from a temp sys.path, main contexts as
           module objects executed statement by statement (`pyscript.set_global_ctx` at top level = "continue in that
           module's namespace", `task.create(f, *a)` = call and swallow).
verdict = impl vs oracle (all global tables afterwards, outcome of every statement) + "pointers after a statement ==
pointers before it" checked directly on the AstEval; tie = impl == model.
"""
import asyncio
import builtins
import importlib
import os
import re
import shutil
import signal
import sys
import tempfile
import types

import common
from common import Case, sx

PROP = "C11"
RULE = ("2-4 source files per case drawn from skeletons {scripts s1,s2; modules m1,m2,bad; package modules/pkg "
        "(__init__, sub, sib); app apps/app1 (__init__, helper, other)} with overlapping global names x,y,z,f,g,h; bodies: "
        "assignments, `global` writes, cross-file calls (correct and wrong arity, raising at depth 1-3, wrapped or not in "
        "try/except), callbacks passed across files, inner-function factories, lazy imports inside functions, module "
        "attribute writes, every import form (import m [as a], from m import f [as g], from m import *, from . import s, "
        "from .s import f, from .. import s), failing module loads, calls through task.create and (HA family) @service, "
        "@event_trigger and @state_trigger under both decorator subsystems, top-level pyscript.set_global_ctx; plus "
        "fixed scenarios for concurrent first imports and import cycles.  A case is non-trivial when at least one "
        "cross-context call or import executes; distinct by payload.")
ASSUMPTIONS = [
    "main contexts are driven statement by statement (as a Jupyter session does); whole-file loading is exercised by the "
    "HA family and by every imported module",
    "AstEval.set_global_ctx compares `sym_table == global_sym_table` by value; the model takes it as identity "
    "(a function's locals never compare equal to the whole global table)",
    "closures / nonlocal are not part of the C11 model (C03); generated inner functions have no free variables",
    "asyncio tasks created by task.create are awaited before the next statement (sequential histories); the only "
    "modelled interleaving is N importers suspended between lookup and load (finding C11-F2)",
]
TRUSTED = ["harness/run_C11.py (generator, renderer to Python source, CPython oracle, canonicaliser)",
           "modelled not verified: CPython's import system as the oracle; os.path.isfile / file reads in module_import"]

# --------------------------------------------------------------------------------------------- program syntax
# atoms: ["lit", n] ["var", x] ["attr", x, a]
# stmts: ["assign", x, A] ["add", x, A, A] ["setattr", m, a, A] ["call", x, A, [A..]] ["spawn", own, A, [A..]]
#        ["def", x, fid] ["ret", A] ["raise", k] ["try", [S..], [S..]] ["import", [m..], as|None]
#        ["from", [m..], level, [[n, as|None]..]] ["star", [m..], level] ["fromdot", level, n, as|None] ["setctx", [n..]]
# funcs: [[name, [params], [globals], [body]]...]   files: [[[path..], [body]]...]  (path below pyscript/, no .py)
# ctxs:  [[[name..], [rel..]|None]...]              ops: [["run", ctx, S] | ["race", ctx, [m..], k]]


def r_atom(a):
    if a[0] == "lit":
        return str(a[1])
    if a[0] == "var":
        return a[1]
    return f"{a[1]}.{a[2]}"


def r_block(funcs, body, ind):
    out = []
    for s in body:
        out += r_stmt(funcs, s, ind)
    return out or [" " * ind + "pass"]


def r_stmt(funcs, s, ind=0):
    p = " " * ind
    k = s[0]
    if k == "assign":
        return [f"{p}{s[1]} = {r_atom(s[2])}"]
    if k == "add":
        return [f"{p}{s[1]} = {r_atom(s[2])} + {r_atom(s[3])}"]
    if k == "setattr":
        return [f"{p}{s[1]}.{s[2]} = {r_atom(s[3])}"]
    if k == "call":
        return [f"{p}{s[1]} = {r_atom(s[2])}({', '.join(r_atom(a) for a in s[3])})"]
    if k == "spawn":
        return [f"{p}task.create({', '.join([r_atom(s[2])] + [r_atom(a) for a in s[3]])})"]
    if k == "def":
        name, params, gl, body = funcs[s[2]]
        assert name == s[1]
        lines = [f"{p}def {name}({', '.join(params)}):"]
        if gl:
            lines.append(f"{p}    global {', '.join(gl)}")
        return lines + r_block(funcs, body, ind + 4)
    if k == "ret":
        return [f"{p}return {r_atom(s[1])}"]
    if k == "raise":
        return [f"{p}raise ValueError({s[1]})"]
    if k == "try":
        return [f"{p}try:"] + r_block(funcs, s[1], ind + 4) + [f"{p}except Exception:"] + r_block(funcs, s[2], ind + 4)
    if k == "import":
        return [f"{p}import {'.'.join(s[1])}" + (f" as {s[2]}" if s[2] else "")]
    if k == "from":
        names = ", ".join(n + (f" as {a}" if a else "") for n, a in s[3])
        return [f"{p}from {'.' * s[2]}{'.'.join(s[1])} import {names}"]
    if k == "star":
        return [f"{p}from {'.' * s[2]}{'.'.join(s[1])} import *"]
    if k == "fromdot":
        return [f"{p}from {'.' * s[1]} import {s[2]}" + (f" as {s[3]}" if s[3] else "")]
    if k == "setctx":
        return [f"{p}pyscript.set_global_ctx(\"{'.'.join(s[1])}\")"]
    if k == "all":
        return [f"{p}__all__ = [{', '.join(repr(n) for n in s[1])}]"]
    if k == "getctx":
        return [f"{p}{s[1]} = pyscript.get_global_ctx()"]
    if k == "listctx":
        return [f"{p}{s[1]} = pyscript.list_global_ctx()"]
    if k == "sleep":
        # a suspension point inside a function body (1 unit = 10 ms); the sequential model sees a local assignment
        return [f"{p}task.sleep({r_atom(s[1])} / 100)"]
    raise ValueError(k)


def render(funcs, body):
    return "\n".join(r_block(funcs, body, 0)) + "\n"


def to_line(p):
    def st(s):
        k = s[0]
        if k == "try":
            return ["try", [st(x) for x in s[1]], [st(x) for x in s[2]]]
        if k == "import":
            return ["import", s[1], s[2] or "none"]
        if k == "from":
            return ["from", s[1], s[2], [[n, a or "none"] for n, a in s[3]]]
        if k == "fromdot":
            return ["fromdot", s[1], s[2], s[3] or "none"]
        if k == "spawn":
            return ["spawn", bool(s[1]), s[2], s[3]]
        if k == "sleep":
            return ["assign", "_sl", s[1]]
        if k == "all":
            return ["setall", s[1]]                      # __all__ = [...]: interpreted by the model's star import
        if k in ("getctx", "listctx"):
            return ["assign", s[1], ["lit", 0]]          # probe names are dunders: outside the compared tables
        return s
    funcs = [[n, ps, gl, [st(x) for x in b]] for n, ps, gl, b in p["funcs"]]
    files = [[path, [st(x) for x in b]] for path, b in p["files"]]
    ctxs = [[n, r if r else "none"] for n, r in p["ctxs"]]
    ops = [["run", o[1], st(o[2])] if o[0] == "run" else o for o in p["ops"]]
    return "C11 " + sx([["funcs"] + funcs, ["files"] + files, ["ctxs"] + ctxs, ["ops"] + ops])


def write_tree(root, p):
    """real files for everything importable (module/package/app files)"""
    for path, body in p["files"]:
        fn = os.path.join(root, "pyscript", *path) + ".py"
        os.makedirs(os.path.dirname(fn), exist_ok=True)
        with open(fn, "w") as f:
            f.write(render(p["funcs"], body))


EXC_ORDER = [ModuleNotFoundError, ImportError, NameError, TypeError, AttributeError, ValueError, RecursionError]


def exc_name(e):
    for c in EXC_ORDER:
        if isinstance(e, c):
            return "diverges" if c is RecursionError else c.__name__
    return type(e).__name__


def has_stmt(p, kind):
    def inb(b):
        return any(s[0] == kind or (s[0] == "try" and (inb(s[1]) or inb(s[2]))) for s in b)
    return any(inb(f[3]) for f in p["funcs"]) or any(inb(b) for _, b in p["files"]) or \
        any(o[0] == "run" and inb([o[2]]) for o in p["ops"])


# --------------------------------------------------------------------------------------------- pyscript side
class _WallTimeout(BaseException):
    """raised by the SIGPROF safety net (process CPU time, generous); a BaseException, so that user
    `except Exception` lets it pass.  It never decides a verdict by itself: see _guard / run_impl."""


class _StepBudget(BaseException):
    """the statement evaluated more AST nodes than the step budget allows: the load-independent divergence test"""


# why a run was cut: None | "steps" (deterministic: AST nodes evaluated) | "cpu" / "wall" (safety nets, load dependent)
_guard = {"kind": None}
_steps = {"n": 0, "limit": None}
STEP_BUDGET = 200_000        # AST nodes per top-level statement; generated statements need a few hundred at most
CPU_NET = 120.0              # seconds of process CPU time per statement (safety net only)
WALL_NET = 120.0             # seconds of wall-clock per statement (safety net only: something awaits for ever)


def _on_alarm(signum, frame):
    _guard["kind"] = _guard["kind"] or "cpu"
    raise _WallTimeout()


_steps_installed = False


def install_step_counter():
    """count AstEval.aeval calls (every AST node the interpreter evaluates goes through it)"""
    global _steps_installed
    if _steps_installed:
        return
    import functools
    from custom_components.pyscript.eval import AstEval
    orig = AstEval.aeval

    @functools.wraps(orig)
    async def aeval(self, arg, undefined_check=True):
        _steps["n"] += 1
        if _steps["limit"] is not None and _steps["n"] > _steps["limit"]:
            _guard["kind"] = _guard["kind"] or "steps"
            raise _StepBudget()
        return await orig(self, arg, undefined_check)

    AstEval.aeval = aeval
    _steps_installed = True


_ps_ready = False
_all_ctx = []
_call_viol = []          # pointer-restore violations seen by the probe around EvalFunc.call
_probe_installed = False


def install_call_probe():
    """wrap EvalFunc.call: the evaluator's four pointers (object identities, stack depth) after EVERY call - normal
    return, exception, overlapping activations in other tasks - must be the ones before it (generated programs use
    set_global_ctx at top level only, never inside a call)"""
    global _probe_installed
    if _probe_installed:
        return
    import functools
    from custom_components.pyscript.eval import EvalFunc
    orig = EvalFunc.call

    def snap(a):
        return (id(a.global_sym_table), id(a.sym_table), id(a.sym_table_stack), len(a.sym_table_stack), id(a.global_ctx))

    @functools.wraps(orig)
    async def call(self, ast_ctx, *args, **kwargs):
        before = snap(ast_ctx)
        name_before = ast_ctx.global_ctx.get_name() if ast_ctx.global_ctx else None
        try:
            return await orig(self, ast_ctx, *args, **kwargs)
        finally:
            after = snap(ast_ctx)
            if after != before and len(_call_viol) < 20:
                what = [n for n, x, y in zip(("global_sym_table", "sym_table", "sym_table_stack", "stack depth", "global_ctx"),
                                             before, after) if x != y]
                _call_viol.append(f"{self.get_name()}@{self.global_ctx.get_name()} called from {name_before}: "
                                  f"{'/'.join(what)} changed (global_ctx now {ast_ctx.global_ctx.get_name()})")

    EvalFunc.call = call
    _probe_installed = True


def _ps_setup(loop):
    global _ps_ready
    import interp_env
    from custom_components.pyscript.function import Function
    from custom_components.pyscript.global_ctx import GlobalContext, GlobalContextMgr
    from custom_components.pyscript.trigger import TrigTime
    hass = interp_env.setup_stub(loop, {"allow_all_imports": True})
    hass.loop = loop

    async def _exec_job(func, *args):
        await asyncio.sleep(0)          # a real executor job is a suspension point
        return func(*args)

    hass.async_add_executor_job = _exec_job
    if not _ps_ready:
        GlobalContextMgr.init()
        TrigTime.init(hass)
        orig = GlobalContext.__init__

        def tracked(self, *a, **kw):
            orig(self, *a, **kw)
            _all_ctx.append(self)

        GlobalContext.__init__ = tracked
        _ps_ready = True
    TrigTime.hass = hass
    install_call_probe()
    install_step_counter()
    return hass


def _label(ctxs, g):
    i = next(k for k, x in enumerate(ctxs) if x is g)
    o = sum(1 for x in ctxs[:i] if x.get_name() == g.get_name())
    return g.get_name() + (f"#{o}" if o else "")


def _ps_val(ctxs, v):
    from custom_components.pyscript.eval import EvalFuncVar
    if v is None:
        return "None"
    if isinstance(v, bool):
        return repr(v)
    if isinstance(v, int):
        return str(v)
    if isinstance(v, EvalFuncVar):
        f = v.get_func()
        return f"fn:{_label(ctxs, f.global_ctx)}:{f.get_name()}"
    if isinstance(v, types.ModuleType):
        for g in ctxs:
            if g.global_sym_table is v.__dict__:
                return f"mod:{_label(ctxs, g)}"
        return f"mod:?{v.__name__}"
    return f"<{type(v).__name__}>"


def _ps_tables(ctxs, nmain):
    out = []
    for i, g in enumerate(ctxs):
        if i >= nmain and g.module is None:
            continue                      # a module whose load failed: garbage, not reachable
        items = sorted(f"{k}={_ps_val(ctxs, v)}" for k, v in g.global_sym_table.items()
                       if not (k.startswith("__") and k.endswith("__")) and k != "hass")
        out.append(f"{_label(ctxs, g)}{{{','.join(items)}}}")
    return " ".join(sorted(out))


def _ps_ptrs(ctxs, a):
    def owner(tab):
        for g in ctxs:
            if g.global_sym_table is tab:
                return _label(ctxs, g)
        return None
    o = owner(a.sym_table)
    sym = f"G:{o}" if o is not None else "L"
    return f"{_label(ctxs, a.global_ctx)}/{owner(a.global_sym_table)}/{sym}/{len(a.sym_table_stack)}"


async def _drain_tasks():
    """wait until every task started by the statement (task.create) has finished"""
    me = asyncio.current_task()
    for _ in range(200):
        pend = [t for t in asyncio.all_tasks() if t is not me and not t.done()]
        if not pend:
            return
        await asyncio.wait(pend, timeout=2.0)


async def ps_run(p, root, scale=1):
    """returns (list of per-op strings, tables string or None, per-op pointer equality list)"""
    _guard["kind"] = None
    from custom_components.pyscript.eval import AstEval
    from custom_components.pyscript.function import Function
    from custom_components.pyscript.global_ctx import GlobalContext, GlobalContextMgr
    loop = asyncio.get_running_loop()
    hass = _ps_setup(loop)
    signal.signal(signal.SIGPROF, _on_alarm)
    hass.config.path = lambda *a: os.path.join(root, *a)
    hass.config.config_dir = root
    GlobalContextMgr.contexts.clear()
    Function.our_tasks.clear()
    del _all_ctx[:]
    del _call_viol[:]
    evals = []
    for name, rel in p["ctxs"]:
        nm = ".".join(name)
        g = GlobalContext(nm, global_sym_table={"__name__": nm.split(".", 1)[-1]}, manager=GlobalContextMgr,
                          rel_import_path="/".join(rel) if rel else None)
        GlobalContextMgr.set(nm, g)
        a = AstEval(nm, g)
        Function.install_ast_funcs(a)
        evals.append(a)
    nmain = len(evals)
    outs, restored = [], []
    for op in p["ops"]:
        ctxs = list(_all_ctx)
        if op[0] == "delctx":
            GlobalContextMgr.delete(".".join(p["ctxs"][op[1]][0]))
            outs.append("deleted")
            restored.append(None)
            continue
        if op[0] == "race":
            # k tasks, each runs `def _imp(): import m; return m` through task.create at the same time
            a = evals[op[1]]
            a.parse(f"def _imp():\n    import {'.'.join(op[2])} as _m\n    return _m\n")
            await a.eval()
            mods = []
            a.parse("_t = [" + ", ".join("task.create(_imp)" for _ in range(op[3])) + "]")
            await a.eval()
            tasks = a.global_sym_table.pop("_t")
            a.global_sym_table.pop("_imp", None)
            for t in tasks:
                try:
                    mods.append(await asyncio.wait_for(t, WALL_NET * scale))
                except Exception:  # pylint: disable=broad-except
                    pass
            outs.append(f"race:{len({id(m) for m in mods if m is not None})}")
            restored.append(None)
            continue
        a = evals[op[1]]
        before = _ps_ptrs(ctxs, a)
        src = "\n".join(r_stmt(p["funcs"], op[2])) + "\n"
        _steps["n"], _steps["limit"] = 0, STEP_BUDGET * scale
        try:
            a.parse(src)
            signal.setitimer(signal.ITIMER_PROF, CPU_NET * scale)
            try:
                await asyncio.wait_for(a.eval(), WALL_NET * scale)
                await _drain_tasks()
            finally:
                signal.setitimer(signal.ITIMER_PROF, 0)
                _steps["limit"] = None
            out = "ok"
        except _StepBudget:
            out = "diverges"
        except asyncio.TimeoutError:
            _guard["kind"] = _guard["kind"] or "wall"
            out = "diverges"
        except _WallTimeout:
            out = "diverges"
        except Exception as e:  # an exception raised by user code is an outcome
            out = exc_name(e)
            await _drain_tasks()
        if _guard["kind"]:
            out = "diverges"          # (also when the budget was hit inside a task the statement created)
        if out == "diverges":
            outs.append("diverges")
            return outs, None, restored
        ctxs = list(_all_ctx)
        after = _ps_ptrs(ctxs, a)
        outs.append(f"{out}@{after}")
        restored.append((before, after))
    _probe["ps"] = _collect_probes([(_label(list(_all_ctx), g), g.global_sym_table) for g in _all_ctx])
    return outs, _ps_tables(list(_all_ctx), nmain), restored


_probe = {}
PROBE_RE = re.compile(r"^__gc\d+__$")


def _collect_probes(tables):
    """values of the `__gcN__` probe names (results of pyscript.get_global_ctx / list_global_ctx), per context"""
    out = {}
    for label, tab in tables:
        for k, v in tab.items():
            if PROBE_RE.match(str(k)):
                out[f"{label}:{k}"] = v if isinstance(v, str) else list(v)
    return out


# --------------------------------------------------------------------------------------------- CPython oracle
class _TaskShim:
    @staticmethod
    def create(f, *a, **kw):
        try:
            f(*a, **kw)
        except Exception:  # pylint: disable=broad-except
            pass

    @staticmethod
    def sleep(*a):
        return None


def _py_label_of_file(root, fn):
    rel = os.path.relpath(fn, os.path.join(root, "pyscript"))[:-3]
    if rel.endswith("/__init__"):
        rel = rel[:-len("/__init__")]
    return rel.replace("/", ".")


def _binds(body, acc):
    for s in body:
        k = s[0]
        if k in ("assign", "add", "call", "def"):
            acc.add(s[1])
        elif k == "import":
            acc.add(s[2] or ".".join(s[1]))
        elif k == "from":
            acc.update(a or n for n, a in s[3])
        elif k == "fromdot":
            acc.add(s[3] or s[2])
        elif k == "try":
            _binds(s[1], acc)
            _binds(s[2], acc)
    return acc


def _bound_names(p, label):
    """names explicitly bound by top-level statements of the file / main context `label`"""
    acc = set()
    for path, body in p["files"]:
        q = path[:-1] if path[-1] == "__init__" else path
        if ".".join(q) == label:
            _binds(body, acc)
    for i, (n, _) in enumerate(p["ctxs"]):
        if ".".join(n) == label:
            _binds([o[2] for o in p["ops"] if o[0] == "run" and o[1] == i], acc)
    return acc


def py_run(p, root):
    """CPython: same files, same statements.  returns (outs, tables)"""
    sys.dont_write_bytecode = True
    base = os.path.join(root, "pyscript")
    add_path = [os.path.join(base, "modules"), os.path.join(base, "apps")]
    before_mods = set(sys.modules)
    old_path = list(sys.path)
    sys.path[:0] = add_path
    importlib.invalidate_caches()
    builtins.task = _TaskShim
    pending = []                                     # set_global_ctx() executed inside a call of the running statement
    names_ = [n for n, _ in p["ctxs"]]

    def _set_global_ctx(name):
        if name.split(".") not in names_ or names_.index(name.split(".")) in deleted:
            raise NameError(f"global context '{name}' does not exist")
        pending.append(names_.index(name.split(".")))

    deleted = set()

    def _label_of_globals(d):
        for i, m in enumerate(mains):
            if m.__dict__ is d:
                return ".".join(names_[i])
        for k in set(sys.modules) - before_mods:
            m = sys.modules[k]
            fn = getattr(m, "__file__", None)
            if m.__dict__ is d and fn and fn.startswith(base):
                return _py_label_of_file(root, fn)
        return "?"

    def _get_global_ctx():
        return _label_of_globals(sys._getframe(1).f_globals)

    def _list_global_ctx():
        me = _label_of_globals(sys._getframe(1).f_globals)
        allc = {".".join(n) for i, n in enumerate(names_) if i not in deleted}
        for k in set(sys.modules) - before_mods:
            fn = getattr(sys.modules[k], "__file__", None)
            if fn and fn.startswith(base):
                allc.add(_py_label_of_file(root, fn))
        allc.discard(me)
        return [me, *sorted(allc)]

    builtins.pyscript = types.SimpleNamespace(set_global_ctx=_set_global_ctx, get_global_ctx=_get_global_ctx,
                                              list_global_ctx=_list_global_ctx)
    mains = []
    try:
        for name, rel in p["ctxs"]:
            modname = ".".join(name[1:])
            m = types.ModuleType(modname)
            if rel:                                   # an app package main: relative imports resolve against it
                m.__path__ = [os.path.join(base, *rel[:-1])]
                m.__package__ = modname
                sys.modules[modname] = m
            else:
                m.__package__ = ""
            mains.append(m)
        cur = list(range(len(mains)))                # which main namespace each evaluator currently executes in
        outs = []
        for op in p["ops"]:
            if op[0] == "race":
                outs.append("race:1")
                continue
            if op[0] == "delctx":
                deleted.add(op[1])
                outs.append("deleted")
                continue
            s = op[2]
            if s[0] == "setctx":
                tgt = [i for i, (n, _) in enumerate(p["ctxs"]) if n == s[1] and i not in deleted]
                if tgt:
                    cur[op[1]] = tgt[0]
                    outs.append("ok")
                else:
                    outs.append("NameError")
                continue
            src = "\n".join(r_stmt(p["funcs"], s)) + "\n"
            if s[0] == "call":
                # `x = f(..)`: the call runs in the current namespace; a set_global_ctx() executed somewhere below it
                # takes effect when control is back at the top level, i.e. before `x` is bound
                src = f"__r__ = {r_atom(s[2])}({', '.join(r_atom(a) for a in s[3])})\n"
            ns = mains[cur[op[1]]].__dict__
            try:
                exec(compile(src, f"<{'.'.join(p['ctxs'][op[1]][0])}>", "exec"), ns)  # noqa: S102
                outs.append("ok")
            except RecursionError:
                outs.append("diverges")
                return outs, None
            except Exception as e:  # pylint: disable=broad-except
                outs.append(exc_name(e))
            if pending:
                cur[op[1]] = pending[-1]
                del pending[:]
            if s[0] == "call" and "__r__" in ns:
                mains[cur[op[1]]].__dict__[s[1]] = ns.pop("__r__")
        # ---- dump
        mods = [(".".join(n), m) for (n, _), m in zip(p["ctxs"], mains)]
        for k in sorted(set(sys.modules) - before_mods):
            m = sys.modules[k]
            fn = getattr(m, "__file__", None)
            if fn and fn.startswith(base) and not any(m is x for _, x in mods):
                mods.append((_py_label_of_file(root, fn), m))
        _probe["py"] = _collect_probes([(lab, m.__dict__) for lab, m in mods])

        def label_of_dict(d):
            for lab, m in mods:
                if m.__dict__ is d:
                    return lab
            return "?"

        def val(v):
            if v is None:
                return "None"
            if isinstance(v, bool):
                return repr(v)
            if isinstance(v, int):
                return str(v)
            if isinstance(v, types.FunctionType):
                return f"fn:{label_of_dict(v.__globals__)}:{v.__name__}"
            if isinstance(v, types.ModuleType):
                return f"mod:{label_of_dict(v.__dict__)}"
            return f"<{type(v).__name__}>"
        tabs = []
        for lab, m in mods:
            bound = _bound_names(p, lab)
            items = sorted(f"{k}={val(v)}" for k, v in m.__dict__.items()
                           if not (k.startswith("__") and k.endswith("__"))
                           # CPython also binds an imported submodule in its parent package; pyscript has no such
                           # implicit binding (import mechanics, not isolation): keep only explicit bindings
                           and not (isinstance(v, types.ModuleType) and val(v) == f"mod:{lab}.{k}" and k not in bound))
            tabs.append(f"{lab}{{{','.join(items)}}}")
        return outs, " ".join(sorted(tabs))
    finally:
        sys.path[:] = old_path
        for k in set(sys.modules) - before_mods:
            sys.modules.pop(k, None)
        if hasattr(builtins, "task"):
            del builtins.task
        if hasattr(builtins, "pyscript"):
            del builtins.pyscript
        importlib.invalidate_caches()


# --------------------------------------------------------------------------------------------- fixed scenarios
def L(n):
    return ["lit", n]


def V(x):
    return ["var", x]


def A(x, a):
    return ["attr", x, a]


S1 = [["file", "s1"], None]
S2 = [["file", "s2"], None]
APP = [["apps", "app1"], ["apps", "app1", "__init__"]]


def scenarios():
    out = []
    # overlapping names, global writes through a module function, exception path, asname, star
    funcs = [["f", ["a"], ["x"], [["add", "x", V("x"), V("a")], ["ret", V("x")]]],
             ["g", ["a"], [], [["assign", "x", V("a")], ["raise", 7]]],
             ["f", [], ["y"], [["call", "y", A("m1", "f"), [L(10)]], ["ret", V("y")]]],
             ["h", ["cb"], ["z"], [["call", "z", V("cb"), []], ["ret", V("z")]]],
             ["k", [], [], [["ret", V("x")]]]]
    files = [[["modules", "m1"], [["assign", "x", L(1)], ["assign", "_p", L(5)], ["def", "f", 0], ["def", "g", 1],
                                  ["def", "h", 3]]]]
    ops = [["run", 0, ["assign", "x", L(100)]], ["run", 1, ["assign", "x", L(200)]],
           ["run", 0, ["import", ["m1"], None]], ["run", 1, ["from", ["m1"], 0, [["f", "ff"], ["g", None]]]],
           ["run", 0, ["call", "r", A("m1", "f"), [L(2)]]], ["run", 1, ["call", "r", V("ff"), [L(3)]]],
           ["run", 1, ["call", "r", V("g"), [L(3)]]], ["run", 1, ["call", "r", V("g"), []]],
           ["run", 0, ["def", "f", 2]], ["run", 0, ["call", "q", V("f"), []]],
           ["run", 1, ["star", ["m1"], 0]], ["run", 1, ["import", ["m1"], "mm"]], ["run", 1, ["setattr", "mm", "x", L(0)]],
           ["run", 0, ["def", "k", 4]], ["run", 0, ["call", "w", A("m1", "h"), [V("k")]]],
           ["run", 0, ["spawn", False, A("m1", "g"), [L(55)]]], ["run", 0, ["spawn", False, A("m1", "f"), [L(1)]]]]
    out.append({"kind": "interp", "tag": "basic", "funcs": funcs, "files": files, "ctxs": [S1, S2], "ops": ops})
    # finding F1: relative import from a non-package submodule
    funcs = [["bump", [], [], [["add", "t", A("other", "counter"), L(10)], ["setattr", "other", "counter", V("t")]]]]
    files = [[["apps", "app1", "other"], [["assign", "counter", L(0)]]],
             [["apps", "app1", "helper"], [["fromdot", 1, "other", None], ["def", "bump", 0], ["call", "r", V("bump"), []]]]]
    ops = [["run", 0, ["fromdot", 1, "other", None]], ["run", 0, ["fromdot", 1, "helper", None]],
           ["run", 0, ["add", "t", A("other", "counter"), L(1)]], ["run", 0, ["setattr", "other", "counter", V("t")]]]
    out.append({"kind": "interp", "tag": "relative-dup", "funcs": funcs, "files": files, "ctxs": [APP], "ops": ops})
    # same inside modules/pkg
    files = [[["modules", "pkg", "__init__"], [["fromdot", 1, "sub", None], ["fromdot", 1, "sib", None]]],
             [["modules", "pkg", "sub"], [["from", ["sib"], 1, [["v", None]]], ["fromdot", 1, "sib", "sb"],
                                          ["setattr", "sb", "v", L(2)]]],
             [["modules", "pkg", "sib"], [["assign", "v", L(1)]]]]
    ops = [["run", 0, ["import", ["pkg"], None]], ["run", 0, ["assign", "r", A("pkg", "sib")]]]
    out.append({"kind": "interp", "tag": "relative-dup", "funcs": [], "files": files, "ctxs": [S1], "ops": ops})
    # relative import without / above the parent package
    files = [[["modules", "pkg", "__init__"], [["assign", "v", L(1)]]],
             [["modules", "pkg", "sub"], [["try", [["fromdot", 2, "zz", None]], [["assign", "e", L(1)]]]]]]
    ops = [["run", 0, ["fromdot", 1, "pkg", None]], ["run", 0, ["from", ["pkg", "sub"], 0, [["e", None]]]],
           ["run", 0, ["from", ["pkg"], 0, [["v", "w"]]]]]
    out.append({"kind": "interp", "tag": "relative-err", "funcs": [], "files": files, "ctxs": [S1], "ops": ops})
    # finding F4: submodule reached by its dotted name cannot import relatively
    files = [[["modules", "pkg", "__init__"], [["assign", "y", L(1)]]],
             [["modules", "pkg", "sub"], [["from", ["sib"], 1, [["g", None]]], ["assign", "x", L(1)]]],
             [["modules", "pkg", "sib"], [["assign", "g", L(4)]]]]
    ops = [["run", 0, ["import", ["pkg"], None]], ["run", 0, ["from", ["pkg", "sub"], 0, [["x", None]]]]]
    out.append({"kind": "interp", "tag": "relative-dotted", "funcs": [], "files": files, "ctxs": [S1], "ops": ops})
    # finding F2: concurrent first imports
    files = [[["modules", "m1"], [["assign", "cnt", L(0)]]]]
    for k in (2, 3):
        out.append({"kind": "interp", "tag": "race", "funcs": [], "files": files, "ctxs": [S1],
                    "ops": [["race", 0, ["m1"], k], ["run", 0, ["import", ["m1"], None]]]})
    out.append({"kind": "interp", "tag": "race-after-load", "funcs": [], "files": files, "ctxs": [S1],
                "ops": [["run", 0, ["import", ["m1"], None]], ["race", 0, ["m1"], 3]]})
    # finding F3: import cycle
    files = [[["modules", "m1"], [["assign", "x", L(1)], ["import", ["m2"], None]]],
             [["modules", "m2"], [["assign", "y", L(2)], ["import", ["m1"], None]]]]
    out.append({"kind": "interp", "tag": "cycle", "funcs": [], "files": files, "ctxs": [S1],
                "ops": [["run", 0, ["assign", "x", L(5)]], ["run", 0, ["import", ["m1"], None]]]})
    # a global named like one of pyscript's own functions, read inside a function (oracle only: the per-evaluator
    # function table `local_sym_table` is not part of the C11 model)
    out.append({"kind": "interp", "tag": "shadow-pyscript-function", "no_model": True,
                "funcs": [["f", [], [], [["ret", V("print")]]]], "files": [], "ctxs": [S1],
                "ops": [["run", 0, ["assign", "print", L(5)]], ["run", 0, ["assign", "a", V("print")]],
                        ["run", 0, ["def", "f", 0]], ["run", 0, ["call", "b", V("f"), []]]]})
    # set_global_ctx at top level (Jupyter style), incl. unknown context
    funcs = [["f", [], ["x"], [["assign", "x", L(9)]]]]
    ops = [["run", 0, ["assign", "x", L(1)]], ["run", 1, ["assign", "x", L(2)]], ["run", 0, ["def", "f", 0]],
           ["run", 0, ["setctx", ["file", "s2"]]], ["run", 0, ["assign", "y", V("x")]], ["run", 0, ["call", "r", V("f"), []]],
           ["run", 0, ["setctx", ["file", "nope"]]], ["run", 0, ["assign", "z", L(3)]],
           ["run", 0, ["setctx", ["file", "s1"]]], ["run", 0, ["assign", "w", V("x")]]]
    out.append({"kind": "interp", "tag": "setctx", "funcs": funcs, "files": [], "ctxs": [S1, S2], "ops": ops})
    return out


# ------------------------------------------------------------------------------------------ boundary sweep
RENAMES = [
    ("module-name-prefix", {"m2": "m10"}),             # m1 is a prefix of m10
    ("module-name-case", {"m2": "M1"}),                # m1 / M1 differ only in case
    ("script-and-module-same-base-name", {"m1": "s1"}),
    ("context-name-prefix", {"s2": "s10"}),            # file.s1 is a prefix of file.s10
    ("context-name-case", {"s2": "S1"}),
    ("shadow-builtin-len", {"z": "len"}),
    ("shadow-builtin-id", {"y": "id"}),
    ("shadow-builtin-sum", {"h": "sum"}),
    ("shadow-builtin-max", {"g": "max"}),
]


def rename_ids(obj, mapping):
    """replace identifiers / name segments everywhere in a payload"""
    if isinstance(obj, str):
        return mapping.get(obj, obj)
    if isinstance(obj, list):
        return [rename_ids(x, mapping) for x in obj]
    if isinstance(obj, dict):
        return {k: (v if k in ("tags", "tag", "kind") else rename_ids(v, mapping)) for k, v in obj.items()}
    return obj


def deep_pkg_case(rng):
    """a package three levels deep (modules/pkg/sub2/deep.py), reached by every dotted spelling"""
    v = rng.randrange(1, 50)
    variant = rng.choice(["plain", "plain", "import-dotted", "deep-relative"])
    funcs = [["f", ["a"], ["w"], [["add", "w", V("w"), V("a")], ["ret", V("w")]]]]
    deep_body = [["assign", "w", L(v)], ["def", "f", 0]]
    if variant == "deep-relative":
        # a relative import two levels up from a module that is not __init__ (finding C11-F1: wrong context name)
        deep_body.append(["fromdot", 2, "sib", None])
    files = [[["modules", "pkg", "sib"], [["assign", "v", L(v + 1)]]],
             [["modules", "pkg", "sub2", "deep"], deep_body],
             [["modules", "pkg", "sub2", "__init__"], [["fromdot", 2, "sib", None], ["fromdot", 1, "deep", None],
                                                       ["assign", "lvl", L(2)]]],
             [["modules", "pkg", "__init__"], [["fromdot", 1, "sub2", None], ["fromdot", 1, "sib", None], ["assign", "lvl", L(1)]]]]
    ops = [["run", 0, ["import", ["pkg"], None]],
           ["run", 0, ["import", ["pkg", "sub2"], "ps"]],                       # import a.b as x
           ["run", 0, ["from", ["pkg", "sub2"], 0, [["deep", "d3"], ["lvl", "l2"]]]],   # from a.b import c as d
           ["run", 0, ["from", ["pkg", "sub2", "deep"], 0, [["f", "f3"], ["w", None]]]],
           ["run", 1, ["from", ["pkg", "sub2", "deep"], 0, [["f", None]]]],
           ["run", 0, ["call", "r", V("f3"), [L(2)]]], ["run", 1, ["call", "r", V("f"), [L(3)]]],
           ["run", 0, ["call", "r2", A("d3", "f"), [L(4)]]],
           ["run", 1, ["from", ["pkg"], 0, [["sib", "sb"]]]], ["run", 1, ["setattr", "sb", "v", L(0)]],
           ["run", 0, ["assign", "same", A("ps", "sib")]]]
    if variant == "import-dotted":
        ops.insert(rng.randrange(1, len(ops)), ["run", 1, ["import", ["pkg", "sub2", "deep"], None]])   # import a.b.c
    return {"kind": "interp", "tag": "deep-package", "funcs": funcs, "files": files, "ctxs": [S1, S2], "ops": ops,
            "tags": ["package-depth-3", "variant-" + variant]}


def star_all_case(rng):
    """`from m import *` when the module defines __all__ (with a private name in it / a public name left out)"""
    v = rng.randrange(1, 50)
    allnames = rng.choice([["x"], ["x", "_p"], ["f"], ["x", "f", "y"]])
    funcs = [["f", [], ["y"], [["add", "y", V("y"), L(1)], ["ret", V("y")]]]]
    files = [[["modules", "m1"], [["assign", "x", L(v)], ["assign", "y", L(v + 1)], ["assign", "_p", L(v + 2)],
                                  ["def", "f", 0], ["all", allnames]]],
             [["modules", "m2"], [["assign", "x", L(v + 5)], ["assign", "_q", L(1)]]]]
    ops = [["run", 0, ["assign", "y", L(100)]], ["run", 0, ["star", ["m1"], 0]], ["run", 1, ["star", ["m2"], 0]],
           ["run", 1, ["star", ["m1"], 0]]]
    return {"kind": "interp", "tag": "star-all", "funcs": funcs, "files": files, "ctxs": [S1, S2], "ops": ops,
            "tags": ["star-import-__all__", "all-" + "+".join(allnames)], "has_all": True}


def two_spellings_case(rng):
    """one module reached by its absolute dotted name and by a relative import, in both orders"""
    v = rng.randrange(1, 50)
    abs_first = rng.random() < 0.5
    files = [[["modules", "pkg", "sib"], [["assign", "v", L(v)]]],
             [["modules", "pkg", "__init__"], [["assign", "lvl", L(1)]] + ([] if abs_first else [["fromdot", 1, "sib", None]])],
             [["modules", "pkg", "late"], [["fromdot", 1, "sib", None]]]]
    ops = [["run", 0, ["import", ["pkg"], None]],
           ["run", 0, ["from", ["pkg", "sib"], 0, [["v", "v1"]]]],             # absolute spelling
           ["run", 0, ["import", ["pkg", "sib"], "sa"]],
           ["run", 1, ["import", ["pkg"], None]],
           ["run", 1, ["from", ["pkg", "sib"], 0, [["v", "v2"]]]],
           ["run", 0, ["setattr", "sa", "v", L(v + 9)]],
           ["run", 1, ["import", ["pkg", "sib"], "sb"]], ["run", 1, ["assign", "seen", A("sb", "v")]]]
    return {"kind": "interp", "tag": "two-spellings", "funcs": [], "files": files, "ctxs": [S1, S2], "ops": ops,
            "tags": ["absolute-and-relative-spelling", "absolute-first" if abs_first else "relative-first"]}


S3 = [["file", "s3"], None]


def fnflow_case(rng):
    """function values cross context boundaries as arguments, return values and module attributes and are called
    later from a third context; `global` inside those calls; exceptions crossing two boundaries; task.create of a
    cross-context function; three and more calls in a row"""
    v = rng.randrange(2, 9)
    reps = rng.randrange(3, 6)
    funcs = [
        ["reg", ["fn"], ["hook"], [["assign", "hook", V("fn")], ["ret", V("fn")]]],                                   # 0 m1
        ["run", ["a"], ["cnt"], [["add", "cnt", V("cnt"), L(1)], ["add", "t", V("a"), L(v)], ["call", "r", V("hook"), [V("t")]],
                                 ["add", "u", V("r"), V("t")], ["ret", V("u")]]],                                    # 1 m1
        ["inner", ["a"], ["made"], [["add", "made", V("made"), V("a")], ["ret", V("made")]]],                           # 2 m1
        ["mk", [], [], [["def", "inner", 2], ["ret", V("inner")]]],                                                    # 3 m1
        ["h1", ["a"], ["x"], [["add", "x", V("x"), V("a")], ["ret", V("x")]]],                                          # 4 s1
        ["bad", ["a"], ["x"], [["add", "x", V("x"), L(1)], ["raise", 3]]],                                              # 5 s1
        ["t3", [], ["z"], [["assign", "t", L(v)], ["try", [["call", "r", A("m1", "run"), [L(1)]]], [["assign", "e", L(1)]]],
                           ["add", "z", V("z"), V("t")], ["ret", V("z")]]],                                            # 6 s3
        ["viaarg", ["fn", "a"], ["y"], [["call", "r", V("fn"), [V("a")]], ["add", "y", V("y"), V("r")], ["ret", V("y")]]],  # 7 s2
    ]
    files = [[["modules", "m1"], [["assign", "cnt", L(0)], ["assign", "made", L(0)], ["def", "reg", 0], ["def", "run", 1],
                                  ["def", "mk", 3]]]]
    ops = []
    for i in range(3):
        ops += [["run", i, ["import", ["m1"], None]], ["run", i, ["assign", "x", L(100 * (i + 1))]],
                ["run", i, ["assign", "y", L(0)]], ["run", i, ["assign", "z", L(0)]]]
    ops += [["run", 0, ["def", "h1", 4]], ["run", 0, ["def", "bad", 5]], ["run", 2, ["def", "t3", 6]], ["run", 1, ["def", "viaarg", 7]],
            ["run", 0, ["call", "k", A("m1", "reg"), [V("h1")]]],          # argument + return value
            ["run", 0, ["setattr", "m1", "keep", V("h1")]]]                  # module attribute
    body = []
    for j in range(reps):                                                   # the third and later call
        body.append(["run", 1, ["call", "r", A("m1", "run"), [L(j + 1)]]])
    body += [["run", 2, ["assign", "g3", A("m1", "keep")]], ["run", 2, ["call", "q", V("g3"), [L(2)]]],   # third context
             ["run", 2, ["call", "inn", A("m1", "mk"), []]], ["run", 2, ["call", "w", V("inn"), [L(7)]]],
             ["run", 1, ["assign", "hk", A("m1", "keep")]], ["run", 1, ["call", "w", V("viaarg"), [V("hk"), L(4)]]],
             ["run", 2, ["spawn", False, A("m1", "run"), [L(3)]]],           # task.create of a cross-context function
             ["run", 1, ["spawn", False, V("hk"), [L(1)]]]]
    rng.shuffle(body)
    ops += body
    # exceptions crossing two context boundaries: s1.bad raises inside m1.run called from s2 / s3
    ops += [["run", 0, ["call", "k", A("m1", "reg"), [V("bad")]]],
            ["run", 1, ["call", "r", A("m1", "run"), [L(1)]]],              # propagates to the top level of s2
            ["run", 2, ["call", "r", V("t3"), []]],                          # caught two boundaries up, in s3
            ["run", 2, ["spawn", False, A("m1", "run"), [L(2)]]],
            ["run", 0, ["call", "k", A("m1", "reg"), [V("h1")]]],
            ["run", 1, ["call", "r", A("m1", "run"), [L(1)]]]]
    return {"kind": "interp", "tag": "fnflow", "funcs": funcs, "files": files, "ctxs": [S1, S2, S3], "ops": ops,
            "tags": ["function-values-across-contexts", "third-context", "exception-two-boundaries", "repeat-%d" % reps]}


def ctxapi_case(rng):
    """pyscript.get_global_ctx / list_global_ctx / set_global_ctx with the own, a missing and a deleted context"""
    funcs = [["who", [], ["__gc7__"], [["getctx", "__gc7__"], ["ret", L(0)]]]]
    files = [[["modules", "m1"], [["assign", "x", L(1)], ["def", "who", 0], ["getctx", "__gc1__"]]]]
    ops = [["run", 0, ["getctx", "__gc2__"]], ["run", 1, ["listctx", "__gc3__"]],
           ["run", 0, ["import", ["m1"], None]], ["run", 0, ["listctx", "__gc4__"]],
           ["run", 0, ["call", "r", A("m1", "who"), []]],                    # inside a module function: the module's context
           ["run", 0, ["setctx", ["file", "s1"]]],                            # the own context: nothing changes
           ["run", 0, ["assign", "a", L(1)]],
           ["run", 0, ["setctx", ["file", "nope"]]],                          # missing
           ["run", 0, ["setctx", ["file", "s2"]]], ["run", 0, ["getctx", "__gc5__"]], ["run", 0, ["assign", "b", L(2)]],
           ["run", 0, ["setctx", ["file", "s1"]]],
           ["delctx", 2],                                                     # file.s3 is deleted
           ["run", 0, ["setctx", ["file", "s3"]]],                            # deleted
           ["run", 0, ["listctx", "__gc6__"]], ["run", 0, ["assign", "c", L(3)]],
           ["run", 2, ["assign", "still", L(1)]]]                             # its evaluator keeps working on the old table
    if rng.random() < 0.5:
        ops.insert(2, ["run", 1, ["getctx", "__gc8__"]])
    return {"kind": "interp", "tag": "ctx-api", "funcs": funcs, "files": files, "ctxs": [S1, S2, S3], "ops": ops,
            "tags": ["get/list/set_global_ctx", "own/missing/deleted"]}


def reentrant_case(rng):
    """a function of the module is active twice through a callback into the caller's context:
    nest -> m1.apply(k) -> k -> m1.apply(0) (calling 0 raises TypeError inside apply's try: the recursion ends).
    The outer caller's locals, read after the call, and the pointers at every return are what is at stake."""
    v0, v1, v2 = rng.randrange(2, 9), rng.randrange(10, 19), rng.randrange(20, 29)
    two_ctx = rng.random() < 0.5            # the callback lives in a second file
    top_level = rng.random() < 0.3          # the outer call is a top-level statement
    levels = rng.choice([1, 1, 2])          # how many callbacks re-enter before the chain ends
    funcs = [
        # m1.apply(cb, v): global side effect, a local before and after the call of cb
        ["apply", ["cb", "v"], ["x"], [["add", "x", V("x"), V("v")], ["add", "t", V("v"), L(v0)],
                                       ["try", [["call", "r", V("cb"), []]], [["assign", "e", L(1)]]],
                                       ["add", "u", V("t"), L(1)], ["ret", V("u")]]],
        # the innermost callback: re-enters apply with something that is not callable
        ["k", [], ["y"], [["assign", "t", L(v1)], ["call", "q", A("m1", "apply"), [L(0), L(2)]], ["add", "y", V("t"), V("q")],
                           ["ret", V("t")]]],
        # a middle callback (levels == 2): re-enters apply with k
        ["k2", [], ["z"], [["assign", "t", L(v2)], ["call", "q", A("m1", "apply"), [V("kk"), L(3)]], ["add", "z", V("t"), V("q")],
                            ["ret", V("t")]]],
        # the outer caller: a local before the cross-file call, used afterwards
        ["nest", [], ["w"], [["assign", "t", L(v2 + 7)], ["call", "q", A("m1", "apply"), [V("cbk"), L(1)]],
                             ["add", "w", V("t"), V("q")], ["ret", V("t")]]],
    ]
    files = [[["modules", "m1"], [["assign", "x", L(100)], ["def", "apply", 0]]]]
    cb_ctx = 1 if two_ctx else 0
    ctxs = [S1, S2] if two_ctx else [S1]
    ops = [["run", 0, ["import", ["m1"], None]], ["run", 0, ["assign", "y", L(0)]], ["run", 0, ["assign", "z", L(0)]],
           ["run", 0, ["assign", "w", L(0)]]]
    if two_ctx:
        ops += [["run", 1, ["import", ["m1"], None]], ["run", 1, ["assign", "y", L(0)]], ["run", 1, ["assign", "z", L(0)]],
                ["run", 1, ["def", "k", 1]], ["run", 1, ["assign", "kk", V("k")]], ["run", 1, ["def", "k2", 2]],
                ["run", 0, ["from", ["m1"], 0, [["x", "x0"]]]]]
        # hand the callbacks of file s2 to file s1 through the module object
        ops += [["run", 1, ["setattr", "m1", "cb1", V("k")]], ["run", 1, ["setattr", "m1", "cb2", V("k2")]],
                ["run", 0, ["assign", "cbk", A("m1", "cb1" if levels == 1 else "cb2")]]]
    else:
        ops += [["run", 0, ["def", "k", 1]], ["run", 0, ["assign", "kk", V("k")]], ["run", 0, ["def", "k2", 2]],
                ["run", 0, ["assign", "cbk", V("k" if levels == 1 else "k2")]]]
    ops += [["run", 0, ["def", "nest", 3]]]
    if top_level:
        ops += [["run", 0, ["call", "res", A("m1", "apply"), [V("cbk"), L(1)]]], ["run", 0, ["add", "w", V("res"), L(1)]]]
    else:
        ops += [["run", 0, ["call", "res", V("nest"), []]]]
    ops += [["run", 0, ["call", "res2", V("nest"), []]], ["run", cb_ctx, ["call", "res3", V("k"), []]]]
    return {"kind": "interp", "tag": "reentrant", "funcs": funcs, "files": files, "ctxs": ctxs, "ops": ops,
            "tags": ["reentrant-callback", "two-files" if two_ctx else "one-file", "levels-%d" % levels]}


def overlap_case(rng):
    """two tasks are inside one module function at the same time (it suspends); the later entrant returns first"""
    d1, d2 = rng.randrange(4, 8), rng.randrange(1, 3)
    two_ctx = rng.random() < 0.5
    # nested: the module function entered from the other file makes a SAME-context call that suspends, and uses its own
    # locals afterwards (two tasks inside `front` at once, their inner calls return in non-LIFO order)
    nested = rng.random() < 0.6
    if rng.random() < 0.5:
        d1, d2 = d2, d1              # the FIRST entrant's inner call returns first (non-LIFO completion of the inner calls)
    entry = "front" if nested else "slow"
    funcs = [
        ["slow", ["d"], ["cnt"], [["add", "cnt", V("cnt"), L(1)], ["add", "t", V("d"), L(100)], ["sleep", V("d")],
                                  ["ret", V("t")]]],
        ["wa", ["a"], ["xa"], [["add", "t", V("a"), L(10)], ["call", "r", A("m1", entry), [L(d1)]], ["add", "xa", V("t"), V("r")]]],
        ["wb", ["a"], ["xb"], [["add", "t", V("a"), L(20)], ["call", "r", A("m1", entry), [L(d2)]], ["add", "xb", V("t"), V("r")]]],
        ["both", [], [], [["spawn", False, V("wa"), [L(1)]], ["spawn", False, V("wb2"), [L(2)]], ["ret", L(0)]]],
        ["front", ["d"], ["tot"], [["add", "t", V("d"), L(200)], ["call", "r", V("slow"), [V("d")]], ["add", "u", V("t"), V("r")],
                                   ["add", "tot", V("tot"), V("u")], ["ret", V("u")]]],
    ]
    files = [[["modules", "m1"], [["assign", "cnt", L(0)], ["assign", "tot", L(0)], ["def", "slow", 0], ["def", "front", 4]]]]
    ctxs = [S1, S2] if two_ctx else [S1]
    ops = [["run", 0, ["import", ["m1"], None]], ["run", 0, ["def", "wa", 1]]]
    if two_ctx:
        ops += [["run", 1, ["import", ["m1"], None]], ["run", 1, ["def", "wb", 2]], ["run", 1, ["setattr", "m1", "hook", V("wb")]],
                ["run", 0, ["assign", "wb2", A("m1", "hook")]]]
    else:
        ops += [["run", 0, ["def", "wb", 2]], ["run", 0, ["assign", "wb2", V("wb")]]]
    ops += [["run", 0, ["def", "both", 3]], ["run", 0, ["call", "res", V("both"), []]],
            ["run", 0, ["call", "res", V("both"), []]]]
    return {"kind": "interp", "tag": "overlap", "funcs": funcs, "files": files, "ctxs": ctxs, "ops": ops,
            "tags": ["overlapping-activations", "two-files" if two_ctx else "one-file"] + (["nested-same-ctx-call"] if nested else []) + ["first-returns-first" if d1 < d2 else "later-returns-first"]}


def deep_setctx_case(rng):
    """pyscript.set_global_ctx() executed 1-3 calls below a top-level statement (optionally inside try/except), then
    top-level statements that read, define and call in the new context, then the switch back"""
    depth = rng.choice([1, 2, 2, 3, 3])
    in_try = rng.random() < 0.4
    a, b = rng.randrange(1, 50), rng.randrange(50, 99)
    sw_body = [["setctx", ["file", "s2"]]]
    if in_try:
        sw_body = [["try", [["setctx", ["file", "s2"]]], [["assign", "e", L(1)]]]]
    funcs = [["sw", [], [], sw_body + [["ret", L(a)]]],
             ["mid", [], [], [["assign", "t", L(3)], ["call", "r", V("sw"), []], ["ret", V("r")]]],
             ["outer", [], [], [["assign", "t", L(4)], ["try", [["call", "r", V("mid"), []]], []], ["ret", V("t")]]],
             ["g", [], ["x"], [["add", "x", V("x"), L(1)], ["ret", V("x")]]]]
    entry = ["sw", "mid", "outer"][depth - 1]
    ops = [["run", 0, ["assign", "x", L(a)]], ["run", 1, ["assign", "x", L(b)]], ["run", 1, ["assign", "only2", L(7)]],
           ["run", 0, ["def", "sw", 0]], ["run", 0, ["def", "mid", 1]], ["run", 0, ["def", "outer", 2]]]
    k = len(ops)
    ops += [["run", 0, ["call", "res", V(entry), []]],          # the switch happens below this statement
            ["run", 0, ["assign", "y", V("x")]],                # reads the new context's global
            ["run", 0, ["assign", "fresh", L(5)]],              # defines a global there
            ["run", 0, ["assign", "z", V("only2")]],            # a name that only exists in the new context
            ["run", 0, ["def", "g", 3]], ["run", 0, ["call", "q", V("g"), []]],
            ["run", 1, ["assign", "seen", V("fresh")]],         # the other evaluator of that context sees the definitions
            ["run", 0, ["setctx", ["file", "s1"]]],
            ["run", 0, ["assign", "w", V("x")]], ["run", 0, ["assign", "back", L(1)]]]
    return {"kind": "interp", "tag": "deep-setctx", "funcs": funcs, "files": [], "ctxs": [S1, S2], "ops": ops,
            "switch_ops": {str(k): "file.s2"},
            "tags": ["setctx-depth-%d" % depth] + (["setctx-in-try"] if in_try else [])}


def run_three(p, scale=1):
    """(impl, oracle, restored) for one interp-level case; the model column comes from the driver"""
    _probe.clear()
    root = tempfile.mkdtemp(prefix="pysc_c11_")
    try:
        write_tree(root, p)
        loop = asyncio.new_event_loop()
        asyncio.set_event_loop(loop)
        try:
            outs, tabs, restored = loop.run_until_complete(ps_run(p, root, scale))
        finally:
            loop.close()
        pouts, ptabs = py_run(p, root)
    finally:
        shutil.rmtree(root, ignore_errors=True)
    impl = " ".join(outs) + ((" | " + tabs) if tabs is not None else "")
    orc = " ".join(pouts) + ((" | " + ptabs) if ptabs is not None else "")
    return impl, orc, restored, list(_call_viol), dict(_probe)


# --------------------------------------------------------------------------------------------- generator
GVARS = ["x", "y", "z"]
FNAMES = ["f", "g", "h"]


class FileInfo:
    def __init__(self, fid, path, kind):
        self.fid = fid            # short id: m1, m2, bad, pkg, pkg.sub, pkg.sib, app.helper, app.other
        self.path = path          # below pyscript/, without .py
        self.kind = kind          # "mod" | "pkginit" | "pkgsub" | "appsub"
        self.names = {}           # exported name -> kind tuple (only names that are certainly bound)
        self.fails = False
        self.body = []


class Scope:
    """names certainly bound in a file / main context at the current point"""

    def __init__(self, label, is_main, rel_kind):
        self.label = label
        self.is_main = is_main
        self.rel_kind = rel_kind  # None | "pkg" (inside modules/pkg) | "app" (inside apps/app1)
        self.names = {}
        self.pending = set()      # function names this scope will (re)define later: never called before that


class ProgGen:
    def __init__(self, rng):
        self.rng = rng
        self.funcs = []
        self.files = {}
        self.order = []
        self.tags = set()

    # -------------------------------------------------------------- helpers
    def pick(self, xs):
        return xs[self.rng.randrange(len(xs))]

    def chance(self, p):
        return self.rng.random() < p

    def ints(self, sc):
        return [n for n, k in sc.names.items() if k[0] == "int"]

    def fns(self, sc):
        return [(n, k) for n, k in sc.names.items() if k[0] == "fn"]

    def mods(self, sc):
        return [(n, k) for n, k in sc.names.items() if k[0] == "mod"]

    def callables(self, sc):
        """(atom, kind) of everything callable that is certainly bound: own functions and functions of bound modules"""
        out = [(V(n), k) for n, k in self.fns(sc) if n not in sc.pending]
        for alias, k in self.mods(sc):
            for n, kk in self.files[k[1]].names.items():
                if kk[0] == "fn":
                    out.append((A(alias, n), kk))
        return out

    # -------------------------------------------------------------- function bodies
    def gen_func(self, sc, name, depth=0):
        rng = self.rng
        params = self.pick([[], ["a"], ["a"], ["a", "b"]])
        cb = None
        if params and self.chance(0.15):
            cb = len(params) - 1                       # last parameter is a zero-argument callback
        gl = [v for v in GVARS if self.chance(0.3)]
        body = []
        local = {p: ("int",) for p in params}
        if cb is not None:
            local[params[cb]] = ("fn", 0, None)
        shadow = [v for v in GVARS if v not in gl and self.chance(0.15)]
        for v in shadow:                               # local shadows of global names, assigned first
            body.append(["assign", v, L(rng.randrange(50, 60))])
            local[v] = ("int",)

        def int_atoms():
            out = [V(n) for n, k in local.items() if k[0] == "int"]
            out += [V(n) for n in self.ints(sc) if n not in local]
            for alias, k in self.mods(sc):
                if alias not in local:
                    out += [A(alias, n) for n, kk in self.files[k[1]].names.items() if kk[0] == "int"]
            return out or [L(rng.randrange(10))]

        def a_int():
            return self.pick(int_atoms()) if self.chance(0.8) else L(rng.randrange(10))

        def call_stmt(target):
            cands = [(V(n), k) for n, k in local.items() if k[0] == "fn"]
            cands += [(at, k) for at, k in self.callables(sc) if at[1] not in local]
            if not cands:
                return ["assign", target, a_int()]
            at, k = self.pick(cands)
            n = k[1]
            if self.chance(0.08):
                n = max(0, n + self.pick([-1, 1]))      # wrong arity
            args = []
            for i in range(n):
                if k[2] is not None and i == k[2]:
                    leafs = [(V(nm), kk) for nm, kk in self.fns(sc)
                             if kk[1] == 0 and kk[3] and nm not in local and nm not in sc.pending]
                    args.append(self.pick(leafs)[0] if leafs else a_int())
                else:
                    args.append(a_int())
            return ["call", target, at, args]

        nst = rng.randrange(1, 5)
        has_call = False
        for _ in range(nst):
            c = rng.random()
            if c < 0.22:
                t = self.pick(["t", "u"])
                body.append(["add", t, a_int(), a_int()] if self.chance(0.5) else ["assign", t, a_int()])
                local[t] = ("int",)
            elif c < 0.40 and gl:
                g = self.pick(gl)
                body.append(["add", g, a_int(), L(1)] if self.chance(0.5) else ["assign", g, a_int()])
            elif c < 0.62:
                st = call_stmt("r")
                has_call = has_call or st[0] == "call"
                if self.chance(0.3):
                    body.append(["try", [st], [["assign", "e", L(1)]] if self.chance(0.5) else []])
                else:
                    body.append(st)
                    local["r"] = ("unk",)
            elif c < 0.72 and self.mods(sc):
                alias, k = self.pick(self.mods(sc))
                if alias not in local:
                    body.append(["setattr", alias, self.pick(GVARS), a_int()])
            elif c < 0.80:
                tgt = self.pick([f for f in self.order if not self.files[f].fails and self.files[f].kind == "mod"] or [None])
                if tgt is not None and sc.rel_kind is None and tgt != sc.label:
                    # lazy import inside the function, then use the module
                    body.append(["import", [tgt], "lm"])
                    local["lm"] = ("mod", tgt)
                    ints = [n for n, kk in self.files[tgt].names.items() if kk[0] == "int"]
                    if ints:
                        body.append(["assign", "t", A("lm", self.pick(ints))])
                        local["t"] = ("int",)
                    self.tags.add("lazy-import")
            elif c < 0.86:
                body.append(["raise", rng.randrange(1, 9)])
                self.tags.add("raise")
                break
            elif c < 0.90 and depth == 0:
                inner, ik = self.gen_func(sc, "inner", depth + 1)
                body.append(["def", "inner", inner])
                body.append(["ret", V("inner")])
                self.tags.add("factory")
                fid = len(self.funcs)
                self.funcs.append([name, params, gl, body])
                return fid, ("fn", len(params), cb, False)
            else:
                body.append(["ret", a_int()])
                break
        else:
            if self.chance(0.6):
                body.append(["ret", a_int()])
        fid = len(self.funcs)
        self.funcs.append([name, params, gl, body])
        leaf = not has_call and cb is None
        return fid, ("fn", len(params), cb, leaf)

    # -------------------------------------------------------------- imports
    def import_stmts(self, sc, tgt, top_level=True):
        """statements importing file `tgt` into scope `sc` (updates sc.names); [] when impossible"""
        fi = self.files[tgt]
        rng = self.rng
        out = []
        exported = list(fi.names.items())
        if fi.fails:
            self.tags.add("failing-load")
            return [["import", [tgt], None]] if fi.kind == "mod" else []
        if fi.kind == "mod":
            form = rng.randrange(5)
            if form == 0:
                out.append(["import", [tgt], None]); sc.names[tgt] = ("mod", tgt)
            elif form == 1:
                out.append(["import", [tgt], "mm"]); sc.names["mm"] = ("mod", tgt); self.tags.add("asname")
            elif form == 2 and exported:
                picks = rng.sample(exported, min(len(exported), rng.randrange(1, 3)))
                names = []
                for n, k in picks:
                    asn = (n + "2") if self.chance(0.4) else None
                    names.append([n, asn]); sc.names[asn or n] = k
                out.append(["from", [tgt], 0, names]); self.tags.add("from-import")
            elif form == 3 and top_level:
                out.append(["star", [tgt], 0]); self.tags.add("star")
                for n, k in exported:
                    if not n.startswith("_"):
                        sc.names[n] = k
            else:
                out.append(["import", [tgt], None]); sc.names[tgt] = ("mod", tgt)
        elif fi.kind == "pkginit":
            out.append(["import", ["pkg"], None]); sc.names["pkg"] = ("mod", tgt)
        elif fi.kind == "pkgsub":
            leafn = fi.path[-1]
            if sc.rel_kind == "pkg":
                if self.chance(0.5):
                    out.append(["fromdot", 1, leafn, None]); sc.names[leafn] = ("mod", tgt)
                elif exported:
                    n, k = self.pick(exported)
                    out.append(["from", [leafn], 1, [[n, None]]]); sc.names[n] = k
                self.tags.add("relative")
            elif "pkg" in self.files and any(v == ("mod", "pkg") for v in sc.names.values()):
                explicit = self.files["pkg"].names.get(leafn) == ("mod", tgt)
                if exported and (self.chance(0.5) or not explicit):
                    n, k = self.pick(exported)
                    out.append(["from", ["pkg", leafn], 0, [[n, n + "3"]]])
                    # a submodule with relative imports that is first reached by its dotted name fails to load
                    # (finding C11-F4): the name is then unbound, so nothing generated later may rely on it
                    if not has_relative_from_submodule({"files": [[fi.path, fi.body]]}):
                        sc.names[n + "3"] = k
                elif explicit:
                    # (`from pkg import sub` without such a binding is an implicit submodule import in CPython and an
                    # AttributeError in pyscript - import mechanics outside C11, not generated)
                    out.append(["from", ["pkg"], 0, [[leafn, None]]]); sc.names[leafn] = ("mod", tgt)
                self.tags.add("dotted-from")
        elif fi.kind == "appsub":
            leafn = fi.path[-1]
            if sc.rel_kind == "app":
                if self.chance(0.5) or not exported:
                    out.append(["fromdot", 1, leafn, None]); sc.names[leafn] = ("mod", tgt)
                else:
                    n, k = self.pick(exported)
                    out.append(["from", [leafn], 1, [[n, None]]]); sc.names[n] = k
                self.tags.add("relative")
        return out

    # -------------------------------------------------------------- importable files
    def gen_file(self, fid, path, kind, rel_kind, importable, fails=False):
        rng = self.rng
        fi = FileInfo(fid, path, kind)
        self.files[fid] = fi
        sc = Scope(fid, False, rel_kind)
        body = []
        for v in rng.sample(GVARS + ["_p"], rng.randrange(1, 4)):
            body.append(["assign", v, L(rng.randrange(1, 40))]); sc.names[v] = ("int",)
        for tgt in importable:
            if self.chance(0.6):
                body += self.import_stmts(sc, tgt)
        sc.pending = set(rng.sample(FNAMES, rng.randrange(1, 3)))
        for fn in sorted(sc.pending):
            f, k = self.gen_func(sc, fn)
            sc.pending.discard(fn)
            body.append(["def", fn, f]); sc.names[fn] = k
        for _ in range(rng.randrange(0, 3)):
            c = self.callables(sc)
            if c and self.chance(0.7):
                at, k = self.pick(c)
                args = []
                for i in range(k[1]):
                    leafs = [V(nm) for nm, kk in self.fns(sc) if kk[1] == 0 and kk[3]]
                    args.append(self.pick(leafs) if (k[2] == i and leafs) else L(rng.randrange(5)))
                body.append(["try", [["call", "r", at, args]], [["assign", "e", L(1)]]])
            elif self.mods(sc):
                alias, k = self.pick(self.mods(sc))
                body.append(["setattr", alias, self.pick(GVARS), L(rng.randrange(60, 70))])
        if fails:
            body.append(["raise", 3])
            fi.fails = True
        fi.body = body
        fi.names = {} if fails else dict(sc.names)
        self.order.append(fid)
        return fi

    # -------------------------------------------------------------- main contexts
    def gen_main_ops(self, idx, label, rel_kind, others):
        rng = self.rng
        sc = Scope(label, True, rel_kind)
        ops = []
        for v in rng.sample(GVARS, rng.randrange(1, 4)):
            ops.append(["assign", v, L(100 * (idx + 1) + rng.randrange(1, 40))]); sc.names[v] = ("int",)
        targets = [f for f in self.order]
        rng.shuffle(targets)
        # a package is imported before its submodules are reached through it
        targets.sort(key=lambda f: 0 if self.files[f].kind == "pkginit" else 1)
        for tgt in targets[: rng.randrange(1, len(targets) + 1)]:
            ops += self.import_stmts(sc, tgt)
        if self.chance(0.1):
            ops.append(["import", ["nosuchmod"], None]); self.tags.add("missing-module")
        sc.pending = set(rng.sample(FNAMES, rng.randrange(0, 3)))
        for fn in sorted(sc.pending):
            f, k = self.gen_func(sc, fn)
            sc.pending.discard(fn)
            ops.append(["def", fn, f]); sc.names[fn] = k
        for _ in range(rng.randrange(2, 6)):
            c = self.callables(sc)
            r = rng.random()
            if c and r < 0.7:
                at, k = self.pick(c)
                n = k[1] if not self.chance(0.07) else k[1] + 1
                args = []
                for i in range(n):
                    leafs = [V(nm) for nm, kk in self.fns(sc) if kk[1] == 0 and kk[3]]
                    args.append(self.pick(leafs) if (k[2] == i and leafs) else L(rng.randrange(5)))
                if self.chance(0.2):
                    ops.append(["spawn", False, at, args]); self.tags.add("task.create")
                else:
                    ops.append(["call", self.pick(["r", "q", "w"]), at, args])
                if at[0] == "attr":
                    self.tags.add("cross-call")
            elif self.mods(sc) and r < 0.85:
                alias, k = self.pick(self.mods(sc))
                ops.append(["setattr", alias, self.pick(GVARS), L(rng.randrange(70, 80))]); self.tags.add("module-attr-write")
            elif self.ints(sc):
                ops.append(["add", self.pick(GVARS), V(self.pick(self.ints(sc))), L(1)])
        if others and self.chance(0.12):
            ops.append(["setctx", self.pick(others)])
            ops.append(["assign", "sx", L(idx + 1)])
            ops.append(["add", "sy", V("sx"), L(1)])
            ops.append(["setctx", label.split(".")])
            self.tags.add("setctx")
        return ops

    def build(self):
        rng = self.rng
        layout = rng.randrange(6)
        mains = [("file.s1", None, None)]
        if layout in (1, 3, 5) or self.chance(0.3):
            mains.append(("file.s2", None, None))
        use_app = layout in (2, 3)
        use_pkg = layout in (4, 5)
        self.gen_file("m1", ["modules", "m1"], "mod", None, [])
        if self.chance(0.6):
            self.gen_file("m2", ["modules", "m2"], "mod", None, ["m1"])
        if self.chance(0.15):
            self.gen_file("bad", ["modules", "bad"], "mod", None, ["m1"], fails=True)
        if use_pkg:
            self.gen_file("pkg.sib", ["modules", "pkg", "sib"], "pkgsub", "pkg", [])
            # (a relative import from sub to sib is the shape of finding C11-F1: rare in random cases)
            self.gen_file("pkg.sub", ["modules", "pkg", "sub"], "pkgsub", "pkg", ["pkg.sib"] if self.chance(0.12) else [])
            self.gen_file("pkg", ["modules", "pkg", "__init__"], "pkginit", "pkg", ["pkg.sub", "pkg.sib", "m1"])
        if use_app:
            self.gen_file("app.other", ["apps", "app1", "other"], "appsub", "app", [])
            self.gen_file("app.helper", ["apps", "app1", "helper"], "appsub", "app",
                          (["app.other"] if self.chance(0.12) else []) + ["m1"])
            mains.append(("apps.app1", ["apps", "app1", "__init__"], "app"))
        per = []
        for i, (label, rel, rk) in enumerate(mains):
            others = [m[0].split(".") for m in mains if m[0] != label]
            per.append([["run", i, s] for s in self.gen_main_ops(i, label, rk, others)])
        ops = []
        while any(per):
            i = self.pick([k for k, q in enumerate(per) if q])
            ops.append(per[i].pop(0))
        return {"kind": "interp", "tag": "random", "funcs": self.funcs,
                "files": [[self.files[f].path, self.files[f].body] for f in self.order],
                "ctxs": [[m[0].split("."), m[1]] for m in mains], "ops": ops,
                "tags": sorted(self.tags)}


# --------------------------------------------------------------------------------------------- HA family
HA_WRAP = '''
@service
def svc_{i}(a=None):
    {w}(a)

@event_trigger("ev_{i}")
def trg_{i}(a=None, **kw):
    {w}(a)

@state_trigger("pyscript.v_{i}")
def st_{i}(value=None, **kw):
    {w}(int(value))

@service
def tsk_{i}(a=None):
    task.create({w}, a)

@event_trigger("ov_{i}")
def otrg_{i}(a=None, d=None, **kw):
    v{i}(a, d)
'''
HA_SKIP = ("svc_", "trg_", "st_", "tsk_", "otrg_")


def gen_ha_case(rng):
    """whole files loaded by the real load_scripts; entry functions reached through service calls, event and state
    triggers and task.create.  Top-level statements of main files never raise (a failing main file is C18's topic)."""
    g = ProgGen(rng)
    g.gen_file("m1", ["modules", "m1"], "mod", None, [])
    if g.chance(0.5):
        g.gen_file("m2", ["modules", "m2"], "mod", None, ["m1"])
    # a module function that suspends: two callers from different files are inside it at the same time
    slow_fid = len(g.funcs)
    g.funcs.append(["slow", ["d"], ["cnt"], [["add", "cnt", V("cnt"), L(1)], ["sleep", V("d")], ["ret", V("d")]]])
    g.files["m1"].body += [["assign", "cnt", L(0)], ["def", "slow", slow_fid]]
    mains = [("file.s1", ["s1"], None, None), ("file.s2", ["s2"], None, None)]
    if g.chance(0.4):
        g.gen_file("app.other", ["apps", "app1", "other"], "appsub", "app", [])
        mains.insert(0, ("apps.app1", ["apps", "app1", "__init__"], ["apps", "app1", "__init__"], "app"))
    ctxs, bodies, entries = [], [], []
    for i, (label, path, rel, rk) in enumerate(mains):
        sc = Scope(label, True, rk)
        body = []
        for v in rng.sample(GVARS, rng.randrange(1, 4)):
            body.append(["assign", v, L(100 * (i + 1) + rng.randrange(1, 40))]); sc.names[v] = ("int",)
        tg = list(g.order)
        rng.shuffle(tg)
        for tgt in tg[: rng.randrange(1, len(tg) + 1)]:
            body += g.import_stmts(sc, tgt)
        sc.pending = set(rng.sample(FNAMES, rng.randrange(1, 3)))
        for fn in sorted(sc.pending):
            f, k = g.gen_func(sc, fn)
            sc.pending.discard(fn)
            body.append(["def", fn, f]); sc.names[fn] = k
        # the entry function: one parameter, writes a global, calls across files
        cands = g.callables(sc)
        eb = [["add", "x", V("a"), L(i)]]
        for _ in range(rng.randrange(1, 4)):
            if cands:
                at, k = g.pick(cands)
                args = [V("a") if g.chance(0.5) else L(rng.randrange(5)) for _ in range(k[1])]
                st = ["call", "r", at, args]
                eb.append(st if g.chance(0.7) else ["try", [st], []])
        if g.chance(0.25):
            eb.append(["raise", 5])
        fid = len(g.funcs)
        g.funcs.append([f"w{i}", ["a"], ["x"], eb])
        body.append(["def", f"w{i}", fid])
        # the overlapping entry: a local before the cross-file call that suspends, used after it
        body.append(["import", ["m1"], "msl"])
        fid = len(g.funcs)
        g.funcs.append([f"v{i}", ["a", "d"], ["ov"], [["add", "t", V("a"), L(10 * (i + 1))],
                                                       ["call", "r", A("msl", "slow"), [V("d")]],
                                                       ["add", "ov", V("t"), V("r")]]])
        body.append(["def", f"v{i}", fid])
        ctxs.append([label.split("."), rel])
        bodies.append((path, body))
        entries.append(i)
    events = []
    for _ in range(rng.randrange(3, 8)):
        i = g.pick(entries)
        events.append([g.pick(["service", "event", "state", "task"]), i, rng.randrange(1, 30)])
    # one or two pairs of overlapping runs: the first caller sleeps longer, so the LATER one returns first
    for _ in range(rng.randrange(1, 3)):
        i, j = rng.sample(entries, 2)
        events.insert(rng.randrange(len(events) + 1), ["pair", i, [j, rng.randrange(1, 30), rng.randrange(20, 40), rng.randrange(2, 12)]])
    ops = []
    for i, (path, body) in enumerate(bodies):
        ops += [["run", i, s] for s in body]
    seen_state = {}
    evs = []
    for kind, i, a in events:
        if kind == "pair":
            j, av, d1, d2 = a
            ops.append(["run", i, ["spawn", True, V(f"v{i}"), [L(av), L(d1)]]])
            ops.append(["run", j, ["spawn", True, V(f"v{j}"), [L(av + 1), L(d2)]]])
            evs.append([kind, i, a])
            continue
        if kind == "state" and seen_state.get(i) == a:
            a += 1                        # a state trigger needs a change of value
        if kind == "state":
            seen_state[i] = a
        ops.append(["run", i, ["spawn", kind != "task", V(f"w{i}"), [L(a)]]])
        evs.append([kind, i, a])
    return {"kind": "ha", "tag": "ha", "funcs": g.funcs, "files": [[g.files[f].path, g.files[f].body] for f in g.order],
            "ctxs": ctxs, "mainfiles": [[p, b] for p, b in bodies], "events": evs, "ops": ops,
            "tags": sorted(g.tags | {"ha"} | {"entry-" + e[0] for e in evs})}


def gen_reload_case(rng):
    """a history, not a program: load -> edit ONE leaf module that every file imports directly or through other modules
    -> pyscript.reload.  Everything that imports the edited module (transitively) has to be loaded again, so afterwards
    the registered contexts must look like a fresh load of the final files (the CPython oracle imports those): one
    instance of every module, no file still holding the old one.  Dimensions: length of the chain of intermediate
    modules on either side, import spelling, which side writes state into the leaf, a bystander module."""
    na, nb = rng.choice([1, 1, 2]), rng.choice([0, 0, 1])        # intermediates between s1 / s2 and the leaf
    v1, v2 = rng.randrange(1, 9), rng.randrange(11, 19)
    leaf = "lf"
    files_final, initial = [], {}

    def use_leaf(via, k):
        sp = rng.choice(["import", "as", "from"])
        if sp == "import":
            return [["import", [via], None], ["add", "t", A(via, "cnt"), L(k)], ["setattr", via, "cnt", V("t")],
                    ["assign", "ver", A(via, "VERSION")]]
        if sp == "as":
            return [["import", [via], "q"], ["add", "t", A("q", "cnt"), L(k)], ["setattr", "q", "cnt", V("t")],
                    ["assign", "ver", A("q", "VERSION")]]
        return [["from", [via], 0, [["VERSION", "ver"]]], ["import", [via], "q2"], ["add", "t", A("q2", "cnt"), L(k)],
                ["setattr", "q2", "cnt", V("t")]]

    files_final.append([["modules", leaf], [["assign", "VERSION", L(v2)], ["assign", "cnt", L(0)]]])
    initial["modules/" + leaf + ".py"] = [["assign", "VERSION", L(v1)], ["assign", "cnt", L(0)]]
    chains = []
    for side, n in (("a", na), ("b", nb)):
        names = [f"{side}{k}" for k in range(n)]
        below = leaf
        for k, nm in enumerate(reversed(names)):
            body = use_leaf(below, 10 * (k + 1)) if below == leaf else [["import", [below], None], ["assign", "ver", A(below, "ver")]]
            files_final.append([["modules", nm], body])
            below = nm
        chains.append(below)
    if rng.random() < 0.4:
        files_final.append([["modules", "by"], [["assign", "quiet", L(7)]]])       # a bystander nobody reloads
        bystander = True
    else:
        bystander = False
    bodies = []
    for i, top in enumerate(chains):
        body = [["assign", "x", L(100 * (i + 1))]]
        if top == leaf:
            body += use_leaf(leaf, i + 1)
        else:
            body += [["import", [top], None], ["assign", "seen", A(top, "ver")]]
        if bystander and i == 1:
            body += [["import", ["by"], None]]
        bodies.append(([f"s{i + 1}"], body))
    ops = []
    for i, (_, body) in enumerate(bodies):
        ops += [["run", i, st] for st in body]
    return {"kind": "ha", "tag": "reload", "funcs": [], "files": files_final, "initial": initial, "ctxs": [S1, S2],
            "mainfiles": [[pth, b] for pth, b in bodies], "events": [], "ops": ops, "edit": "modules/" + leaf + ".py",
            "tags": ["ha", "reload-leaf", f"chain-{na}-{nb}"] + (["bystander"] if bystander else [])}


def ha_reload_run(p, legacy):
    """load the initial files, rewrite the leaf, pyscript.reload; returns the tables of the REGISTERED contexts (a module
    or function value whose context is no longer registered is shown as STALE)"""
    import ha_env
    from custom_components.pyscript.global_ctx import GlobalContextMgr
    from custom_components.pyscript.eval import EvalFuncVar
    final = {"/".join(path) + ".py": render(p["funcs"], body) for path, body in p["files"]}
    for path, body in p["mainfiles"]:
        final["/".join(path) + ".py"] = render(p["funcs"], body)
    first = dict(final)
    for rel, body in p["initial"].items():
        first[rel] = render(p["funcs"], body)

    async def body(env):
        await env.settle(0.05)
        env.write(p["edit"], final[p["edit"]])
        st = os.stat(os.path.join(env.cfgdir, "pyscript", p["edit"]))
        os.utime(os.path.join(env.cfgdir, "pyscript", p["edit"]), (st.st_atime, st.st_mtime + 5))
        await env.reload()
        await env.settle(0.05)
        reg = {n: g for n, g in GlobalContextMgr.contexts.items() if n.split(".")[0] in ("file", "modules", "apps")}

        def lab(tab):
            for n, g in reg.items():
                if g.global_sym_table is tab:
                    return n
            return None

        def val(v):
            if isinstance(v, types.ModuleType):
                n = lab(v.__dict__)
                return f"mod:{n}" if n else f"mod:STALE:{v.__name__}"
            if isinstance(v, EvalFuncVar):
                f = v.get_func()
                n = lab(f.global_ctx.global_sym_table)
                return f"fn:{n or 'STALE'}:{f.get_name()}"
            if v is None or isinstance(v, (bool, int)):
                return repr(v)
            return f"<{type(v).__name__}>"

        out = []
        for n, g in reg.items():
            if n.startswith("modules.") and g.module is None:
                continue
            items = sorted(f"{k}={val(v)}" for k, v in g.global_sym_table.items()
                           if not (k.startswith("__") and k.endswith("__")) and k not in ("hass", "pyscript.app_config"))
            out.append(f"{n}{{{','.join(items)}}}")
        return " ".join(sorted(out))

    return ha_env.run_ha(first, legacy, body), []


def ha_sources(p):
    files = {}
    for path, body in p["files"]:
        files["/".join(path) + ".py"] = render(p["funcs"], body)
    for i, (path, body) in enumerate(p["mainfiles"]):
        files["/".join(path) + ".py"] = render(p["funcs"], body) + HA_WRAP.format(i=i, w=f"w{i}")
    return files


def ha_run(p, legacy):
    import ha_env
    from custom_components.pyscript.global_ctx import GlobalContext
    created = []
    orig = GlobalContext.__init__

    def tracked(self, *a, **kw):
        orig(self, *a, **kw)
        created.append(self)

    async def body(env):
        await env.settle(0.05)
        for kind, i, a in p["events"]:
            if kind == "pair":
                j, av, d1, d2 = a
                await env.fire(f"ov_{i}", {"a": av, "d": d1}, settle=False)
                await env.fire(f"ov_{j}", {"a": av + 1, "d": d2}, settle=False)
                await env.settle(1.0)
                continue
            if kind == "service":
                await env.call("pyscript", f"svc_{i}", {"a": a})
            elif kind == "task":
                await env.call("pyscript", f"tsk_{i}", {"a": a})
            elif kind == "event":
                await env.fire(f"ev_{i}", {"a": a})
            else:
                await env.set_state(f"pyscript.v_{i}", str(a))
            await env.settle(0.05)
        names = [".".join(n) for n, _ in p["ctxs"]]
        ctxs = [c for c in created if c.get_name() in names or c.module is not None]
        # main contexts first, in the order of p["ctxs"] (labels only depend on duplicates of one name)
        ctxs.sort(key=lambda c: (names.index(c.get_name()) if c.get_name() in names else len(names)))
        out = []
        for g in ctxs:
            items = sorted(f"{k}={_ps_val(ctxs, v)}" for k, v in g.global_sym_table.items()
                           if not (k.startswith("__") and k.endswith("__")) and not k.startswith(HA_SKIP)
                           and k not in ("hass", "pyscript.app_config"))
            out.append(f"{_label(ctxs, g)}{{{','.join(items)}}}")
        return " ".join(sorted(out))

    if p.get("tag") == "reload":
        return ha_reload_run(p, legacy)
    GlobalContext.__init__ = tracked
    install_call_probe()
    del _call_viol[:]
    try:
        extra = {"apps": {"app1": {}}} if any(n[0] == "apps" for n, _ in p["ctxs"]) else None
        tabs = ha_env.run_ha(ha_sources(p), legacy, body, extra_cfg=extra)
        return tabs, list(_call_viol)
    finally:
        GlobalContext.__init__ = orig


def ha_oracle(p):
    """CPython: the same files imported / executed as modules, entry functions called directly"""
    root = tempfile.mkdtemp(prefix="pysc_c11o_")
    try:
        write_tree(root, p)
        q = dict(p)
        q["ops"] = [o for o in p["ops"]]
        outs, tabs = py_run(q, root)
        return tabs
    finally:
        shutil.rmtree(root, ignore_errors=True)


# --------------------------------------------------------------------------------------------- the check
def gen_cases(rng, tier, search):
    n_rand = 500 if tier == "quick" else 5000
    n_ha = 30 if tier == "quick" else 250
    if search:
        n_rand, n_ha = n_rand * 3, n_ha * 2
    cases = []
    for sc in scenarios():
        cases.append(Case(sc, None if sc.get("no_model") else to_line(sc), tags=("scenario", sc["tag"])))
    for _ in range(6 if tier == "quick" else 40):
        for mk in (deep_pkg_case, star_all_case, two_spellings_case, fnflow_case, ctxapi_case):
            p = mk(rng)
            cases.append(Case(p, to_line(p), tags=tuple(["interp", p["tag"]] + p["tags"])))
    for _ in range(12 if tier == "quick" else 60):
        for mk in (reentrant_case, overlap_case, deep_setctx_case):
            p = mk(rng)
            cases.append(Case(p, to_line(p), tags=tuple(["interp", p["tag"]] + p["tags"])))
    for _ in range(n_rand):
        p = ProgGen(rng).build()
        if rng.random() < 0.35:
            # boundary names: prefixes of each other, case-only differences, script/module with one base name, names
            # that shadow builtins
            tag, mapping = RENAMES[rng.randrange(len(RENAMES))]
            p = rename_ids(p, mapping)
            p["tags"] = sorted(set(p["tags"]) | {"rename:" + tag})
        cases.append(Case(p, to_line(p), tags=tuple(["interp"] + p["tags"])))
    for k in range(n_ha + (8 if tier == "quick" else 60) * (2 if search else 1)):
        p = gen_ha_case(rng) if k < n_ha else gen_reload_case(rng)
        for legacy in (True, False):
            q = dict(p)
            q["legacy"] = legacy
            cases.append(Case(q, to_line(q), tags=tuple(p["tags"] + ["legacy" if legacy else "new"])))
    return cases


def _run_one(payload, scale=1):
    """one case on the real code.  A cut by a guard is reported as {"guard": kind} together with the cut result; it is
    not an outcome until the case was run again, alone, with a ten times larger budget (run_impl)."""
    try:
        _guard["kind"] = None
        if payload["kind"] == "ha":
            signal.signal(signal.SIGPROF, _on_alarm)
            signal.setitimer(signal.ITIMER_PROF, 300.0 * scale)          # safety net: process CPU time
            cviol = []
            try:
                tabs, cviol = ha_run(payload, payload["legacy"])
            except _WallTimeout:
                tabs = "diverges"
            finally:
                signal.setitimer(signal.ITIMER_PROF, 0)
            orc = ha_oracle(payload)
            return {"impl_tabs": tabs, "oracle_tabs": orc, "call_restore": cviol, "guard": _guard["kind"]}
        impl, orc, restored, cviol, probe = run_three(payload, scale)
        return {"impl": impl, "oracle": orc, "restored": restored, "call_restore": cviol, "probe": probe,
                "guard": _guard["kind"]}
    except BaseException as e:  # pylint: disable=broad-except
        import traceback
        return {"crash": f"{type(e).__name__}: {e}", "tb": traceback.format_exc()[-1500:]}


GUARD_STATS = {"cut_in_first_run": 0, "resolved_by_rerun_alone": 0, "confirmed_by_rerun_alone": 0, "inconclusive": 0}


def run_impl(cases):
    res = common.pmap(_run_one, [c.payload for c in cases], chunk=8)
    for k, (c, r) in enumerate(zip(cases, res)):
        if r.get("guard"):
            # a guard cut this case while 12 workers shared the machine: run it again, ALONE, with 10x the budget.
            # Only a cut that repeats is an outcome; the step budget is load independent, the CPU / wall-clock nets
            # are not: a repeated cut by a net alone is reported as inconclusive, never as a verdict.
            GUARD_STATS["cut_in_first_run"] += 1
            r2 = _run_one(c.payload, scale=10)
            if "crash" in r2 or not r2.get("guard"):
                GUARD_STATS["resolved_by_rerun_alone"] += 1
                res[k] = r = r2
            elif r2["guard"] == "steps":
                GUARD_STATS["confirmed_by_rerun_alone"] += 1
                res[k] = r = r2
            else:
                GUARD_STATS["inconclusive"] += 1
                r2["inconclusive"] = f"cut by the {r2['guard']} safety net twice (second time alone, 10x budget)"
                res[k] = r = r2
    for c, r in zip(cases, res):
        if "crash" in r:
            raise RuntimeError(f"harness crash on a case: {r['crash']}\n{r['tb']}")
        c.payload["_run"] = r
        if r.get("inconclusive"):
            c.line = None                 # no tie, no verdict: see verdict()
            c.impl = "inconclusive"
            continue
        if c.payload["kind"] == "ha":
            c.impl = r["impl_tabs"]
        else:
            c.impl = r["impl"]


def split(outline):
    if not outline.startswith("model="):
        return outline, None
    i = outline.rfind(" spec=")
    return outline[len("model="):i], outline[i + len(" spec="):]


def _strip_ptrs(s):
    head, sep, tabs = s.partition(" | ")
    return " ".join(x.split("@")[0] for x in head.split(" ")) + sep + tabs


_orig_execute = common._execute


def _execute(mod, cases, br):
    """HA-family cases only have the tables (no per-statement outcomes): compare with the model's table part"""
    _orig_execute(mod, cases, br)
    if mod.PROP != PROP:
        return
    for c in cases:
        if c.payload["kind"] == "ha" and c.model and " | " in c.model:
            c.model = c.model.split(" | ", 1)[1]


common._execute = _execute


def verdict(c):
    r = c.payload.get("_run", {})
    if r.get("inconclusive"):
        return None
    deep = c.payload.get("switch_ops") or {}
    if r.get("call_restore") and not deep:
        return "evaluator pointers not restored after a call: " + r["call_restore"][0]
    if c.payload["kind"] == "ha":
        if r["impl_tabs"] != r["oracle_tabs"]:
            return "global tables differ from CPython (HA family): " + _first_diff(r["impl_tabs"], r["oracle_tabs"])
        return None
    impl, orc = _strip_ptrs(r["impl"]), r["oracle"]
    # pointers after every top-level statement == pointers before it (except the documented switch)
    ops = [o for o in c.payload["ops"]]
    for k, (o, pr) in enumerate(zip(ops, r["restored"])):
        if pr is None or o[0] != "run" or o[2][0] == "setctx":
            continue
        if str(k) in deep:
            # a set_global_ctx(T) was executed some calls below this statement: back at the top level every pointer
            # must designate T (documented context switch)
            t = deep[str(k)]
            if pr[1] != f"{t}/{t}/G:{t}/0":
                return f"after set_global_ctx({t}) executed at call depth >= 2 the evaluator's pointers are {pr[1]}"
            continue
        if pr[0] != pr[1]:
            return f"evaluator pointers not restored after statement {o[2][0]}: {pr[0]} -> {pr[1]}"
    if impl != orc:
        return "differs from CPython: " + _first_diff(impl, orc)
    pb = r.get("probe") or {}
    if pb.get("ps", {}) != pb.get("py", {}):
        a, b = pb.get("ps", {}), pb.get("py", {})
        k = sorted(x for x in set(a) | set(b) if a.get(x) != b.get(x))[0]
        return f"context function result differs: {k} pyscript {a.get(k)!r} expected {b.get(k)!r}"
    return None


def _first_diff(a, b):
    if a.split(" | ")[0] != b.split(" | ")[0]:
        xs, ys = a.split(" | ")[0].split(" "), b.split(" | ")[0].split(" ")
        for i, (x, y) in enumerate(zip(xs, ys)):
            if x != y:
                return f"statement {i}: pyscript {x}, CPython {y}"
        return f"outcome lists {len(xs)} vs {len(ys)}"
    ta = {t.split("{")[0]: t for t in a.split(" | ")[-1].split(" ")}
    tb = {t.split("{")[0]: t for t in b.split(" | ")[-1].split(" ")}
    for k in sorted(set(ta) | set(tb)):
        if ta.get(k) != tb.get(k):
            return f"table {k}: pyscript {ta.get(k)} CPython {tb.get(k)}"
    return "?"


def classify(c, reason):
    p = c.payload
    r = p.get("_run", {})
    if "pointers not restored" in reason:
        return "pointers-not-restored"
    if reason.startswith("after set_global_ctx("):
        return "pointers-wrong-after-set_global_ctx-below-top-level"
    impl = r.get("impl") or r.get("impl_tabs") or ""
    orc = r.get("oracle") or r.get("oracle_tabs") or ""
    il = {t.split("{")[0] for t in impl.split(" | ")[-1].split(" ")}
    ol = {t.split("{")[0] for t in orc.split(" | ")[-1].split(" ")}
    if any(o[0] == "race" for o in p["ops"]) and "race:" in impl and any("#" in x for x in il):
        return "concurrent-first-import-duplicate-module"
    if "diverges" in impl and "diverges" not in orc and _import_cycle(p):
        return "import-cycle-never-terminates"
    extra = il - ol
    if extra and has_relative_from_submodule(p) and all(_is_misnamed(x, ol) for x in extra):
        return "relative-import-from-submodule-wrong-context-name"
    if p.get("tag") == "shadow-pyscript-function" and "table " in reason and "<method>" in impl:
        return "global-named-like-a-pyscript-function-hidden-inside-functions"
    if p.get("has_all") and "table " in reason:
        return "star-import-ignores-__all__"
    if "table " in reason and re.search(r"[{,][A-Za-z_0-9]+\.[A-Za-z_0-9.]+=", impl.split(" | ")[-1]) and has_dotted_import(p):
        return "import-of-dotted-name-binds-the-dotted-string"
    if "statement " in reason and "pyscript ImportError, CPython ok" in reason and has_relative_from_submodule(p) \
            and has_dotted_from(p):
        return "relative-import-fails-in-submodule-imported-by-dotted-name"
    return "tables-differ" if "table " in reason else "outcome-differs"


def _is_misnamed(label, oracle_labels):
    """pkg.sub.sib (pyscript) for pkg.sib (CPython): drop the importer's own last segment"""
    segs = label.split("#")[0].split(".")
    return len(segs) >= 3 and ".".join(segs[:-2] + segs[-1:]) in oracle_labels


def has_relative_from_submodule(p):
    def rel_in(b):
        return any((s[0] == "fromdot" and s[1] >= 1) or (s[0] == "from" and s[2] >= 1) or
                   (s[0] == "try" and (rel_in(s[1]) or rel_in(s[2]))) for s in b)
    return any(path[-1] != "__init__" and rel_in(b) for path, b in p["files"])


def has_dotted_import(p):
    def dotted(b):
        return any((s[0] == "import" and len(s[1]) > 1 and not s[2]) or (s[0] == "try" and (dotted(s[1]) or dotted(s[2])))
                   for s in b)
    return any(dotted(f[3]) for f in p["funcs"]) or any(dotted(b) for _, b in p["files"]) or \
        dotted([o[2] for o in p["ops"] if o[0] == "run"])


def has_dotted_from(p):
    def dotted(b):
        return any((s[0] == "from" and s[2] == 0 and len(s[1]) > 1) or (s[0] == "import" and len(s[1]) > 1) or
                   (s[0] == "try" and (dotted(s[1]) or dotted(s[2]))) for s in b)
    return any(dotted(f[3]) for f in p["funcs"]) or any(dotted(b) for _, b in p["files"]) or \
        dotted([o[2] for o in p["ops"] if o[0] == "run"])


def _import_cycle(p):
    edges = {}
    for path, b in p["files"]:
        edges[path[-1]] = {s[1][0] for s in b if s[0] == "import"}
    return any(a in edges.get(b, ()) for a, bs in edges.items() for b in bs)


def replay_cases(obj):
    p = obj["case"]
    p.pop("_run", None)
    return [Case(p, None if p.get("no_model") else to_line(p))]


def shrink(c, reason):
    """drop ops from the end / single ops while the same classification persists"""
    sig = classify(c, reason)
    p = {k: v for k, v in c.payload.items() if k != "_run"}
    if p["kind"] != "interp" or p.get("switch_ops"):
        return c
    best = c
    ops = list(p["ops"])
    i = len(ops) - 1
    budget = 40
    while i >= 0 and budget > 0:
        trial = dict(p)
        trial["ops"] = ops[:i] + ops[i + 1:]
        if trial["ops"]:
            cc = Case(trial, to_line(trial))
            budget -= 1
            try:
                r = _run_one(trial)
                if "crash" not in r:
                    cc.payload["_run"] = r
                    cc.impl = r["impl"]
                    why = verdict(cc)
                    if why and classify(cc, why) == sig:
                        ops = trial["ops"]
                        best = cc
            except Exception:  # pylint: disable=broad-except
                pass
        i -= 1
    if best is not c:
        best.model, best.spec = split(common.drive([best.line])[0])
    return best


def extra_coverage(cases):
    ops = {}
    excs = {}
    for c in cases:
        for o in c.payload["ops"]:
            k = o[2][0] if o[0] == "run" else "race"
            ops[k] = ops.get(k, 0) + 1
        for tok in (c.impl or "").split(" | ")[0].split(" "):
            t = tok.split("@")[0]
            if t and t != "ok":
                excs[t] = excs.get(t, 0) + 1
    return {"guards": dict(GUARD_STATS, note="a case cut by a guard is re-run alone with 10x budget; only a repeated "
                                               "step-budget cut (load independent) counts as divergence"),
            "top_level_statement_kinds": ops, "statement_outcomes_other_than_ok": excs,
            "cases_by_family": {k: sum(1 for c in cases if c.payload["kind"] == k) for k in ("interp", "ha")},
            "spec_column_equals_model_on_setctx_free_cases": sum(
                1 for c in cases if c.payload["kind"] == "interp" and c.spec and c.model
                and not has_stmt(c.payload, "setctx") and _strip_ptrs(c.model) == c.spec)}


if __name__ == "__main__":
    for sc in scenarios():
        impl, orc, rest, _cv, _pb = run_three(sc)
        line = to_line(sc)
        mod = common.drive([line])[0]
        print("==", sc["tag"])
        print(" impl  ", impl)
        print(" model ", mod)
        print(" oracle", orc)
