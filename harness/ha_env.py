"""A real Home Assistant test instance running pyscript from /repo, outside pytest, on a virtual clock.

    from ha_env import run_ha
    def test(): return run_ha({"hello.py": src}, legacy=False, body=body)
    async def body(env): await env.set_state("pyscript.x", "1"); await env.settle(1.0); return list(env.records)

Scripts can call `rec(tag, ...)` (records (vtime, tag, args...) into env.records) and `vtime()`.
"""
import asyncio
import datetime as dt
import gc
import logging
import os
import shutil
import tempfile
from unittest.mock import patch

import common  # noqa: F401
from vclock import VirtualLoop

BASE = dt.datetime(2024, 6, 3, 12, 0, 0)


class Env:
    def __init__(self, hass, loop, cfgdir, legacy):
        self.hass = hass
        self.loop = loop
        self.cfgdir = cfgdir
        self.legacy = legacy
        self.records = []
        self.log = []          # (logger name, level, message) of pyscript loggers

    async def settle(self, dt_s=0.0):
        await self.loop.settle(dt_s)

    async def settle_until(self, t):
        await self.loop.settle_until(t)

    def now(self):
        return self.loop.vnow()

    async def set_state(self, entity, value, attrs=None, settle=True):
        self.hass.states.async_set(entity, value, attrs or {})
        if settle:
            await self.settle(0)

    async def remove_state(self, entity, settle=True):
        self.hass.states.async_remove(entity)
        if settle:
            await self.settle(0)

    async def fire(self, event, data=None, settle=True):
        self.hass.bus.async_fire(event, data or {})
        if settle:
            await self.settle(0)

    async def call(self, domain, service, data=None, blocking=True, return_response=False):
        return await self.hass.services.async_call(domain, service, data or {}, blocking=blocking,
                                                   return_response=return_response)

    def write(self, rel, src):
        p = os.path.join(self.cfgdir, "pyscript", rel)
        os.makedirs(os.path.dirname(p), exist_ok=True)
        with open(p, "w") as f:
            f.write(src)

    def remove(self, rel):
        os.unlink(os.path.join(self.cfgdir, "pyscript", rel))

    async def reload(self, global_ctx=None):
        data = {} if global_ctx is None else {"global_ctx": global_ctx}
        await self.hass.services.async_call("pyscript", "reload", data, blocking=True)
        await self.settle(0)


class _LogTap(logging.Handler):
    def __init__(self, env):
        super().__init__(logging.DEBUG)
        self.env = env

    def emit(self, record):
        try:
            self.env.log.append((record.name, record.levelname, record.getMessage()))
        except Exception:  # pylint: disable=broad-except
            pass


def reset_class_state():
    """pyscript keeps registries in class attributes; clear them between cases (returns what was left over)."""
    from custom_components.pyscript.function import Function
    from custom_components.pyscript.state import State
    from custom_components.pyscript.event import Event
    from custom_components.pyscript.mqtt import Mqtt
    from custom_components.pyscript.webhook import Webhook
    from custom_components.pyscript.global_ctx import GlobalContextMgr
    left = {}
    for cls, names in ((Function, ["unique_task2name", "unique_name2task", "task2context", "our_tasks", "task2cb",
                                   "service_cnt", "service2global_ctx"]),
                       (State, ["notify", "notify_var_last"]),
                       (Event, ["notify", "notify_remove"]),
                       (Mqtt, ["notify", "notify_remove"]),
                       (Webhook, ["notify", "notify_remove"]),
                       (GlobalContextMgr, ["contexts", "contexts_to_delete"])):
        for n in names:
            v = getattr(cls, n, None)
            if v:
                left[f"{cls.__name__}.{n}"] = len(v)
                v.clear()
    GlobalContextMgr.name_seq = 0
    return left


async def _with_pyscript(files, legacy, body, extra_cfg, vnow_tick):
    from pytest_homeassistant_custom_component.common import async_test_home_assistant
    from homeassistant.setup import async_setup_component
    from homeassistant import loader
    from homeassistant.const import EVENT_HOMEASSISTANT_STARTED

    loop = asyncio.get_running_loop()
    cfgdir = tempfile.mkdtemp(prefix="pysc_verif_")
    tick = [0]

    def vnow():
        # strictly increasing: 1 microsecond per call (a frozen clock makes once(now) re-fire forever)
        tick[0] += 1
        return BASE + dt.timedelta(seconds=loop.time() - VirtualLoop.T0, microseconds=tick[0] if vnow_tick else 0)

    try:
        os.makedirs(os.path.join(cfgdir, "pyscript"), exist_ok=True)
        for rel, src in files.items():
            p = os.path.join(cfgdir, "pyscript", rel)
            os.makedirs(os.path.dirname(p), exist_ok=True)
            with open(p, "w") as f:
                f.write(src)
        async with async_test_home_assistant(loop, config_dir=cfgdir) as hass:
            hass.data.pop(loader.DATA_CUSTOM_COMPONENTS, None)
            cfg = {"allow_all_imports": True, "legacy_decorators": legacy}
            cfg.update(extra_cfg or {})
            config = {"pyscript": cfg}
            env = Env(hass, loop, cfgdir, legacy)
            tap = _LogTap(env)
            plog = logging.getLogger("custom_components.pyscript")
            plog.addHandler(tap)
            plog.setLevel(logging.DEBUG)
            plog.propagate = False
            with patch("custom_components.pyscript.trigger.dt_now", vnow), \
                 patch("custom_components.pyscript.trigger.time.monotonic", loop.time), \
                 patch("homeassistant.config.load_yaml_config_file", return_value=config), \
                 patch("custom_components.pyscript.watchdog_start", return_value=None):
                from custom_components.pyscript.function import Function
                ok = await async_setup_component(hass, "pyscript", config)
                if not ok:
                    raise RuntimeError("pyscript setup failed")

                def rec(*args):
                    env.records.append((loop.vnow(),) + tuple(args))

                Function.register({"rec": rec, "vtime": loop.vnow})
                env.config = config
                hass.bus.async_fire(EVENT_HOMEASSISTANT_STARTED)
                await loop.settle(0.001)
                try:
                    return await body(env)
                finally:
                    plog.removeHandler(tap)
                    await hass.async_stop(force=True)
    finally:
        shutil.rmtree(cfgdir, ignore_errors=True)


def run_ha(files, legacy, body, extra_cfg=None, vnow_tick=True):
    """Run `await body(env)` against a fresh HA + pyscript instance; returns body's result."""
    logging.disable(logging.NOTSET)
    logging.getLogger().setLevel(logging.CRITICAL)
    loop = VirtualLoop()
    asyncio.set_event_loop(loop)
    reset_class_state()
    try:
        return loop.run_until_complete(_with_pyscript(files, legacy, body, extra_cfg, vnow_tick))
    finally:
        try:
            loop.run_until_complete(loop.shutdown_asyncgens())
        except Exception:  # pylint: disable=broad-except
            pass
        loop.close()
        gc.collect()
