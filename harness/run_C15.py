"""C15 – task.wait_until returns for the first qualifying trigger and always cleans up.

One scenario = argument combination of `task.wait_until` (state_trigger with/without state_check_now, absolute or
now-relative or expired time_trigger, event_trigger with/without filter, mqtt_trigger, timeout incl. 0, expressions
that raise or do not parse) x a timed history around the call on the virtual clock (state changes and events before
and after the call, after the return) x cancellation of the waiting task (`task.cancel`, the reaper path `task.unique`
uses) at one of the enumerated instants x pre-existing subscribers of the same variable / event / topic.
Every scenario runs under BOTH subsystems.

* tie: the same scenario is given to the Lean machines (`Legacy.runAt` / `New.runAt` through `verifdrv`); exit kind,
  returned trigger, virtual exit time and the tables afterwards must be equal;
* property (verdict): an independent Python oracle computes the specified exit (first of check-now / first decisive
  occurrence / deadline anchored at the call) and demands tables after == tables before on EVERY ended exit
  (return, exception, cancellation).  All former deviations are fixed in /repo (C15-F1/F4 a3cf272, F2 d8d17a4,
  F3 74d9745, F5 3b0ef9c, F6 28f0376, F7 04e4533, F8 'startup'/'shutdown' entries): the oracle demands the repaired
  behaviour, no signature excuses anything, and
  the former witnesses stay in WITNESSES as regression cases.
"""
import json
import re
from unittest.mock import patch

import common
from common import Case, sx

PROP = "C15"
RULE = ("scenario = wait_until arguments (state_trigger expr over one variable with check_now default/True/False, "
        "time_trigger once(absolute, possibly expired)/once(now+d) with 'startup'/'shutdown' words or the empty list, "
        "event_trigger with optional filter, mqtt_trigger, "
        "timeout None/0/1/2.5/4; expressions may raise or fail to parse) x history (<=3 occurrences before, <=6 after "
        "the call, state changes and events on a 0.5 s grid that never coincides with a deadline) x cancellation "
        "(none or at one grid instant; thorough tier: every instant) x pre-existing subscribers; both subsystems. "
        "non-trivial = the call was made and its exit was classified")
ASSUMPTIONS = [
    "cancellation is delivered at the next suspension point (asyncio); the only suspension points of a waiting "
    "wait_until are the queue get / the future",
    "no occurrence coincides with a deadline (grid of the generator: NoTies hypothesis of the theorems)",
    "one watched variable whose value really changes at every state occurrence; state_hold / state_hold_false durations "
    "never tie with an occurrence or another deadline (grid of the generator)",
    "time-trigger parsing (once(...)) is C06's; here only an absolute instant or now+d reaches the model",
    "MQTT/webhook message delivery into the waiter is the C08 machine; here only their subscription life cycle "
    "(mqtt.async_subscribe replaced by a recorder)",
]
TRUSTED = ["harness/run_C15.py (generator, observation of State.notify / Event.notify / Mqtt.notify / bus listeners / "
           "decorator tasks, Python oracle)", "harness/ha_env.py + vclock.py",
           "Drv/C15.lean concrete expression functions (the theorems quantify over arbitrary ones)"]

ABC = 999   # model value standing for the non-numeric state value "abc"


def ms(t):
    return int(round(t * 1000))


# --------------------------------------------------------------------------- expressions
def fn_sx(fn):
    if fn[0] == "raiseat":
        return ["raiseat", fn[1], fn_sx(fn[2])]
    if fn[0] == "truthy":
        return ["ne", 0]                      # the value itself is the result: 0 is falsy, every other int truthy
    if fn[0] == "or":
        return ["or", fn_sx(fn[1]), fn_sx(fn[2])]
    return [fn[0], fn[1]]


def fn_src(fn, var):
    op = {"gt": ">", "ge": ">=", "eq": "==", "ne": "!="}
    if fn[0] == "raiseat":
        return f"(1 // ({var} - {fn[1]})) * 0 == 0 and ({fn_src(fn[2], var)})"
    if fn[0] == "truthy":
        return var
    return f"{var} {op[fn[0]]} {fn[1]}"


def fn_py(fn, v):
    """python reference of the expression; raises like the real expression would"""
    if fn[0] == "raiseat":
        if v == fn[1]:
            raise ZeroDivisionError()
        return fn_py(fn[2], v)
    if fn[0] == "truthy":
        return bool(v)
    if fn[0] == "or":
        a, b = fn_py(fn[1], v), fn_py(fn[2], v)       # any([a, b]): both are evaluated
        return a or b
    return {"gt": v > fn[1], "ge": v >= fn[1], "eq": v == fn[1], "ne": v != fn[1]}[fn[0]]


def state_model_fn(fn):
    return ["raiseat", ABC, fn]      # int("abc") raises


def gen_fn(rng, raising):
    if rng.random() < 0.15:
        return ["truthy"]
    f = [rng.choice(["gt", "ge", "eq", "ne"]), rng.randint(0, 5)]
    if raising and rng.random() < 0.3:
        f = ["raiseat", rng.randint(0, 6), f]
    return f


# --------------------------------------------------------------------------- generator
def gen_scenario(rng):
    cfg = {"state": None, "time": None, "event": None, "mqtt": None, "timeout": None}
    holds = False
    if rng.random() < 0.6:
        cfg["state"] = {"fn": gen_fn(rng, False), "check_now": rng.choice([None, None, True, False]),
                        "parse_ok": rng.random() < 0.95, "hold": None, "hold_false": None}
        if rng.random() < 0.5:
            # state_hold / state_hold_false; the durations never tie with the 0.5 s grid of the history, with the
            # call instant, a cancellation instant or a time/timeout deadline
            holds = True
            r = rng.random()
            if r < 0.45 or r >= 0.8:
                cfg["state"]["hold"] = rng.choice([0.45, 1.45, 2.95])
            if r >= 0.45:
                # 0 and 0.0 are "set" (the expression has to be seen false first), distinct from None
                cfg["state"]["hold_false"] = rng.choice([0, 0.0, 0, 0.4, 0.9, 1.6])
                cfg["state"]["check_now"] = rng.choice([None, True, False, False])
            cfg["state"]["fn"] = [rng.choice(["ge", "gt"]), 3]
            cfg["state"]["parse_ok"] = rng.random() < 0.97
    if rng.random() < 0.4:
        cfg["time"] = ["abs", rng.randint(0, 8)] if rng.random() < 0.6 else ["rel", rng.choice([1.2, 2.7, 3.2])]
    if rng.random() < 0.55:
        cfg["event"] = {"fn": gen_fn(rng, True) if rng.random() < 0.6 else None, "parse_ok": rng.random() < 0.93}
    if rng.random() < 0.2:
        cfg["mqtt"] = {"parse_ok": rng.random() < 0.65}
    if rng.random() < (0.65 if holds else 0.5):
        cfg["timeout"] = rng.choice([1, 2.5, 4, 4] if holds else [0, 0.0, 0.001, 1, 2.5, 4])
    # argument forms: a string, a list of one, (state) a list of two expressions, (time) a list with an expired entry
    if cfg["state"] and not holds and rng.random() < 0.2:
        cfg["state"]["fn2"] = gen_fn(rng, False)
    for k in ("state", "event", "mqtt"):
        if cfg[k] and rng.random() < 0.3:
            cfg[k]["as_list"] = True
    if cfg["time"] and rng.random() < 0.4:
        cfg["time"] = cfg["time"] + [rng.choice(["list", "list+expired"])]
    # 'startup' / 'shutdown' words in the time_trigger list (they denote no instant and are ignored), next to a
    # specification or alone; the empty list
    if cfg["time"] and rng.random() < 0.3:
        r = rng.random()
        cfg["entries"] = {"startup": r < 0.6, "shutdown": r >= 0.4, "front": rng.random() < 0.5}
    elif not cfg["time"] and rng.random() < 0.12:
        r = rng.random()
        cfg["time"] = ["abs", 0, "entries-only"]
        cfg["entries"] = ({"startup": True, "shutdown": False, "empty": True} if r < 0.25 else
                          {"startup": r < 0.7, "shutdown": r >= 0.5, "front": True})
    call = rng.choice([1.1, 2.1])
    tl = []
    v = rng.choice([0, 1, 5, 6]) if holds else rng.randint(0, 6)
    v_init = v
    npre = rng.randint(0, 3)
    npost = rng.randint(0, 6)
    slots_pre = sorted(rng.sample([k * 0.5 + 0.25 for k in range(int(call // 0.5) + 1) if k * 0.5 + 0.25 < call],
                                  min(npre, int(call // 0.5))))
    first_post = int(call // 0.5)
    slots_post = sorted(rng.sample([k * 0.5 + 0.25 for k in range(first_post, first_post + 14)], npost))
    for t in slots_pre + slots_post:
        if holds and rng.random() < 0.8:
            # histories aimed at the holds: runs of true and false evaluations, true -> true changes included
            want_true = rng.random() < 0.55
            pool = [4, 5, 6, 7] if want_true else [0, 1, 2]
            if rng.random() < 0.04:
                pool = [ABC]
            v = rng.choice([x for x in pool if x != v] or [3])
            tl.append([t, ["s", v]])
        elif rng.random() < 0.5:
            nv = rng.choice([x for x in [0, 1, 2, 3, 4, 5, 6, 7, ABC] if x != v] if rng.random() < 0.93 else [ABC] if v != ABC else [3])
            v = nv
            tl.append([t, ["s", v]])
        else:
            tl.append([t, ["e", rng.randint(0, 8)]])
    pre = {"state_fn": rng.random() < 0.3, "event_fn": rng.random() < 0.3, "mqtt_fn": rng.random() < 0.2}
    sc = {"cfg": cfg, "call": call, "v_init": v_init, "timeline": tl, "pre": pre,
          "caller": rng.choice(["trigger", "trigger", "service", "task"])}
    if cfg["timeout"] is not None and rng.random() < 0.25:
        sc["twice"] = True           # the same call made concurrently by two tasks (never cancelled, always ends)
    return sc


def cancel_slots(sc):
    first = int(sc["call"] // 0.5)
    return [k * 0.5 + 0.4 for k in range(first, first + 10)]


def with_cancel(sc, t):
    s = json.loads(json.dumps(sc))
    if t is not None:
        s["timeline"] = sorted(s["timeline"] + [[t, ["c"]]], key=lambda x: x[0])
    return s


def _w(cfg, timeline, call=1.1, v_init=0):
    base = {"state": None, "time": None, "event": None, "mqtt": None, "timeout": None}
    base.update(cfg)
    return {"cfg": base, "call": call, "v_init": v_init, "timeline": timeline,
            "pre": {"state_fn": False, "event_fn": False, "mqtt_fn": False}}


# the witnesses of the `_cex` theorems of Props/C15.lean, replayed on the real code by every run
WITNESSES = [
    _w({"state": {"fn": ["eq", 5], "check_now": None, "parse_ok": True}, "event": {"fn": None, "parse_ok": True}},
       [[1.4, ["c"]]]),                                                              # F1 (fixed a3cf272) / F2 (fixed d8d17a4) (#20)
    _w({"event": {"fn": None, "parse_ok": True}, "timeout": 0}, [[1.75, ["e", 3]]]),  # F3 (#23, fixed 74d9745)
    _w({"timeout": 0}, []),                                                          # F3 (fixed): used to raise RuntimeError
    _w({"event": {"fn": None, "parse_ok": True}, "mqtt": {"parse_ok": False}}, []),   # F4 (fixed a3cf272)
    _w({"event": {"fn": None, "parse_ok": True}, "time": ["abs", 0]}, [[2.25, ["e", 4]]]),   # F5 (fixed 3b0ef9c)
    _w({"time": ["abs", 0], "timeout": 2.5}, [[2.25, ["e", 4]]]),                      # F5 (fixed): expired time + timeout
    _w({"time": ["abs", 0]}, [[2.25, ["e", 4]]]),                                      # expired time trigger alone: none
    _w({"event": {"fn": ["eq", 1], "parse_ok": True}, "time": ["rel", 3.2]}, [[3.25, ["e", 0]]]),   # F6 (fixed 28f0376)
]


def _st(fn, check_now=None, hold=None, hold_false=None):
    return {"fn": fn, "check_now": check_now, "parse_ok": True, "hold": hold, "hold_false": hold_false}


# state_hold against timeout on both sides, true at the call and becoming true later; state_hold_false with a
# too-short false period followed by true -> true changes (the shapes of the seeded changes C15_3 / C15_4)
WITNESSES += [
    _w({"state": _st(["ge", 3], hold=2.95), "timeout": 1}, [], v_init=5),
    _w({"state": _st(["ge", 3], hold=2.95), "timeout": 1}, [[1.25, ["s", 5]]], v_init=0),
    _w({"state": _st(["ge", 3], hold=0.45), "timeout": 2.5}, [[1.25, ["s", 5]], [1.75, ["s", 6]]], v_init=0),
    _w({"state": _st(["ge", 3], hold=1.45), "timeout": 4}, [[1.25, ["s", 5]], [1.75, ["s", 0]], [2.25, ["s", 6]]], v_init=0),
    _w({"state": _st(["ge", 3], check_now=False, hold_false=0.9)},
       [[1.25, ["s", 0]], [1.75, ["s", 5]], [2.75, ["s", 6]], [3.25, ["s", 1]], [4.75, ["s", 5]]], v_init=5),
    _w({"state": _st(["ge", 3], hold_false=0.9), "timeout": 4},
       [[1.25, ["s", 5]], [1.75, ["s", 0]], [2.25, ["s", 5]], [2.75, ["s", 1]], [3.25, ["s", 6]]], v_init=0),
    _w({"state": _st(["ge", 3], hold=0.45, hold_false=0.4)},
       [[1.25, ["s", 5]], [1.75, ["s", 0]], [2.75, ["s", 6]], [3.25, ["s", 7]]], v_init=1),
    # state_hold_false = 0 / 0.0 is "set": false at the call, the first change to true ends the wait (seed C15_5)
    _w({"state": _st(["ge", 3], check_now=False, hold_false=0), "timeout": 2.5}, [[1.25, ["s", 5]], [1.75, ["s", 0]]], v_init=1),
    _w({"state": _st(["ge", 3], check_now=False, hold_false=0.0)}, [[1.75, ["s", 6]]], v_init=0),
    _w({"state": _st(["ge", 3], check_now=False, hold_false=0), "timeout": 4},
       [[1.25, ["s", 6]], [1.75, ["s", 0]], [2.25, ["s", 5]]], v_init=5),
    _w({"state": _st(["ge", 3], hold_false=0, hold=0.45)}, [[1.25, ["s", 5]]], v_init=0),
]


def _raw(tag, call_text, timeline, expect):
    w = _w({}, timeline)
    w.update({"raw_call": call_text, "expect": expect, "tag": tag})
    return w


# argument values the model does not express (negative timeout): judged by the oracle only
ORACLE_ONLY = [
    _raw("neg-timeout", "task.wait_until(event_trigger='e', timeout=-1)", [[2.25, ["e", 4]]], ["ret", 1100, "timeout"]),
    _raw("neg-timeout", "task.wait_until(timeout=-1)", [], ["ret", 1100, "timeout"]),
]

# 'startup' / 'shutdown' entries of the time_trigger list (finding C15-F8, fixed): model-backed regression cases – the
# witnesses of C15_first_regress_new_entries and their neighbours (entry next to a live specification, entries alone
# with and without a timeout, the empty list, a cancelled waiter)
_SU = {"startup": True, "shutdown": False, "front": True}
_SD = {"startup": False, "shutdown": True, "front": True}
_EV = {"fn": None, "parse_ok": True}
WITNESSES += [
    _w({"time": ["abs", 3, "list"], "entries": _SU}, []),
    _w({"time": ["abs", 0, "entries-only"], "entries": _SD, "event": _EV}, [[2.25, ["e", 2]]]),
    _w({"time": ["abs", 0, "entries-only"], "entries": _SU, "event": _EV}, [[2.25, ["e", 2]]]),
    _w({"time": ["abs", 0, "entries-only"], "entries": _SU}, []),
    _w({"time": ["abs", 0, "entries-only"], "entries": {"startup": True, "shutdown": False, "empty": True}}, []),
    _w({"time": ["abs", 0, "entries-only"], "entries": {"startup": True, "shutdown": False, "empty": True}, "timeout": 1}, []),
    _w({"time": ["rel", 2.7, "list"], "entries": _SD, "timeout": 1}, []),
    _w({"time": ["rel", 2.7, "list"], "entries": {"startup": True, "shutdown": True, "front": False}, "event": _EV}, [[1.4, ["c"]]]),
    _w({"time": ["abs", 0, "entries-only"], "entries": _SU, "state": {"fn": ["eq", 5], "check_now": None, "parse_ok": True,
                                                                      "hold": None, "hold_false": None}}, [], v_init=5),
]


def gen_cases(rng, tier, search):
    n = {"quick": 110, "thorough": 800}[tier]
    if search:
        n = {"quick": 300, "thorough": 1200}[tier]
    cases = []
    if not search:
        for w in ORACLE_ONLY:
            for legacy in (True, False):
                p = json.loads(json.dumps(w))
                p["legacy"] = legacy
                cases.append(Case(p, None, tags=("legacy" if legacy else "new", "witness", "oracle-only")))
        for w in WITNESSES:
            for legacy in (True, False):
                p = json.loads(json.dumps(w))
                p["legacy"] = legacy
                cases.append(Case(p, None, tags=("legacy" if legacy else "new", "witness")))
    for _ in range(n):
        sc = gen_scenario(rng)
        if sc.get("twice"):
            variants = [None]
        elif tier == "thorough" and not search:
            variants = [None] + rng.sample(cancel_slots(sc), 3)
        else:
            variants = [rng.choice(cancel_slots(sc)[:7]) if rng.random() < 0.5 else None]
        for ct in variants:
            s = with_cancel(sc, ct)
            for legacy in (True, False):
                p = dict(s)
                p["legacy"] = legacy
                cases.append(Case(p, None, tags=("legacy" if legacy else "new", "cancel" if ct is not None else "nocancel")))
    return cases


def replay_cases(obj):
    p = {k: v for k, v in obj["case"].items() if not k.startswith("_")}
    return [Case(p, None, tags=("legacy" if p.get("legacy") else "new",))]


# --------------------------------------------------------------------------- script
def call_src(cfg):
    args = []
    st = cfg["state"]
    if st:
        src = fn_src(st["fn"], "int(pyscript.v)") if st["parse_ok"] else "pyscript.v =="
        if st.get("fn2") is not None and st["parse_ok"]:
            args.append(f"state_trigger={[src, fn_src(st['fn2'], 'int(pyscript.v)')]!r}")
        elif st.get("as_list"):
            args.append(f"state_trigger={[src]!r}")
        else:
            args.append(f"state_trigger={src!r}")
        if st["check_now"] is not None:
            args.append(f"state_check_now={st['check_now']}")
        if st.get("hold") is not None:
            args.append(f"state_hold={st['hold']}")
        if st.get("hold_false") is not None:
            args.append(f"state_hold_false={st['hold_false']}")
    tm = cfg["time"]
    if tm:
        spec = f"once(2024/6/3 12:00:{tm[1]:02d})" if tm[0] == "abs" else f"once(now + {tm[1]}s)"
        form = tm[2] if len(tm) > 2 else None
        en = cfg.get("entries")
        lst = {"entries-only": [], "list+expired": ['once(2024/6/3 11:59:58)', spec, 'once(2024/6/3 12:00:00)']}.get(form, [spec])
        if en and not en.get("empty"):
            words = (["startup"] if en["startup"] else []) + (["shutdown"] if en["shutdown"] else [])
            lst = (words + lst) if en.get("front") else (words[:1] + lst + words[1:])
        if en or form is not None:
            args.append(f"time_trigger={lst!r}")
        else:
            args.append(f"time_trigger={spec!r}")
    ev = cfg["event"]
    if ev:
        if not ev["parse_ok"]:
            args.append("event_trigger=['e', '1 +']")
        elif ev["fn"] is None:
            args.append("event_trigger=['e']" if ev.get("as_list") else "event_trigger='e'")
        else:
            args.append(f"event_trigger=['e', {fn_src(ev['fn'], 'x')!r}]")
    mq = cfg["mqtt"]
    if mq:
        args.append(("mqtt_trigger=['t1']" if mq.get("as_list") else "mqtt_trigger='t1'") if mq["parse_ok"]
                    else "mqtt_trigger=['t1', '1 +']")
    if cfg["timeout"] is not None:
        args.append(f"timeout={cfg['timeout']}")
    return "task.wait_until(" + ", ".join(args) + ")"


def script_src(p):
    call = p.get("raw_call") or call_src(p["cfg"])
    body = ["    global tid", "    tid = task.current_task()", "    rec('call')", "    try:", f"        r = {call}",
            "        rec('ret', r)", "    except Exception as e:", "        rec('exc', type(e).__name__)", ""]
    caller = p.get("caller", "trigger")
    out = ["tid = None", ""]
    if caller == "service":
        out += ["@service", "def waiter(**kw):"] + body
    elif caller == "task":
        out += ["def waiter():"] + body + ["@event_trigger('go')", "def starter(**kw):", "    task.create(waiter)", ""]
    else:
        out += ["@event_trigger('go')", "def waiter(**kw):"] + body
    if p.get("twice"):
        out += ["@event_trigger('go')", "def waiter2(**kw):", "    try:", f"        r = {call}", "        rec('ret2', r)",
                "    except Exception as e:", "        rec('exc2', type(e).__name__)", ""]
    out += ["@event_trigger('kill')", "def killer(**kw):", "    task.cancel(tid)", ""]
    if p["pre"]["state_fn"]:
        out += ["@state_trigger(\"pyscript.v == '77'\")", "def other_s(**kw):", "    pass", ""]
    if p["pre"]["event_fn"]:
        out += ["@event_trigger('e', 'x == 77')", "def other_e(**kw):", "    pass", ""]
    if p["pre"]["mqtt_fn"]:
        out += ["@mqtt_trigger('t1')", "def other_m(**kw):", "    pass", ""]
    return "\n".join(out)


# --------------------------------------------------------------------------- running the implementation
def val_str(v):
    return "abc" if v == ABC else str(v)


def run_scenario(p):
    import asyncio
    from ha_env import run_ha
    subs = []

    async def fake_subscribe(hass, topic, handler, encoding="utf-8", qos=0):
        ent = (topic, handler)
        subs.append(ent)

        def rm():
            if ent in subs:
                subs.remove(ent)
        return rm

    async def body(env):
        from custom_components.pyscript.event import Event
        from custom_components.pyscript.mqtt import Mqtt
        from custom_components.pyscript.state import State

        def snapshot():
            tasks = [t for t in asyncio.all_tasks() if t.get_name().startswith("@") and not t.done()]
            return [len(State.notify.get("pyscript.v", {})), len(Event.notify.get("e", ())),
                    env.hass.bus.async_listeners().get("e", 0), len(Mqtt.notify.get("t1", ())),
                    sum(1 for t, _ in subs if t == "t1"), len(tasks)]

        await env.set_state("pyscript.v", val_str(p["v_init"]))
        pre = [x for x in p["timeline"] if x[0] < p["call"]]
        post = [x for x in p["timeline"] if x[0] > p["call"]]

        state = {"after": None, "killed": False, "called": False}

        def ended():
            if not state["called"]:
                return False
            first = state["killed"] or any(r[1] in ("ret", "exc") for r in env.records)
            second = not p.get("twice") or any(r[1] in ("ret2", "exc2") for r in env.records)
            return first and second

        def note():
            # the tables "after the task ended": first look after the waiter has returned / raised / been cancelled
            if state["after"] is None and ended():
                state["after"] = snapshot()

        async def play(items):
            for t, it in items:
                await env.settle_until(t)
                note()
                if it[0] == "s":
                    env.hass.states.async_set("pyscript.v", val_str(it[1]))
                elif it[0] == "e":
                    env.hass.bus.async_fire("e", {"x": it[1]})
                else:
                    env.hass.bus.async_fire("kill", {})
                    if state["called"] and not any(r[1] in ("ret", "exc") for r in env.records):
                        state["killed"] = True
                await env.settle(0)
                note()
        await play(pre)
        await env.settle_until(p["call"])
        before = snapshot()
        if p.get("caller") == "service":
            env.hass.async_create_task(env.hass.services.async_call("pyscript", "waiter", {}, blocking=False))
        if p.get("caller") != "service" or p.get("twice"):
            env.hass.bus.async_fire("go", {})
        state["called"] = True
        await env.settle(0)
        note()
        await play(post)
        last = max([p["call"]] + [x[0] for x in p["timeline"]])
        await env.settle_until(last + 14)
        note()
        final = snapshot()
        return {"before": before, "after": state["after"] if state["after"] is not None else final, "final": final,
                "records": [list(r) for r in env.records], "killed": state["killed"]}

    try:
        with patch("homeassistant.components.mqtt.async_subscribe", fake_subscribe):
            return run_ha({"a.py": script_src(p)}, p["legacy"], body)
    except Exception as e:  # pylint: disable=broad-except
        import traceback
        return {"crash": f"{type(e).__name__}: {e} {traceback.format_exc()[-300:]}"}


def canon_exit(p, obs, second=False):
    """(kind, t_ms, detail) from the records"""
    recs = obs["records"]
    if second:
        recs = [[r[0], "call"] for r in recs if r[1] == "call"] + [[r[0], r[1][:-1]] + list(r[2:]) for r in recs
                                                                   if r[1] in ("ret2", "exc2")]
    if not any(r[1] == "call" for r in recs):
        return ("nocall", 0, "")
    for r in recs:
        if r[1] == "ret":
            d = r[2] if isinstance(r[2], dict) else {}
            tt = d.get("trigger_type")
            t = ms(r[0])
            if tt == "state":
                if "value" in d:
                    v = d["value"]
                    return ("ret", t, f"state {ABC if v == 'abc' else int(v)}")
                return ("ret", t, "state -")
            if tt == "event":
                return ("ret", t, f"event {d.get('x')}")
            if tt in ("time", "timeout", "none"):
                return ("ret", t, tt)
            return ("ret", t, f"other {tt}")
        if r[1] == "exc":
            kind = {"SyntaxError": "parse", "RuntimeError": "runtime"}.get(r[2], "eval")
            return ("exc", ms(r[0]), kind)
    cancels = [t for t, it in p["timeline"] if it[0] == "c" and t > p["call"]]
    if cancels:
        return ("cancelled", ms(cancels[0]), "")
    return ("waiting", 0, "")


def show_exit(e):
    k, t, d = e
    if k == "ret":
        return f"(ret {t} {d})"
    if k == "exc":
        return f"(exc {t} {d})"
    if k == "cancelled":
        return f"(cancelled {t})"
    return f"({k})"


def build_line(p, before):
    cfg = p["cfg"]
    st = cfg["state"]
    st_fn = st and (["or", st["fn"], st["fn2"]] if st.get("fn2") is not None else st["fn"])
    st_sx = "none" if not st else ["st", fn_sx(state_model_fn(st_fn)), 0 if st["check_now"] is False else 1,
                                   1 if st["parse_ok"] else 0,
                                   "none" if st.get("hold") is None else ms(st["hold"]),
                                   "none" if st.get("hold_false") is None else ms(st["hold_false"])]
    tm = cfg["time"]
    tm_sx = "none" if not tm else ([tm[0], ms(tm[1])])       # expired list entries never fire: the model sees the live one
    ev = cfg["event"]
    ev_sx = "none" if not ev else ["ev", "nofilt" if ev["fn"] is None else fn_sx(ev["fn"]), 1 if ev["parse_ok"] else 0]
    mq = cfg["mqtt"]
    mq_sx = "none" if not mq else ["mq", 1 if mq["parse_ok"] else 0]
    to_sx = "none" if cfg["timeout"] is None else ms(cfg["timeout"])
    hist = [[ms(t), [it[0]] + ([it[1]] if len(it) > 1 else [])] for t, it in p["timeline"]]
    en = cfg.get("entries")
    en_sx = [["en", 1 if en["startup"] else 0, 1 if en["shutdown"] else 0]] if en else []
    return "C15 " + sx(["L" if p["legacy"] else "N", ["cfg", st_sx, tm_sx, ev_sx, mq_sx, to_sx] + en_sx, ["tb"] + list(before),
                        p["v_init"], ms(p["call"]), ["hist"] + hist])


# --------------------------------------------------------------------------- the property oracle (independent of Lean)
def expected_exit(p):
    """the specified exit for well-formed arguments; None when an expression does not parse"""
    cfg = p["cfg"]
    for k in ("state", "event", "mqtt"):
        if cfg[k] and not cfg[k]["parse_ok"]:
            return None
    call = ms(p["call"])
    v0 = p["v_init"]
    for t, it in p["timeline"]:
        if t < p["call"] and it[0] == "s":
            v0 = it[1]
    st, ev = cfg["state"], cfg["event"]

    def st_eval(v):
        if v == ABC:
            raise ValueError()
        if st.get("fn2") is not None:
            return fn_py(["or", st["fn"], st["fn2"]], v)
        return fn_py(st["fn"], v)

    # ---- the state condition in the terms of the documentation: the expression has to turn true - after having been
    # false for at least state_hold_false, when given; the check at the call is exempt - and to stay true for
    # state_hold.  `cand` = start (and value) of the true period whose hold is running, `false_start` = start of the
    # current false period.
    hold = ms(st["hold"]) if st and st.get("hold") is not None else None
    hf = ms(st["hold_false"]) if st and st.get("hold_false") is not None else None
    check_now = bool(st) and st["check_now"] is not False
    cand = None
    false_start = None
    if st and (check_now or hf is not None):
        try:
            b0 = st_eval(v0)
        except Exception:  # pylint: disable=broad-except
            return ("exc", call, "eval")
        if b0:
            if check_now:
                if hold is None:
                    return ("ret", call, "state -")
                cand = (call, "-")
        elif hf is not None:
            false_start = call
    dls = []
    tm = cfg["time"]
    if tm:
        inst = ms(tm[1]) if tm[0] == "abs" else call + ms(tm[1])
        if inst > call:
            dls.append((inst, 1, "time"))
    if cfg["timeout"] is not None:
        dls.append((call + ms(cfg["timeout"]), 0, "timeout"))
    dl = min(dls) if dls else None
    if dl is None and not (st or ev or cfg["mqtt"]):
        return ("ret", call, "none")

    def next_fire():
        """earliest of the running hold and the time/timeout deadline"""
        if cand is not None and (dl is None or cand[0] + hold < dl[0]):
            return (cand[0] + hold, ("ret", cand[0] + hold, f"state {cand[1]}"))
        if dl is not None:
            return (dl[0], ("ret", dl[0], dl[2]))
        return None

    for t, it in p["timeline"]:
        tt = ms(t)
        if tt <= call:
            continue
        f = next_fire()
        if f is not None and f[0] < tt:
            return f[1]
        if it[0] == "c":
            return ("cancelled", tt, "")
        if it[0] == "s" and st:
            try:
                b = st_eval(it[1])
            except Exception:  # pylint: disable=broad-except
                return ("exc", tt, "eval")
            if b:
                if hf is not None:
                    if false_start is None:
                        continue                     # not a false -> true transition
                    dur = tt - false_start
                    false_start = None
                    if dur < hf:
                        continue                     # the false period was too short
                if cand is None:
                    if hold is None:
                        return ("ret", tt, f"state {it[1]}")
                    cand = (tt, it[1])
            else:
                cand = None
                if hf is not None and false_start is None:
                    false_start = tt
        if it[0] == "e" and ev:
            try:
                if ev["fn"] is None or fn_py(ev["fn"], it[1]):
                    return ("ret", tt, f"event {it[1]}")
            except Exception:  # pylint: disable=broad-except
                return ("exc", tt, "eval")
    f = next_fire()
    if f is not None:
        return f[1]
    return ("waiting", 0, "")


def oracle(p, obs, got):
    sub = "legacy" if p["legacy"] else "new"
    cfg = p["cfg"]
    if got[0] == "nocall":
        return f"{sub}: the waiting function was never started"
    if p.get("expect") is not None:
        exp = tuple(p["expect"])
        if exp != got:
            return f"{sub}: {p['tag']}: exit differs: got {got[0]} {got[2]} at {got[1]}, expected {exp[0]} {exp[2]} at {exp[1]}"
        exp = None
    else:
        exp = expected_exit(p)
    if p.get("twice") and exp is not None:
        got2 = canon_exit(p, obs, second=True)
        if got2 != exp:
            return f"{sub}: second concurrent call: exit differs: got {got2[0]} {got2[2]}, expected {exp[0]} {exp[2]}"
    if exp is not None and exp != got:
        return f"{sub}: exit differs from the first qualifying trigger: got {got[0]} {got[2]}, expected {exp[0]} {exp[2]}" \
               + (" at another instant" if got[0] == exp[0] and got[2] == exp[2] else "")
    if got[0] != "waiting" and obs["after"] != obs["before"]:
        names = ["State.notify", "Event.notify", "bus listeners", "Mqtt.notify", "mqtt subscriptions", "decorator tasks"]
        left = [n for n, a, b in zip(names, obs["after"], obs["before"]) if a != b]
        if got[0] == "cancelled":
            return f"{sub}: left behind after the waiting task was cancelled: {', '.join(left)}"
        if got[0] == "exc" and got[2] == "parse" and p["legacy"] and cfg["mqtt"] and not cfg["mqtt"]["parse_ok"]:
            return f"{sub}: left behind after SyntaxError in the mqtt_trigger expression: {', '.join(left)}"
        return f"{sub}: left behind after {got[0]} {got[2]}: {', '.join(left)}"
    return None


def _run_one(p):
    obs = run_scenario(p)
    if "crash" in obs:
        return {"impl": "crash", "line": None, "oracle": "harness-crash: " + obs["crash"], "kind": "crash"}
    got = canon_exit(p, obs)
    tb = "(tb " + " ".join(str(x) for x in obs["after"]) + ")"
    impl = f"ok {show_exit(got)} {tb}"
    line = None if p.get("raw_call") else build_line(p, obs["before"])
    return {"impl": impl, "line": line, "oracle": oracle(p, obs, got), "kind": got[0] + " " + got[2].split(" ")[0]}


_WARM = []


def run_impl(cases):
    if not _WARM:
        _WARM.append(1)
        _run_one({"legacy": False, "cfg": {"state": None, "time": None, "event": None, "mqtt": None, "timeout": None},
                  "call": 1.1, "v_init": 0, "timeline": [], "pre": {"state_fn": False, "event_fn": False, "mqtt_fn": False}})
    res = common.pmap(_run_one, [{k: v for k, v in c.payload.items() if not k.startswith("_")} for c in cases], workers=14)
    for c, r in zip(cases, res):
        c.impl = r["impl"]
        c.line = r["line"]
        c.payload["_oracle"] = r["oracle"]
        c.payload["_kind"] = r["kind"]
        c.nontrivial = r["kind"] not in ("crash", "nocall ")


def split(outline):
    if " ## " in outline:
        m, s = outline.split(" ## ", 1)
        return m, s
    return outline, None


def verdict(c):
    o = c.payload.get("_oracle")
    if o and o.startswith("harness-crash"):
        raise RuntimeError(o)
    return o


SIGS = [
    (r"^new: neg-timeout: exit differs", "new: a negative timeout never expires when another trigger is given"),
]


def classify(c, reason):
    for rx, sig in SIGS:
        if re.search(rx, reason):
            return sig
    return re.sub(r"\d+", "N", reason)[:120]


def extra_coverage(cases):
    kinds, args = {}, {"state": 0, "time_abs": 0, "time_rel": 0, "event": 0, "mqtt": 0, "timeout0": 0, "timeout": 0,
                       "parse_error": 0, "check_now_false": 0}
    for c in cases:
        k = c.payload.get("_kind", "?")
        kinds[k] = kinds.get(k, 0) + 1
        cfg = c.payload["cfg"]
        args["state"] += bool(cfg["state"])
        args["event"] += bool(cfg["event"])
        args["mqtt"] += bool(cfg["mqtt"])
        if cfg["time"]:
            args["time_" + cfg["time"][0]] += 1
        if cfg["timeout"] == 0:
            args["timeout0"] += 1
        elif cfg["timeout"] is not None:
            args["timeout"] += 1
        if cfg["state"] and cfg["state"]["check_now"] is False:
            args["check_now_false"] += 1
        pl = c.payload
        for k in ("state", "event", "mqtt"):
            if cfg[k] and cfg[k].get("as_list"):
                args[k + "_as_list_of_one"] = args.get(k + "_as_list_of_one", 0) + 1
        if cfg["state"] and cfg["state"].get("fn2") is not None:
            args["state_list_of_two"] = args.get("state_list_of_two", 0) + 1
        if cfg["time"] and len(cfg["time"]) > 2:
            args["time_" + cfg["time"][2]] = args.get("time_" + cfg["time"][2], 0) + 1
        if cfg.get("entries"):
            en = cfg["entries"]
            k = "time_trigger_empty_list" if en.get("empty") else "time_trigger_entry_" + "+".join(
                w for w in ("startup", "shutdown") if en[w])
            args[k] = args.get(k, 0) + 1
        if cfg["timeout"] is not None and 0 < cfg["timeout"] < 0.01:
            args["timeout_tiny"] = args.get("timeout_tiny", 0) + 1
        if isinstance(cfg["timeout"], float) and cfg["timeout"] == 0:
            args["timeout_0.0"] = args.get("timeout_0.0", 0) + 1
        args["caller_" + pl.get("caller", "trigger")] = args.get("caller_" + pl.get("caller", "trigger"), 0) + 1
        if pl.get("twice"):
            args["twice_concurrently"] = args.get("twice_concurrently", 0) + 1
        if pl.get("raw_call"):
            args["oracle_only_" + pl["tag"]] = args.get("oracle_only_" + pl["tag"], 0) + 1
        for fk in ("state", "event"):
            if cfg[fk] and cfg[fk].get("fn") and "truthy" in json.dumps(cfg[fk]["fn"]):
                args[fk + "_filter_value_truthiness"] = args.get(fk + "_filter_value_truthiness", 0) + 1
        k = pl.get("_kind", "")
        if any(it[0] == "c" for _, it in pl["timeline"]) and not k.startswith("cancelled") and not k.startswith("waiting"):
            args["cancel_after_the_call_ended"] = args.get("cancel_after_the_call_ended", 0) + 1
        if cfg["state"] and cfg["state"].get("hold") is not None:
            args["state_hold"] = args.get("state_hold", 0) + 1
            if cfg["timeout"] is not None:
                k = "hold_longer_than_timeout" if cfg["state"]["hold"] > cfg["timeout"] else "hold_shorter_than_timeout"
                args[k] = args.get(k, 0) + 1
        if cfg["state"] and cfg["state"].get("hold_false") is not None:
            args["state_hold_false"] = args.get("state_hold_false", 0) + 1
        if any(cfg[x] and not cfg[x]["parse_ok"] for x in ("state", "event", "mqtt")):
            args["parse_error"] += 1
    return {"exit_kinds_observed": kinds, "argument_histogram": args}
