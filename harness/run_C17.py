"""C17 correspondence + property oracle: the real interpreter's import statements and builtin lookup vs the Lean model.

impl  = the real AstEval / GlobalContext.module_import from /repo (stub hass, real files in a temp pyscript folder)
model = PsModel.C17.run / lookupName via verifdrv
verdict = an independent oracle: what is permitted (pyscript module visible | whole name on ALLOWED_IMPORTS | allow_all),
          what must be bound to which object, that a refused import binds nothing and never reaches importlib, and that
          the builtins named by the property never resolve to the host's objects.

Host imports: names already in sys.modules are taken from there (as pyscript does); `importlib.import_module` as seen by
eval.py is replaced by a shim that really imports only a fixed safe list and otherwise hands out a recorded fake module
(or raises ModuleNotFoundError for names that do not exist) – no arbitrary package is ever executed.
"""
import asyncio
import builtins
import importlib
import importlib.util
import io
import itertools
import keyword
import logging
import os
import pkgutil
import re
import shutil
import sys
import tempfile
import types
from unittest.mock import patch

import common
from common import Case, sx

PROP = "C17"
RULE = ("every top-level module name of pkgutil.iter_modules() and sys.builtin_module_names (thorough: all; quick: all "
        "allow-listed + near-miss variants of allow-listed names (prefix, suffix, parent, child, a.b.c below an allowed a or "
        "a.b, other case) + pyscript module/app names + a seeded sample) and sampled submodules x {import a, import a as x, "
        "import m, a, from a import b, from a import b as c, from a import *, from a import <missing>} x {direct, exec, nested "
        "exec} x allow_all_imports in {False, True} x {script context, app context}; multi-name imports with `as` aliases in "
        "EVERY order of three names; relative forms `from .[.[.]] import m` / `from .[.[.]]m import x|*` at levels 1-3 x ten "
        "importing contexts (plain script, app package as the loader and as the importer name it, module file of an app, "
        "sub-package, file of a sub-package, modules package, file of a modules package, single module file, scripts "
        "package) x targets inside / outside / above the package, allow-listed and refused bare names; stubs forms with and "
        "without stub files on disk (modules/stubs/, modules/stubs.py, apps/app1/stubs.py); every form at module level, in a "
        "called function, in a class body, under try/except ImportError, through eval('exec(...)'); names shadowing files "
        "under pyscript/modules and pyscript/apps; every name of dir(builtins) plus dunder/own names plus other-case and "
        "underscore variants of the excluded builtins x {direct, exec, eval, inside a function, global-declared, nested "
        "function, comprehension, class body, user-shadowed, globals()[x], locals()[x], through the name __builtins__} x "
        "allow_all_imports for the named ones.  Non-trivial = every case (each is a distinct statement/configuration).")
ASSUMPTIONS = [
    "sys.modules / importlib.import_module are the host's import system; the shim returns the module Python would "
    "return for the safe list and a recorded stand-in otherwise",
    "a module's importable attributes are the keys of its __dict__ (no module-level __getattr__ in generated from-imports)",
    "module names are ASCII identifiers joined by dots; a context is described by (global_ctx.name, rel_import_path) as "
    "the loader (glob_read_files) or module_import would create it",
    "a fresh GlobalContextMgr.contexts per case (no module loaded earlier by another script)",
    "a relative import whose file does not exist falls back to the BARE module name (allow test, then host import): the "
    "oracle accepts an ImportError without bindings or exactly that fallback, but never a binding for a refused name",
    "the property is about plain names: attribute paths that reach the host's builtins (json.__builtins__, a lambda's "
    "__globals__) are counted in the coverage (`attribute_paths`), not judged",
]
TRUSTED = ["tools/extract.py + tools/extractors/C17.py (ALLOWED_IMPORTS, BUILTIN_EXCLUDE, BUILTIN_AST_FUNCS_FACTORY keys)",
           "harness/run_C17.py (import shim, object-identity canonicalisation, oracle)", "harness/interp_env.py (stub hass)"]

SAFE_REAL = ["math", "cmath", "json", "json.decoder", "re", "random", "string", "time", "datetime", "decimal", "fractions",
             "functools", "statistics", "itertools", "collections", "os", "os.path", "homeassistant.const", "voluptuous",
             "textwrap", "bisect", "heapq"]
MOD_SRC = "x = 1\n_y = 2\ndef f():\n    return 3\n"
PYS_FILES = {
    "modules/os.py": "modules.os", "modules/math.py": "modules.math", "modules/mymod.py": "modules.mymod",
    "modules/pkg/__init__.py": "modules.pkg", "modules/pkg/sub.py": "modules.pkg.sub",
    "modules/both/__init__.py": "modules.both", "modules/both.py": "modules.both",
    "apps/app1/__init__.py": "apps.app1", "apps/app1/helper.py": "apps.app1.helper",
    "apps/shadow.py": "apps.shadow", "modules/shadow.py": "modules.shadow", "apps/json.py": "apps.json",
    "apps/app1/sub/__init__.py": "apps.app1.sub", "apps/app1/sub/deep.py": "apps.app1.sub.deep",
    "apps/app1/sub/helper.py": "apps.app1.sub.helper", "apps/app2/__init__.py": "apps.app2",
    "modules/pkg/sub2.py": "modules.pkg.sub2", "scripts/sub/__init__.py": "scripts.sub", "scripts/sub/util.py": "scripts.sub.util",
}
# files that exist only in some cases (payload["extra_files"]): stub modules on disk
EXTRA_FILES = {"modules/stubs/__init__.py": "modules.stubs", "modules/stubs/a.py": "modules.stubs.a",
               "modules/stubs.py": "modules.stubs", "apps/app1/stubs.py": "apps.app1.stubs"}
STUB_SETS = [[], ["modules/stubs/__init__.py", "modules/stubs/a.py"], ["modules/stubs.py"], ["apps/app1/stubs.py"]]
# importing contexts: key -> (global_ctx.name, rel_import_path) as the loader / module_import create them
CTXS = {
    "script": ("file.t", None),
    "app": ("apps.app1", "apps/app1"),                       # package __init__ loaded by an import
    "app_init": ("apps.app1", "apps/app1/__init__"),         # the same file as glob_read_files names it
    "app_file": ("apps.app1.helper", "apps/app1"),           # module file of the app (loaded by `from . import helper`)
    "app_sub": ("apps.app1.sub", "apps/app1/sub"),           # sub-package __init__
    "app_sub_file": ("apps.app1.sub.deep", "apps/app1/sub"),
    "mod_pkg": ("modules.pkg", "modules/pkg"),
    "mod_pkg_file": ("modules.pkg.sub", "modules/pkg"),
    "mod_file": ("modules.mymod", None),                     # single-file module: no parent package
    "scripts_pkg": ("scripts.sub", "scripts/sub/__init__"),
}
PYS_NAMES = ["os", "math", "mymod", "pkg", "pkg.sub", "both", "shadow", "json", "app1", "app1.helper", "helper", "sub", "nosuch",
             "pkg.sub2", "pkg.sub.deeper", "app1.sub", "app1.sub.deep", "app1.sub.nosuch", "app2", "pkg.nosuch.x"]
NAMED = ["open", "compile", "input", "breakpoint", "memoryview", "print"]

_S = {}


# ------------------------------------------------------------------ environment (once per process)
def _setup():
    if _S:
        return _S
    import interp_env as IE
    import custom_components.pyscript.eval as E
    from custom_components.pyscript.const import ALLOWED_IMPORTS
    from custom_components.pyscript.function import Function
    from custom_components.pyscript.global_ctx import GlobalContext, GlobalContextMgr

    loop = asyncio.new_event_loop()
    asyncio.set_event_loop(loop)
    IE.setup_stub(loop)
    for n in SAFE_REAL:
        try:
            importlib.import_module(n)
        except Exception:  # pylint: disable=broad-except
            pass
    tmp = tempfile.mkdtemp(prefix="c17_")
    for rel in PYS_FILES:
        p = os.path.join(tmp, "pyscript", rel)
        os.makedirs(os.path.dirname(p), exist_ok=True)
        with open(p, "w", encoding="utf-8") as f:
            f.write(MOD_SRC)
    Function.hass.config.path = lambda *a: os.path.join(tmp, *a)
    Function.hass.config.config_dir = tmp

    async def init():
        Function.init(Function.hass)     # the real registrations of print / log.* / task.*
    loop.run_until_complete(init())
    exists = {m.name for m in pkgutil.iter_modules()} | set(sys.builtin_module_names) | set(sys.modules)
    _S.update(IE=IE, E=E, Function=Function, GC=GlobalContext, GCM=GlobalContextMgr, loop=loop, tmp=tmp,
              allowed=set(ALLOWED_IMPORTS), exists=exists, fakes={}, calls=[])
    return _S


def _cleanup():
    if _S:
        shutil.rmtree(_S["tmp"], ignore_errors=True)
        for t in (_S["Function"].task_reaper, _S["Function"].task_waiter):
            try:
                if t:
                    t.cancel()
            except Exception:  # pylint: disable=broad-except
                pass


def submodules_of(top, limit=6):
    """submodule names from the file system – nothing is imported"""
    try:
        spec = importlib.util.find_spec(top)
    except Exception:  # pylint: disable=broad-except
        return []
    out = []
    for loc in (spec.submodule_search_locations or []) if spec else []:
        try:
            for fn in sorted(os.listdir(loc)):
                if fn.endswith(".py") and not fn.startswith("_") and re.fullmatch(r"[A-Za-z][A-Za-z0-9_]*", fn[:-3]):
                    out.append(f"{top}.{fn[:-3]}")
        except OSError:
            pass
    return out[:limit]


def host_expect(name):
    """(exists, module object) the host import of `name` yields under the shim"""
    S = _S
    if sys.modules.get(name) is not None:        # whatever object sits there (some packages install proxies)
        return True, sys.modules[name]
    if name in S["exists"] or name in S["subs"]:
        if name not in S["fakes"]:
            m = types.ModuleType(name)
            m.__dict__.update({"pub": 1, "_priv": 2, "b": 3, "Zed": 4})
            S["fakes"][name] = m
        return True, S["fakes"][name]
    return False, None


class _Shim:
    def __init__(self, S):
        self.S = S

    def import_module(self, name, package=None):
        self.S["calls"].append(name)
        ok, m = host_expect(name)
        if not ok:
            raise ModuleNotFoundError(f"No module named {name!r}")
        return m

    def __getattr__(self, k):
        return getattr(importlib, k)


# ------------------------------------------------------------------ generators
def stmt_text(st):
    if st[0] == "import":
        return "import " + ", ".join(n if a is None else f"{n} as {a}" for n, a in st[1])
    _, mod, level, names = st
    return f"from {'.' * int(level)}{mod or ''} import " + ", ".join(n if a is None else f"{n} as {a}" for n, a in names)


def stmt_keys(st):
    return [(a or n) for n, a in (st[1] if st[0] == "import" else st[3])]


def wrap(src, wraps, st=None):
    """wraps: outermost first, e.g. ["exec", "exec"] or ["func"]"""
    for w in reversed(wraps):
        if w == "exec":
            src = f"exec({src!r})"
        elif w == "evalexec":
            src = f"eval({('exec(' + repr(src) + ')')!r})"
        elif w == "try":
            src = f"try:\n    {src}\nexcept ImportError as __e:\n    __caught = __e"
        elif w == "cls":
            src = f"class __C:\n    {src}"
        elif w == "func":
            keys = [k for k in dict.fromkeys(stmt_keys(st)) if re.fullmatch(r"[A-Za-z_][A-Za-z0-9_]*", k)]
            decl = f"    global {', '.join(keys)}\n" if keys else ""
            src = f"def __f():\n{decl}    {src}\n__f()"
        else:
            raise ValueError(w)
    return src


def wraps_ok(st, wraps):
    """a function / class body cannot take `import *` (CPython: SyntaxError) and a dotted key cannot be declared global"""
    if "func" in wraps and any(k == "*" or "." in k for k in stmt_keys(st)):
        return False
    if "cls" in wraps and (any(k == "*" for k in stmt_keys(st)) or len(stmt_keys(st)) != 1):
        return False                 # the namespace of a class body that raises is discarded: partial bindings are unobservable
    return True


def forms_for(name, pick_attr):
    b = pick_attr(name)
    return [("import", [(name, None)]), ("import", [(name, "xx")]), ("import", [("math", None), (name, None)]),
            ("from", name, 0, [(b, None)]), ("from", name, 0, [(b, "cc")]), ("from", name, 0, [("*", None)]),
            ("from", name, 0, [("zz_missing", None)]),
            # the alias is a boundary value itself: an allow-listed module name, the imported name, a builtin
            ("import", [(name, "math")]), ("from", name, 0, [(b, "json")])]


def alias_forms(name, b):
    return [("import", [(name, "json")]), ("import", [(name, "mymod")]), ("import", [(name, "stubs")]),
            ("import", [(name, "open")]), ("import", [(name, name.split(".")[0])]), ("import", [("json", name.replace(".", "_"))]),
            ("from", name, 0, [(b, "math")]), ("from", name, 0, [(b, "print")]), ("from", name, 0, [(b, b)])]


def near_miss(allowed):
    out = set()
    for a in allowed:
        out |= {a + "x", a + "2", "x" + a, a + ".evil", a + "." + a, a.upper(), a.capitalize(), a[:-1], "_" + a, a + ".a.b",
                a + "_", a + ".__init__"}
        if "." in a:
            out |= {a.split(".")[0], a.rsplit(".", 1)[0], a.replace(".", "_")}
    out |= {"os", "os.path", "sys", "subprocess", "builtins", "importlib", "json.decoder", "json.tool", "re2", "maths",
            "homeassistant", "homeassistant.core", "homeassistant.constants", "stubs", "stubsx", "stubs2.a", "pathlib", "socket",
            "homeassistant.helpers.template", "os.path.join", "json.decoder.JSONDecoder", "xml.etree.ElementTree", "email.mime.text",
            "collections.abc.x", "datetime.datetime", "math.pi", "Math", "JSON", "Os"}
    return sorted(n for n in out - set(allowed) if n and re.fullmatch(r"[A-Za-z_][A-Za-z0-9_]*(\.[A-Za-z_][A-Za-z0-9_]*)*", n))


def gen_cases(rng, tier, search):
    S = _setup()
    allowed = sorted(S["allowed"])
    tops = sorted(n for n in ({m.name for m in pkgutil.iter_modules()} | set(sys.builtin_module_names))
                  if re.fullmatch(r"[A-Za-z_][A-Za-z0-9_]*", n))
    subs_all = []
    for t in tops:
        if t in sys.modules or t in ("json", "xml", "email", "http", "urllib", "logging", "concurrent", "unittest"):
            subs_all += submodules_of(t, limit=6 if tier == "quick" else 30)
    S["subs"] = set(subs_all) | {"json.tool"}
    if tier == "quick" and not search:
        sample = rng.sample(tops, min(len(tops), 230))
        subs = rng.sample(subs_all, min(len(subs_all), 90))
    else:
        sample, subs = tops, (subs_all if tier == "thorough" else rng.sample(subs_all, min(len(subs_all), 400)))
    names = list(dict.fromkeys(allowed + near_miss(allowed) + PYS_NAMES + sample + subs))

    def pick_attr(name):
        ok, m = host_expect(name)
        if ok:
            pub = [k for k in _dict(m) if not k.startswith("_") and re.fullmatch(r"[A-Za-z][A-Za-z0-9_]*", k)]
            if pub:
                return pub[len(name) % len(pub)]
        return "x"

    cases = []
    for name in names:
        special = name in allowed or name in PYS_NAMES or name in ("os", "json.decoder", "homeassistant", "os.path") \
            or (tier == "thorough" and rng.random() < 0.5)
        for st in forms_for(name, pick_attr):
            for allow in (False, True):
                for ctx in (("script", "app") if special else ("script",)):
                    depths = (0, 1, 2) if special else ((0, 1) if rng.random() < 0.25 else (0,))
                    for d in depths:
                        cases.append(mk_imp(allow, ctx, d, st))
                    # the same statement in a called function, a class body, under try/except ImportError and
                    # through eval("exec(...)")
                    if ctx == "script" and (special or rng.random() < 0.08):
                        for w in (["func"], ["cls"], ["try"], ["evalexec"]):
                            if wraps_ok(st, w):
                                cases.append(mk_imp(allow, ctx, w, st))
        if special:
            for st in alias_forms(name, pick_attr(name)):
                for allow in (False, True):
                    cases.append(mk_imp(allow, "script", 0, st))
            # multi-name imports with aliases, every order of the three names
            trio = [("math", "m"), (name, "xx"), ("json", None)]
            for perm in itertools.permutations(trio):
                for allow in (False, True):
                    cases.append(mk_imp(allow, "script", 0, ("import", list(perm))))
            for allow in (False, True):
                cases.append(mk_imp(allow, "script", 0, ("import", [(name, None), (name, "yy")])))
                cases.append(mk_imp(allow, "app", 0, ("import", [(name, "a1"), ("os", "o"), (name, "a2")])))
    # the option is changed (true -> false and false -> true) between two statements of ONE long-lived evaluator: every
    # statement form x direct / exec / function / class / try / eval(exec) for the names the property is about, one form
    # for a sample of all names; oracle = the option value at the moment the import statement executes
    for name in names:
        core = name in ("os", "os.path", "subprocess", "json", "json.decoder", "math", "homeassistant", "socket", "sys") \
            or name in PYS_NAMES
        if not core and rng.random() >= 0.06:
            continue
        forms = forms_for(name, pick_attr)
        for st in (forms if core else [forms[len(name) % len(forms)]]):
            for allow in (False, True):
                for ctx in (("script", "app") if core else ("script",)):
                    cases.append(mk_imp(allow, ctx, 0, st, ctx_allow=not allow))
                if core:
                    cases.append(mk_imp(allow, "script", 1, st, ctx_allow=not allow))
                    for w in (["func"], ["cls"], ["try"], ["evalexec"]):
                        if wraps_ok(st, w):
                            cases.append(mk_imp(allow, "script", w, st, ctx_allow=not allow))
                    cases.append(mk_imp(allow, "script", 0, st, ctx_allow=allow))      # control: option unchanged
    # stubs forms, multi-name forms, from-imports of submodules
    misc_forms = [("from", "stubsx", 0, [("x", None)]),
                  ("import", [("math", None), ("json", "j"), ("os", None), ("re", None)]),
                  ("from", "math", 0, [("pi", None), ("e", "ee"), ("zz_missing", None), ("tau", None)]),
                  ("from", "json", 0, [("tool", None)]), ("from", "json", 0, [("decoder", None)]),
                  ("from", "xml", 0, [("dom", None)]), ("from", "email", 0, [("mime", "mm")])]
    for st in misc_forms:
        for allow in (False, True):
            for ctx in ("script", "app"):
                for d in (0, 1):
                    cases.append(mk_imp(allow, ctx, d, st))
    stub_forms = [("from", "stubs", 0, [("x", None)]), ("from", "stubs.a.b", 0, [("y", None), ("z", None)]),
                  ("from", "stubs", 0, [("x", "y")]), ("from", "stubs.q", 0, [("x", None), ("w", "y")]),
                  ("from", "stubs", 1, [("x", None)]), ("from", "stubs.a", 2, [("x", None)]), ("from", "stubs", 0, [("*", None)]),
                  ("from", "stubs.a", 0, [("x", None)]), ("from", "stubs.a", 0, [("*", None)]),
                  ("import", [("stubs", None)]), ("import", [("stubs.a", "s")]), ("import", [("stubs", "st"), ("math", None)]),
                  ("from", None, 1, [("stubs", None)])]
    for st in stub_forms:
        for extra in STUB_SETS:
            for allow in (False, True):
                for ctx in ("script", "app", "app_sub"):
                    cases.append(mk_imp(allow, ctx, 0, st, extra=extra))
                cases.append(mk_imp(allow, "script", 1, st, extra=extra))
                if wraps_ok(st, ["try"]):
                    cases.append(mk_imp(allow, "app", ["try"], st, extra=extra))
    # relative imports: levels 1-3 x every importing context x targets inside / outside / above the package
    rel_targets = ["helper", "sub", "sub.deep", "deep", "nosuch", "os", "math", "json", "pkg", "sub2", "util", "app2", "app1",
                   "mymod", "sub.nosuch", "homeassistant.const"]
    dot_names = [[("helper", None)], [("helper", "h")], [("nosuch", None)], [("sub", None), ("helper", None)],
                 [("deep", "d"), ("helper", None), ("nosuch", None)], [("app2", None)], [("sub2", None), ("sub", "s")],
                 [("util", None)], [("math", None)], [("os", None)]]
    for level in (1, 2, 3):
        for ctx in CTXS:
            for allow in (False, True):
                for t in rel_targets:
                    forms = [("from", t, level, [("x", None)])]
                    if t in ("helper", "sub", "os", "math", "nosuch", "sub2"):
                        forms += [("from", t, level, [("*", None)]), ("from", t, level, [("f", "g"), ("zz_missing", None)])]
                    for st in forms:
                        cases.append(mk_imp(allow, ctx, 0, st))
                for names_ in dot_names:
                    cases.append(mk_imp(allow, ctx, 0, ("from", None, level, names_)))
            # a sample through exec / function / class / try
            for t in ("helper", "os", "nosuch"):
                st = ("from", t, level, [("x", None)])
                for w in (1, ["func"], ["cls"], ["try"], ["evalexec"]):
                    cases.append(mk_imp(False, ctx, w, st))
    # plain-name lookup
    variants = set()
    for x in NAMED + ["eval", "exec", "globals", "locals", "abs", "len"]:
        variants |= {x.upper(), x.capitalize(), x[0] + x[1:].upper(), x + "_", "_" + x, "__" + x + "__", x + "2", x[:-1]}
    variants |= {"MemoryView", "memoryView", "BreakPoint", "breakPoint", "_", "__", "___", "_x", "__x__"}
    nm = sorted(set(dir(builtins)) | {"__import__", "__builtins__", "__loader__", "__spec__", "_", "eval", "exec", "globals",
                                       "locals", "print", "log", "task", "nosuchname", "pyscript", "state"} | variants)
    for x in nm:
        if not re.fullmatch(r"[A-Za-z_][A-Za-z0-9_]*", x) or x in ("None", "True", "False", "__debug__") or keyword.iskeyword(x):
            continue
        for mode in ("direct", "exec", "eval", "func", "user", "gfunc", "nested", "comp", "cls", "globals", "locals", "bi_attr",
                     "bi_item", "try"):
            cases.append(Case({"kind": "name", "name": x, "mode": mode}, None, tags=("name", "name-" + mode)))
        if x in NAMED or x in variants or x.startswith("_"):
            # builtin lookup does not depend on allow_all_imports – run the named ones under both settings
            for mode in ("direct", "exec", "eval", "func", "cls"):
                cases.append(Case({"kind": "name", "name": x, "mode": mode, "allow": True}, None,
                                  tags=("name", "name-" + mode, "allow")))
        if x in NAMED:
            # natively compiled code (lambda) has the host's builtins – documented; recorded as finding C17-F2
            cases.append(Case({"kind": "name", "name": x, "mode": "lambda"}, None, tags=("name", "name-lambda")))
    for x in NAMED:
        cases.append(Case({"kind": "call", "name": x}, None, tags=("call",)))
    # attribute paths to the host's builtins: outside the property ("as plain names"), counted only
    for src in ("import json\n__r = json.__builtins__", "import json\n__r = getattr(json, '__builtins__')",
                "__r = (lambda: 0).__globals__", "__r = (lambda: 0).__builtins__", "__r = print.__self__",
                "import math\n__r = getattr(math, '__builtins__', None)", "__r = [].__class__.__base__.__subclasses__()"):
        cases.append(Case({"kind": "attrpath", "src": src}, None, tags=("attrpath",)))
    return cases


def mk_imp(allow, ctx, depth, st, extra=(), ctx_allow=None):
    """`allow` = the option at the moment the statement executes.  `ctx_allow` (when given) = the option while the
    global context / evaluator was created and ran its first statement: the SAME long-lived evaluator then executes the
    statement after the option was changed to `allow` (a function that survives a reload, a Jupyter session)."""
    st = list(st)
    if st[0] == "from":
        st[2] = int(st[2])
    wraps = ["exec"] * depth if isinstance(depth, int) else list(depth)
    payload = {"kind": "imp", "allow": allow, "ctx": ctx, "wrap": wraps, "stmt": st, "src": wrap(stmt_text(st), wraps, st),
               "extra_files": list(extra)}
    if ctx_allow is not None:
        payload["ctx_allow"] = ctx_allow
    return Case(payload,
                None, tags=("imp", "allow" if allow else "restricted", ctx, "wrap:" + ("+".join(wraps) or "direct"),
                            st[0] if st[0] == "import" else (f"from-rel{st[2]}" if st[2] else "from")) +
                (("stubfiles",) if extra else ()) +
                ((f"option-changed:{ctx_allow}->{allow}",) if ctx_allow is not None else ()))


# the first statement a long-lived evaluator runs before the option is changed: binds nothing and looks nothing up under
# either value of the option (C17_stubs_ignored), so what the second statement binds is all there is to see
FIRST_STMT = ("from", "stubs", 0, [("nothing_at_all", None)])


# ------------------------------------------------------------------ running the real code
ERR_KIND = [("not allowed", "notAllowed"), ("No module named", "notFound"), ("not supported for stubs", "stubsAs"),
            ("no known parent package", "relNoParent"), ("above parent package", "relAbove"), ("' not found", "relNotFound")]


def _new_ctx(kind):
    S = _S
    S["GCM"].contexts.clear()
    name, rel = CTXS[kind]
    g = S["GC"](name, global_sym_table={}, manager=S["GCM"], rel_import_path=rel)
    a = S["E"].AstEval(g.get_name(), global_ctx=g)
    S["Function"].install_ast_funcs(a)
    return g, a


async def _exec(kind, src, before=None):
    """before = (option while the context is created and its first statement runs, source of that statement, option when
    `src` runs): one evaluator, two statements, the option changed in between"""
    first = None
    if before is not None:
        _S["IE"].set_allow_all_imports(before[0])
    g, a = _new_ctx(kind)
    if before is not None:
        first = "ok"
        try:
            a.parse(before[1])
            await a.eval()
        except BaseException as e:  # pylint: disable=broad-except
            first = "exc:" + type(e).__name__
        left = sorted(k for k in g.global_sym_table if not k.startswith("__"))
        first = sx(["binds"] + [[k, "?"] for k in left]) + " " + first
        _S["IE"].set_allow_all_imports(before[2])
    exc = None
    try:
        a.parse(src)
        await a.eval()
    except BaseException as e:  # pylint: disable=broad-except
        exc = e
    if before is not None:
        g.first_obs = first
    return g, a, exc


def _pys_map(p):
    m = dict(PYS_FILES)
    for rel in p.get("extra_files") or []:
        m[rel] = EXTRA_FILES[rel]
    return m


def _wraps(p):
    return p["wrap"] if "wrap" in p else ["exec"] * p.get("depth", 0)


async def _run_imp(c):
    S = _S
    p = c.payload
    S["IE"].set_allow_all_imports(p["allow"])
    st = p["stmt"]
    if st[0] == "from":
        st[2] = int(st[2])
    wraps = _wraps(p)
    pys = _pys_map(p)
    extra_paths = []
    for rel in p.get("extra_files") or []:
        path = os.path.join(S["tmp"], "pyscript", rel)
        os.makedirs(os.path.dirname(path), exist_ok=True)
        with open(path, "w", encoding="utf-8") as f:
            f.write(MOD_SRC)
        extra_paths.append(path)
    del S["calls"][:]
    try:
        with patch.object(S["E"], "importlib", _Shim(S)):
            before = None
            if p.get("ctx_allow") is not None:
                before = (p["ctx_allow"], stmt_text(list(FIRST_STMT)), p["allow"])
            g, a, exc = await _exec(p["ctx"], p["src"], before)
    finally:
        for path in extra_paths:
            os.unlink(path)
        if extra_paths and os.path.isdir(os.path.join(S["tmp"], "pyscript", "modules", "stubs")):
            shutil.rmtree(os.path.join(S["tmp"], "pyscript", "modules", "stubs"), ignore_errors=True)
    calls = list(S["calls"])
    # ---- where the statement put its bindings
    gs = dict(g.global_sym_table)
    if "try" in wraps and exc is None and isinstance(gs.get("__caught"), BaseException):
        exc = gs["__caught"]                       # what the statement raised before `except ImportError` took it
    for k in ("__caught", "__e", "__f"):
        gs.pop(k, None)
    if "cls" in wraps:
        cls = gs.pop("__C", None)
        if type(cls).__name__ == "EvalLocalVar":            # how the interpreter keeps a name that a closure may share
            cls = cls.get() if cls.is_defined() else None
        gs = {k: v for k, v in (cls.__dict__.items() if cls is not None else [])
              if k not in ("__module__", "__dict__", "__weakref__", "__doc__", "__qualname__", "__firstlineno__",
                           "__static_attributes__", "__init__evalfunc_wrap__")}
    # ---- registry of module objects by identity
    registry = {}
    pys_attrs = {}
    objs = {}
    base = os.path.join(S["tmp"], "pyscript")
    for gc in list(S["GCM"].contexts.values()):
        # by FILE, not by context name: module_import names the context of a sibling imported from a module file
        # `<importer>.<name>`, e.g. apps.app1.helper.sub for apps/app1/sub/__init__.py
        if getattr(gc, "module", None) is None or not getattr(gc, "file_path", None):
            continue
        rel = os.path.relpath(gc.file_path, base).replace(os.sep, "/")
        if rel in pys:
            registry[id(gc.module)] = "pys:" + rel
            objs[id(gc.module)] = gc.module
            pys_attrs[rel] = list(gc.module.__dict__.keys())
    mods = [n for n, _ in st[1]] if st[0] == "import" else ([st[1]] if st[1] else [])
    host = []
    for n in dict.fromkeys(mods):
        ok, m = host_expect(n)
        if ok:
            registry.setdefault(id(m), "host:" + n)
            host.append([n, "host:" + n, list(_dict(m).keys()) if st[0] == "from" else []])
    # ---- canonical bindings
    binds = []
    aliases = st[1] if st[0] == "import" else st[3]
    src_name = {}
    for n, asn in aliases:
        src_name.setdefault(asn or n, n)
    for mid, tag in registry.items():
        if mid not in objs:
            objs[mid] = host_expect(tag[5:])[1]
    for k, v in gs.items():
        if k.startswith("__") and k in ("__name__", "__doc__", "__package__", "__loader__", "__spec__", "__builtins__"):
            continue
        if id(v) in registry and (st[0] == "import" or (st[0] == "from" and st[1] is None)):
            binds.append([k, "m", registry[id(v)]])
            continue
        found = None
        an = src_name.get(k, k)
        for mid, tag in registry.items():
            mod = objs[mid]
            if mod is not None and an in _dict(mod) and _dict(mod)[an] is v:
                found = [k, "a", tag, an]
                break
        binds.append(found or ([k, "m", registry[id(v)]] if id(v) in registry else [k, "?", type(v).__name__]))
    kind = "ok"
    if exc is not None:
        msg = str(exc)
        kind = "exc:" + type(exc).__name__
        if isinstance(exc, AttributeError):
            kind = "attrMissing"
        elif isinstance(exc, ImportError):
            for pat, k in ERR_KIND:
                if pat in msg:
                    kind = k
                    break
    c.impl = sx(["binds"] + binds) + " " + kind
    # ---- model line: the files that exist (with the dict keys a loaded pyscript module has), host modules involved
    default_attrs = S.setdefault("pys_default_attrs", None)
    if default_attrs is None and pys_attrs:
        S["pys_default_attrs"] = default_attrs = next(iter(pys_attrs.values()))
    files = [[rel, "pys:" + rel, pys_attrs.get(rel) or default_attrs or ["x", "_y", "f"]] for rel in pys]
    mstmt = (["import"] + [[n, a or "-"] for n, a in st[1]]) if st[0] == "import" else \
        (["from", st[1] or "-", st[2]] + [[n, a or "-"] for n, a in st[3]])
    cname, crel = CTXS[p["ctx"]]
    c.line = "C17 " + sx(["imp", p["allow"], crel or "-", cname, ["files"] + files, ["host"] + host, ["w"] + wraps, mstmt])
    if p.get("ctx_allow") is not None:
        # two steps of ONE evaluator (model: runSeq), the option is an input of each step
        fs = list(FIRST_STMT)
        first = ["from", fs[1], fs[2]] + [[n, a_ or "-"] for n, a_ in fs[3]]
        c.impl = g.first_obs + "; " + c.impl
        c.line = "C17 " + sx(["seq", crel or "-", cname, ["files"] + files, ["host"] + host,
                              ["steps", [p["ctx_allow"], ["w"], first], [p["allow"], ["w"] + wraps, mstmt]]])
    p["_obs"] = {"exc": type(exc).__name__ if exc else None, "msg": str(exc)[:120] if exc else None, "kind": kind,
                 "binds": binds, "calls": calls, "loaded": sorted(registry.values())}


def _dict(m):
    d = getattr(m, "__dict__", None)
    return d if isinstance(d, dict) else {}


def _obj_by_id(mid, S, registry, pys=None):
    tag = registry[mid]
    if tag.startswith("pys:"):
        gc = S["GCM"].get((pys or PYS_FILES)[tag[4:]])
        return gc.module if gc is not None else None
    ok, m = host_expect(tag[5:])
    return m if ok else None


async def _run_name(c):
    S = _S
    p = c.payload
    x, mode = p["name"], p["mode"]
    S["IE"].set_allow_all_imports(bool(p.get("allow", False)))
    src = {"direct": f"__r = {x}", "exec": f"exec({('__r = ' + x)!r})", "eval": f"__r = eval({x!r})",
           "func": f"def __f():\n    return {x}\n__r = __f()", "user": f"{x} = 12345\n__r = {x}",
           # every other way a plain name can be looked up: a function that declares it global, a nested function,
           # a comprehension, a class body
           "gfunc": f"def __f():\n    global {x}\n    return {x}\n__r = __f()",
           "nested": f"def __f():\n    def __g():\n        return {x}\n    return __g()\n__r = __f()",
           "comp": f"__r = [{x} for __i in [1]][0]",
           "cls": f"class __C:\n    v = {x}\n__r = __C.v",
           "lambda": f"__r = (lambda: {x})()",
           # through the namespaces pyscript hands out, and through the name of the builtins module itself
           "globals": f"__r = globals()[{x!r}]",
           "locals": f"def __f():\n    return locals()[{x!r}]\n__r = __f()",
           "bi_attr": f"__r = getattr(__builtins__, {x!r})",
           "bi_item": f"__r = __builtins__[{x!r}]",
           "try": f"try:\n    __r = {x}\nexcept NameError:\n    __r = '<NameError>'"}[mode]
    g, a, exc = await _exec("script", src)
    if exc is not None:
        res = "evalName" if isinstance(exc, NameError) else "exc:" + type(exc).__name__
    else:
        v = g.global_sym_table.get("__r", None)
        if mode == "try" and isinstance(v, str) and v == "<NameError>":
            res = "evalName"
        elif mode == "user" and v == 12345:
            res = "user"
        elif hasattr(builtins, x) and v is getattr(builtins, x):
            res = "host"
        elif getattr(v, "__module__", None) == "custom_components.pyscript.eval":
            res = "astFactory"
        elif isinstance(getattr(v, "__self__", None), logging.Logger):
            res = "pyscriptFunc"
        else:
            res = "other:" + type(v).__name__
    c.impl = res
    func = x in S["Function"].functions or x in S["Function"].ast_functions
    if mode in ("lambda", "globals", "locals", "bi_attr", "bi_item"):
        c.line = None                     # judged by the oracle only: these do not go through ast_name's builtin branch
    elif mode == "gfunc":
        c.line = "C17 " + sx(["nameg", x, False])
    else:
        c.line = "C17 " + sx(["name", x, mode == "user", hasattr(builtins, x), func])
    p["_obs"] = {"res": res, "is_host": bool(exc is None and hasattr(builtins, x)
                                            and g.global_sym_table.get("__r") is getattr(builtins, x))}


async def _run_attrpath(c):
    """does this attribute path hand out the host's builtins?  Outside the property (plain names) – counted only."""
    S = _S
    S["IE"].set_allow_all_imports(False)
    g, a, exc = await _exec("script", c.payload["src"])
    v = g.global_sym_table.get("__r") if exc is None else None
    reach = False
    try:
        if isinstance(v, dict):
            reach = v.get("open") is builtins.open or (isinstance(v.get("__builtins__"), dict) and v["__builtins__"].get("open") is builtins.open) \
                or getattr(v.get("__builtins__"), "open", None) is builtins.open
        elif v is not None:
            reach = getattr(v, "open", None) is builtins.open
    except Exception:  # pylint: disable=broad-except
        reach = False
    c.impl = None
    c.payload["_obs"] = {"exc": type(exc).__name__ if exc else None, "reaches_host_builtins": bool(reach)}


async def _run_call(c):
    """print(...) must land on the script's logger and nowhere else"""
    S = _S
    x = c.payload["name"]
    recs = []

    class H(logging.Handler):
        def emit(self, r):
            recs.append((r.name, r.levelname, str(r.msg)))
    g, a = _new_ctx("script")
    logging.disable(logging.NOTSET)
    lg = a.get_logger()
    h = H()
    lg.addHandler(h)
    old_level = lg.level
    lg.setLevel(logging.DEBUG)
    out = io.StringIO()
    exc = None
    try:
        with patch.object(sys, "stdout", out):
            if x == "print":
                a.parse("print('m-print')\nlog.info('m-info')")
                await a.eval()
            else:
                # never CALL a host builtin that turned out to be reachable (input/breakpoint would block)
                try:
                    a.parse(f"__r = {x}")
                    await a.eval()
                except NameError:
                    pass
                if hasattr(builtins, x) and g.global_sym_table.get("__r") is getattr(builtins, x):
                    raise RuntimeError("REACHABLE")
                g, a = _new_ctx("script")
                a.parse(f"__r = {x}('zz_no_such_file_c17')")
                await a.eval()
    except BaseException as e:  # pylint: disable=broad-except
        exc = e
    finally:
        lg.removeHandler(h)
        lg.setLevel(old_level)
        logging.disable(logging.CRITICAL)
    c.impl = None
    c.payload["_obs"] = {"exc": type(exc).__name__ if exc else None, "recs": recs, "stdout": out.getvalue(),
                         "logger": lg.name}


def run_impl(cases):
    S = _setup()
    loop = S["loop"]
    logging.disable(logging.CRITICAL)

    async def go():
        for c in cases:
            k = c.payload["kind"]
            if k == "imp":
                await _run_imp(c)
            elif k == "name":
                await _run_name(c)
            elif k == "attrpath":
                await _run_attrpath(c)
            else:
                await _run_call(c)
    loop.run_until_complete(go())


# ------------------------------------------------------------------ the property oracle
def _in_app(ctx):
    rel = CTXS[ctx][1]
    return rel is not None and rel.startswith("apps/")


def _pys_visible(name, ctx, files):
    """the pyscript module file an absolute import of `name` from context `ctx` denotes (apps/ only from inside an app)"""
    path = name.replace(".", "/")
    cands = ([f"apps/{path}/__init__.py", f"apps/{path}.py"] if _in_app(ctx) else []) + \
        [f"modules/{path}/__init__.py", f"modules/{path}.py"]
    for cnd in cands:
        if cnd in files:
            return cnd
    return None


def _rel_expect(ctx, level, mod, files):
    """Python's meaning of `from <level dots><mod>`: "noparent" | "above" | ("file", path) | "missing".  The package of a
    context is the directory it lives in; the top-level packages are apps/<app>, modules/<pkg>, scripts/<dir>."""
    rel = CTXS[ctx][1]
    if rel is None:
        return "noparent"
    parts = (rel[:-len("/__init__")] if rel.endswith("/__init__") else rel).split("/")
    up = level - 1
    if up >= len(parts) - 1:
        return "above"
    base = "/".join(parts[:len(parts) - up])
    path = mod.replace(".", "/")
    for cnd in (f"{base}/{path}/__init__.py", f"{base}/{path}.py"):
        if cnd in files:
            return ("file", cnd)
    return "missing"


PYS_ATTRS = ["x", "_y", "f"]            # MOD_SRC


def _from_binds(tag, attrs, names):
    """bindings of `from <module tag> import names` until the first missing attribute"""
    out = []
    for an, aas in names:
        if an == "*":
            out += [[k, "a", tag, k] for k in attrs if not k.startswith("_")]
        elif an in attrs:
            out.append([aas or an, "a", tag, an])
        else:
            return out, an
    return out, None


def _verdict_relative(p, o):
    st = p["stmt"]
    S = _S
    files = set(_pys_map(p))
    binds = o["binds"]
    level = int(st[2])
    if st[1] is None:
        expect = []
        for n, asn in st[3]:
            r = _rel_expect(p["ctx"], level, n, files)
            if r in ("noparent", "above"):
                if o["exc"] != "ImportError" or binds != _as_dict(expect) or o["calls"]:
                    return (f"relative-escape: {p['src']!r} in context {p['ctx']} ({r}) must raise ImportError and bind "
                            f"nothing new, got {o['exc']} / {binds[:4]} / host imports {o['calls']}")
                return None
            if r == "missing":
                if o["exc"] != "ModuleNotFoundError" or binds != _as_dict(expect) or o["calls"]:
                    return (f"relative-missing-module: {p['src']!r} in {p['ctx']}: no such module below the package, expected "
                            f"ModuleNotFoundError, got {o['exc']} / {binds[:4]} / host imports {o['calls']}")
                return None
            expect.append([asn or n, "m", "pys:" + r[1]])
        if o["exc"] or binds != _as_dict(expect):
            return f"relative-wrong-binding: {p['src']!r} in {p['ctx']} gave {o['exc']} / {binds[:4]}, expected {expect[:4]}"
        return None
    mod = st[1]
    r = _rel_expect(p["ctx"], level, mod, files)
    if r in ("noparent", "above"):
        if o["exc"] != "ImportError" or binds or o["calls"]:
            return (f"relative-escape: {p['src']!r} in context {p['ctx']} ({r}) must raise ImportError and bind nothing, "
                    f"got {o['exc']} / {binds[:4]} / host imports {o['calls']}")
        return None
    if r == "missing":
        permitted = mod in S["allowed"] or p["allow"]
        if not permitted:
            if o["exc"] != "ModuleNotFoundError" or binds or mod in o["calls"]:
                return (f"relative-fallback-refused-name: {p['src']!r} in {p['ctx']}: nothing below the package and the bare "
                        f"name {mod!r} is not importable, expected ModuleNotFoundError, got {o['exc']} / {binds[:4]} / {o['calls']}")
            return None
        if o["exc"] in ("ModuleNotFoundError", "ImportError") and not binds:
            return None                                     # Python's answer
        ok, m = host_expect(mod)                            # pyscript's fallback: the bare name as an absolute host import
        if not ok:
            return None if (o["exc"] == "ModuleNotFoundError" and not binds) else \
                f"relative-fallback-wrong: {p['src']!r} gave {o['exc']} / {binds[:4]}"
        exp, missing = _from_binds("host:" + mod, list(_dict(m).keys()), st[3])
        if missing is not None:
            if o["exc"] in ("AttributeError", "ImportError") and binds == _as_dict(exp):
                return None
            sub_ok = f"{mod}.{missing}" in S["subs"] or f"{mod}.{missing}" in S["exists"]
            if sub_ok and o["exc"] is None:
                return None
            return f"relative-fallback-wrong: {p['src']!r} gave {o['exc']} / {binds[:4]} expected {exp[:4]} then a failure"
        if o["exc"] or binds != _as_dict(exp):
            return f"relative-fallback-wrong: {p['src']!r} gave {o['exc']} / {binds[:4]} expected {exp[:4]}"
        return None
    exp, missing = _from_binds("pys:" + r[1], PYS_ATTRS, st[3])
    if missing is not None:
        if o["exc"] not in ("AttributeError", "ImportError") or binds != _as_dict(exp):
            return f"relative-wrong-binding: {p['src']!r} in {p['ctx']} gave {o['exc']} / {binds[:4]}, expected {exp[:4]} then a failure"
        return None
    if o["exc"] or binds != _as_dict(exp):
        return f"relative-wrong-binding: {p['src']!r} in {p['ctx']} gave {o['exc']} / {binds[:4]}, expected {exp[:4]}"
    return None



def verdict(c):
    p = c.payload
    o = p.get("_obs")
    if o is None:
        return None
    if p["kind"] == "attrpath":
        return None
    if p["kind"] == "name":
        x = p["name"]
        if p["mode"] == "lambda" and (x in NAMED or x.startswith("_")) and o["is_host"]:
            return f"native-code-builtins: {x!r} inside a lambda (natively compiled) resolves to the host builtin"
        if p["mode"] != "user" and (x in NAMED or x.startswith("_")) and o["is_host"]:
            return f"builtin-reachable: plain name {x!r} ({p['mode']}) resolves to the host builtin"
        return None
    if p["kind"] == "call":
        x = p["name"]
        if x == "print":
            if o["exc"]:
                return f"print-raises: print('…') raised {o['exc']}"
            if o["stdout"]:
                return "print-to-stdout: print wrote to the real stdout"
            if not any(m == "m-print" and n == o["logger"] for n, _, m in o["recs"]):
                return f"print-not-logged: print('m-print') left no record on the script logger {o['logger']}"
            if not any(m == "m-info" and lv == "INFO" for _, lv, m in o["recs"]):
                return "log-not-logged: log.info left no INFO record on the script logger"
        elif o["exc"] != "NameError":
            return f"builtin-callable: calling {x}(…) by its plain name did not fail with NameError (got {o['exc']})"
        return None
    st = p["stmt"]
    S = _S
    binds = o["binds"]
    if st[0] == "from" and st[1] is not None and (st[1] == "stubs" or st[1].startswith("stubs.")):
        if any(a for _, a in st[3]):
            return None if (o["exc"] == "ModuleNotFoundError" and not binds) else \
                f"stubs-as: {p['src']!r} gave {o['exc']} / {binds}"
        if o["exc"] or binds or o["calls"]:
            return f"stubs-not-ignored: {p['src']!r} gave {o['exc']}, bound {binds}, imported {o['calls']}"
        return None
    if st[0] == "from" and (st[1] is None or st[2]):
        return _verdict_relative(p, o)
    mods = [(n, a) for n, a in st[1]] if st[0] == "import" else [(st[1], None)]
    expect_binds = []
    expect_exc = None
    for n, asn in mods:
        vis = _pys_visible(n, p["ctx"], set(_pys_map(p)))
        permitted = bool(vis) or n in S["allowed"] or p["allow"]
        if not permitted:
            expect_exc = ("ModuleNotFoundError", f"refused:{n}")
            break
        if vis:
            tag = "pys:" + vis
            attrs_of = None
        else:
            ok, m = host_expect(n)
            if not ok:
                expect_exc = ("ModuleNotFoundError", f"nohost:{n}")
                break
            tag, attrs_of = "host:" + n, m
        if st[0] == "import":
            expect_binds.append([asn or n, "m", tag])
        else:
            for an, aas in st[3]:
                if an == "*":
                    keys = [k for k in (_dict(attrs_of) if attrs_of is not None else ["x", "_y", "f"]) if not k.startswith("_")]
                    expect_binds += [[k, "a", tag, k] for k in keys]
                else:
                    has = (an in _dict(attrs_of)) if attrs_of is not None else an in ("x", "_y", "f")
                    if not has:
                        sub_ok = attrs_of is not None and (f"{n}.{an}" in S["subs"] or f"{n}.{an}" in S["exists"])
                        expect_exc = ("SUBMODULE" if sub_ok else "ImportError|AttributeError", f"noattr:{n}.{an}")
                        break
                    expect_binds.append([aas or an, "a", tag, an])
            if expect_exc:
                break
    expect_binds = _as_dict(expect_binds)
    if expect_exc and expect_exc[1].startswith("refused:"):
        n = expect_exc[1][8:]
        if o["exc"] != "ModuleNotFoundError":
            return (f"refused-import-not-refused: {p['src']!r} (allow_all={p['allow']}, {p['ctx']}) must raise "
                    f"ModuleNotFoundError for {n!r}, got {o['exc']} with bindings {binds[:4]}")
        if n in o["calls"]:
            return f"refused-import-reached-importlib: {p['src']!r} imported {n!r} before refusing"
        if binds != expect_binds:
            return f"refused-import-bound-names: {p['src']!r} left bindings {binds[:4]} (expected {expect_binds})"
        return None
    if expect_exc and expect_exc[0] == "SUBMODULE":
        if o["exc"] is None:
            return None
        return (f"from-import-unloaded-submodule: {p['src']!r} is permitted and {expect_exc[1][7:]!r} is an importable "
                f"submodule, CPython imports it; pyscript raised {o['exc']}")
    if expect_exc:
        if o["exc"] is None:
            return f"missing-module-imported: {p['src']!r} should fail ({expect_exc[1]}) but bound {binds[:4]}"
        if o["exc"] not in ("ModuleNotFoundError", "ImportError", "AttributeError"):
            return f"wrong-exception: {p['src']!r} raised {o['exc']}"
        if binds != expect_binds:
            return f"failed-import-bound-names: {p['src']!r} left {binds[:4]} expected {expect_binds[:4]}"
        return None
    if o["exc"]:
        return (f"permitted-import-failed: {p['src']!r} (allow_all={p['allow']}, {p['ctx']}) is permitted but raised "
                f"{o['exc']}: {o['msg']}")
    if binds != expect_binds:
        if any(b[0].startswith("_") for b in binds) and st[0] == "from" and any(an == "*" for an, _ in st[3]):
            return f"star-import-private: {p['src']!r} bound underscore names"
        return f"wrong-binding: {p['src']!r} bound {binds[:4]} expected {expect_binds[:4]}"
    return None


def _as_dict(binds):
    """writes in order -> final symbol table (a dict: a rebinding keeps the key's position)"""
    d = {}
    for b in binds:
        d[b[0]] = b
    return list(d.values())


def classify(c, reason):
    return reason.split(":", 1)[0]


def replay_cases(obj):
    p = obj["case"]
    p.pop("_obs", None)
    _setup()
    _S.setdefault("subs", {"json.tool"})
    return [Case(p, None)]


def extra_coverage(cases):
    kinds, outcomes, resolved = {}, {}, {}
    for c in cases:
        o = c.payload.get("_obs") or {}
        kinds[c.payload["kind"]] = kinds.get(c.payload["kind"], 0) + 1
        if c.payload["kind"] == "imp":
            outcomes[o.get("kind")] = outcomes.get(o.get("kind"), 0) + 1
        elif c.payload["kind"] == "name":
            resolved[o.get("res")] = resolved.get(o.get("res"), 0) + 1
    names = {c.payload["stmt"][1][-1][0] if c.payload["stmt"][0] == "import" else c.payload["stmt"][1]
             for c in cases if c.payload["kind"] == "imp"}
    tags = {}
    for c in cases:
        if c.payload["kind"] == "imp":
            for t in c.tags:
                if t.startswith(("wrap:", "from-rel")) or t in CTXS or t == "stubfiles":
                    tags[t] = tags.get(t, 0) + 1
    modes = {}
    for c in cases:
        if c.payload["kind"] == "name":
            modes[c.payload["mode"] + ("+allow_all" if c.payload.get("allow") else "")] = \
                modes.get(c.payload["mode"] + ("+allow_all" if c.payload.get("allow") else ""), 0) + 1
    attr = {c.payload["src"]: (c.payload.get("_obs") or {}).get("reaches_host_builtins") for c in cases
            if c.payload["kind"] == "attrpath"}
    return {"case_kinds": kinds, "import_outcomes": outcomes, "name_resolutions": resolved, "distinct_module_names": len(names),
            "import_positions_contexts_levels": tags, "name_modes": modes, "attribute_paths": attr}


import atexit  # noqa: E402
atexit.register(_cleanup)
